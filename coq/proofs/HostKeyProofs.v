From Coq Require Import Lia ZifyBool Permutation Sorted.
From VModel Require Import HostKey.
From VProofs Require Import WireProofs TerrapinProofs.
Open Scope string_scope. Open Scope list_scope. Open Scope Z_scope.

(* ================= byte strings ================= *)
Definition small (l : list Z) : Prop := zlen l < 4294967296.

Lemma get_bytes_estr s r : small s -> get_bytes (estr s ++ r) = Ok (s, zlen s, r).
Proof.
  intros Hs. unfold get_bytes, estr, bind. rewrite <- app_assoc.
  assert (He: enc_u32 (zlen s) = Ok (be_bytes 4 (zlen s))).
  { unfold enc_u32, u32_ok. pose proof (zlen_nonneg s). unfold small in Hs.
    destruct ((0 <=? zlen s) && (zlen s <? 4294967296)) eqn:E; [reflexivity|lia]. }
  rewrite (u32_roundtrip _ _ _ He). rewrite take_app_exact, drop_app_exact. reflexivity.
Qed.
Lemma get_bytes_estr_nil s : small s -> get_bytes (estr s) = Ok (s, zlen s, []).
Proof. intros Hs. rewrite <- (app_nil_r (estr s)). apply get_bytes_estr. exact Hs. Qed.

Lemma drop_exact n (s r : list Z) : zlen s = n -> drop n (s ++ r) = r.
Proof. intros <-. apply drop_app_exact. Qed.
Lemma take4_app a b c d (r : list Z) : take 4 ([a; b; c; d] ++ r) = [a; b; c; d].
Proof. exact (take_app_exact [a; b; c; d] r). Qed.
Lemma drop4_app a b c d (r : list Z) : drop 4 ([a; b; c; d] ++ r) = r.
Proof. exact (drop_app_exact [a; b; c; d] r). Qed.

Lemma nonempty_ok {A} (l : list Z) (k : res A) : l <> [] -> nonempty_or_valueerror l k = k.
Proof. destruct l; [congruence|reflexivity]. Qed.

Lemma str_of_bytes_of s : str_of (bytes_of s) = s.
Proof.
  unfold str_of, bytes_of. induction s as [|c s IH]; [reflexivity|].
  cbn [chars map of_chars]. rewrite Nat2Z.id, ascii_nat_embedding. f_equal. exact IH.
Qed.
Lemma decode_bytes_of s : ascii_ok (bytes_of s) = true -> decode_ascii (bytes_of s) = Ok s.
Proof. intros H. unfold decode_ascii. rewrite H, str_of_bytes_of. reflexivity. Qed.
Lemma small_bytes_of s : (String.length s < 1000)%nat -> small (bytes_of s).
Proof.
  intros H. unfold small, zlen, bytes_of. rewrite map_length.
  assert (List.length (chars s) = String.length s) as -> by (clear H; induction s as [|c s IH]; cbn [chars List.length String.length]; [reflexivity|rewrite IH; reflexivity]). lia.
Qed.

(* ================= __adjust_key_size ================= *)
Lemma adjust_spec m : 0 <= m -> adjust_key_size m = 16 * (m / 2).
Proof.
  intros Hm. unfold adjust_key_size. cbv zeta.
  rewrite Z.shiftr_div_pow2 by lia. change (2 ^ 3) with 8. rewrite Z.div_mul by lia.
  destruct (Z.odd m) eqn:E.
  - apply Z.odd_spec in E. destruct E as [q ->]. Z.div_mod_to_equations. lia.
  - assert (Ev: Z.even m = true) by (rewrite <- Z.negb_odd, E; reflexivity).
    apply Z.even_spec in Ev. destruct Ev as [q ->]. Z.div_mod_to_equations. lia.
Qed.

(* the byte count of the modulus field of a key of k bits (k a multiple of 16), with or without the leading
   zero byte, is turned into exactly k *)
Lemma adjust_multiple_of_16 k len : 0 < k -> k mod 16 = 0 -> (len = k / 8 \/ len = k / 8 + 1) -> adjust_key_size len = k.
Proof.
  intros Hk Hm Hl. rewrite adjust_spec by (Z.div_mod_to_equations; lia).
  Z.div_mod_to_equations. lia.
Qed.
(* what is reported for an RFC 4251 mpint modulus of k bits in general *)
Definition measured (k : Z) : Z := 16 * ((k / 8 + 1) / 2).
Lemma measured_bounds k : 0 < k -> k - 7 <= measured k <= k + 8.
Proof. intros Hk. unfold measured. Z.div_mod_to_equations. lia. Qed.
Lemma measured_mono k k' : k <= k' -> measured k <= measured k'.
Proof. intros H. unfold measured. Z.div_mod_to_equations. lia. Qed.
Lemma measured_16 k : 0 < k -> k mod 16 = 0 -> measured k = k.
Proof. intros Hk Hm. unfold measured. Z.div_mod_to_equations. lia. Qed.
Lemma measured_8 k : 0 < k -> k mod 16 = 8 -> measured k = k + 8.
Proof. intros Hk Hm. unfold measured. Z.div_mod_to_equations. lia. Qed.

(* ================= RFC 4251 mpint bodies of positive numbers ================= *)
Lemma mpint_body_pos n : 0 < n -> mpint_body n = be_bytes (Z.to_nat (mp_len n)) n.
Proof.
  intros Hn. assert (Hn0: n <> 0) by lia.
  destruct (mp_len_bound n Hn0) as [HL Hb]. unfold mpint_body, create_mpint. fold (mp_len n).
  set (L := Z.to_nat (mp_len n)). assert (HLn: Z.of_nat L = mp_len n) by (unfold L; lia).
  pose proof (val_be_bytes L n) as Hv. pose proof (be_bytes_length L n) as Hlen.
  pose proof (be_bytes_range L n) as Hr. rewrite HLn in Hv.
  destruct (be_bytes L n) as [|b t] eqn:Ed; [reflexivity|].
  destruct (strip_ff80_cases b t) as [[r [-> ->]]|Hnot]; [exfalso|exact Hnot].
  assert (H256: 256 ^ mp_len n = 2 * 2 ^ (8 * mp_len n - 1)).
  { change 256 with (2 ^ 8). rewrite <- Z.pow_mul_r by lia.
    replace (8 * mp_len n) with (Z.succ (8 * mp_len n - 1)) at 1 by lia.
    rewrite Z.pow_succ_r by lia. reflexivity. }
  assert (Hpos: 0 < 2 ^ (8 * mp_len n - 1)) by (apply Z.pow_pos_nonneg; lia).
  assert (Hm: n mod 256 ^ mp_len n = n) by (apply Z.mod_small; lia).
  inversion Hr as [|? ? Hb0 Ht]; subst. pose proof (val_range _ Ht) as Hvt.
  cbn [List.length] in Hlen.
  change (val (255 :: 128 :: r)) with (255 * 256 ^ zlen (128 :: r) + val (128 :: r)) in Hv.
  assert (Hlt: zlen (128 :: r) = mp_len n - 1) by (unfold zlen; cbn [List.length]; lia).
  assert (Hsplit: 256 ^ mp_len n = 256 * 256 ^ zlen (128 :: r)).
  { rewrite Hlt. replace (mp_len n) with (Z.succ (mp_len n - 1)) at 1 by lia.
    rewrite Z.pow_succ_r by lia. reflexivity. }
  assert (Hp2: 0 < 256 ^ zlen (128 :: r)) by (apply Z.pow_pos_nonneg; [lia|apply zlen_nonneg]).
  rewrite Hm in Hv. set (P := 256 ^ zlen (128 :: r)) in *. set (Q := 2 ^ (8 * mp_len n - 1)) in *. lia.
Qed.
Lemma mp_len_pos n : 0 < n -> mp_len n = bitlen n / 8 + 1.
Proof. intros Hn. unfold mp_len. destruct (n =? 0) eqn:E; lia. Qed.
Lemma mpint_body_len n : 0 < n -> zlen (mpint_body n) = bitlen n / 8 + 1.
Proof.
  intros Hn. rewrite mpint_body_pos by exact Hn. unfold zlen. rewrite be_bytes_length.
  assert (Hn0: n <> 0) by lia. destruct (mp_len_bound n Hn0) as [HL _]. rewrite <- mp_len_pos by exact Hn. lia.
Qed.
Lemma mpint_body_nonempty n : 0 < n -> mpint_body n <> [].
Proof.
  intros Hn H. pose proof (mpint_body_len n Hn) as Hl. rewrite H in Hl. change (zlen (@nil Z)) with 0 in Hl.
  assert (Hn0: n <> 0) by lia. destruct (bitlen_bound n Hn0) as [_ Hb]. Z.div_mod_to_equations. lia.
Qed.

(* ================= recv_reply on well-formed replies ================= *)
Lemma parse_reply_payload blob f sig : small blob -> small f -> small sig ->
  parse_reply (reply_payload blob f sig) = parse_hostkey blob.
Proof.
  intros Hb Hf Hs. unfold parse_reply, reply_payload.
  rewrite get_bytes_estr by exact Hb. cbn [bind].
  rewrite get_bytes_estr by exact Hf. cbn [bind].
  rewrite get_bytes_estr_nil by exact Hs. cbn [bind]. reflexivity.
Qed.

Ltac gb := first [rewrite get_bytes_estr by assumption | rewrite get_bytes_estr_nil by assumption]; cbn [bind].

Lemma dec_ssh_rsa : decode_ascii (bytes_of "ssh-rsa") = Ok "ssh-rsa". Proof. reflexivity. Qed.
Lemma dec_ed25519 : decode_ascii (bytes_of "ssh-ed25519") = Ok "ssh-ed25519". Proof. reflexivity. Qed.
Lemma dec_ed448 : decode_ascii (bytes_of "ssh-ed448") = Ok "ssh-ed448". Proof. reflexivity. Qed.
Lemma dec_rsa_cert : decode_ascii (bytes_of rsa_cert_name) = Ok rsa_cert_name. Proof. reflexivity. Qed.
Lemma dec_ed25519_cert : decode_ascii (bytes_of ed25519_cert_name) = Ok ed25519_cert_name. Proof. reflexivity. Qed.
Lemma small_name s : (String.length s <? 1000)%nat = true -> small (bytes_of s).
Proof. intros H. apply small_bytes_of. apply Nat.ltb_lt. exact H. Qed.

Lemma parse_rsa_blob e n : small e -> small n -> e <> [] -> n <> [] ->
  parse_hostkey (rsa_key_blob e n) =
  Ok {| r_blob := rsa_key_blob e n; r_type := "ssh-rsa"; r_nlen := zlen n; r_ca_type := ""; r_ca_nlen := 0 |}.
Proof.
  intros He Hn Hen Hnn. unfold parse_hostkey. unfold rsa_key_blob at 1.
  assert (small (bytes_of "ssh-rsa")) by (apply small_name; reflexivity).
  gb. rewrite dec_ssh_rsa. cbn [bind].
  change (starts_with t_rsa_cert_prefix "ssh-rsa") with false. cbv iota. cbn [bind].
  gb. rewrite (nonempty_ok e) by exact Hen.
  change ("ssh-rsa" =? "ssh-ed25519")%string with false. change ("ssh-rsa" =? "ssh-ed448")%string with false. cbv iota.
  gb. rewrite (nonempty_ok n) by exact Hnn. cbn [bind].
  change (starts_with t_ed25519_cert_prefix "ssh-rsa") with false. cbn [orb]. cbv iota. cbn [bind]. reflexivity.
Qed.

Lemma parse_ed25519_blob pk : small pk -> pk <> [] ->
  parse_hostkey (ed25519_key_blob pk) =
  Ok {| r_blob := ed25519_key_blob pk; r_type := "ssh-ed25519"; r_nlen := 32; r_ca_type := ""; r_ca_nlen := 0 |}.
Proof.
  intros Hp Hne. unfold parse_hostkey. unfold ed25519_key_blob at 1.
  assert (small (bytes_of "ssh-ed25519")) by (apply small_name; reflexivity).
  gb. rewrite dec_ed25519. cbn [bind].
  change (starts_with t_rsa_cert_prefix "ssh-ed25519") with false. cbv iota. cbn [bind].
  gb. rewrite (nonempty_ok pk) by exact Hne.
  change ("ssh-ed25519" =? "ssh-ed25519")%string with true. cbv iota. cbn [bind].
  change (starts_with t_ed25519_cert_prefix "ssh-ed25519") with false. cbn [orb]. cbv iota. cbn [bind]. reflexivity.
Qed.

Lemma parse_ed448_blob pk : small pk -> pk <> [] ->
  parse_hostkey (ed448_key_blob pk) =
  Ok {| r_blob := ed448_key_blob pk; r_type := "ssh-ed448"; r_nlen := 57; r_ca_type := ""; r_ca_nlen := 0 |}.
Proof.
  intros Hp Hne. unfold parse_hostkey. unfold ed448_key_blob at 1.
  assert (small (bytes_of "ssh-ed448")) by (apply small_name; reflexivity).
  gb. rewrite dec_ed448. cbn [bind].
  change (starts_with t_rsa_cert_prefix "ssh-ed448") with false. cbv iota. cbn [bind].
  gb. rewrite (nonempty_ok pk) by exact Hne.
  change ("ssh-ed448" =? "ssh-ed25519")%string with false. change ("ssh-ed448" =? "ssh-ed448")%string with true. cbv iota. cbn [bind].
  change (starts_with t_ed25519_cert_prefix "ssh-ed448") with false. cbn [orb]. cbv iota. cbn [bind]. reflexivity.
Qed.

(* ---- the reported size of an RSA key encoded per RFC 4253 / RFC 4251 ---- *)
Definition rsa_reply_ok (e n : Z) (f sig : list Z) : Prop :=
  0 < e /\ 0 < n /\ small (mpint_body e) /\ small (mpint_body n) /\ small (rsa_key_blob_of e n) /\ small f /\ small sig.

Lemma rsa_reply e n f sig : rsa_reply_ok e n f sig ->
  parse_reply (reply_payload (rsa_key_blob_of e n) f sig) =
  Ok {| r_blob := rsa_key_blob_of e n; r_type := "ssh-rsa"; r_nlen := bitlen n / 8 + 1; r_ca_type := ""; r_ca_nlen := 0 |}.
Proof.
  intros (He & Hn & Hse & Hsn & Hsb & Hf & Hs).
  rewrite parse_reply_payload by assumption. unfold rsa_key_blob_of.
  rewrite parse_rsa_blob by (try assumption; apply mpint_body_nonempty; assumption).
  rewrite mpint_body_len by exact Hn. reflexivity.
Qed.

Lemma bitlen_nonneg n : 0 <= bitlen n.
Proof. unfold bitlen. destruct (n =? 0); [lia|]. pose proof (Z.log2_nonneg (Z.abs n)). lia. Qed.

Theorem rsa_size_general e n f sig : rsa_reply_ok e n f sig ->
  exists r, parse_reply (reply_payload (rsa_key_blob_of e n) f sig) = Ok r
            /\ r_blob r = rsa_key_blob_of e n /\ r_ca_type r = "" /\ ca_size r = 0
            /\ hostkey_size r = measured (bitlen n)
            /\ bitlen n - 7 <= hostkey_size r <= bitlen n + 8.
Proof.
  intros H. eexists. split; [apply rsa_reply; exact H|]. cbn [r_blob r_ca_type]. unfold hostkey_size, ca_size. cbn [r_nlen r_ca_nlen].
  destruct H as (_ & Hn & _).
  assert (Hb: 0 < bitlen n) by (apply bitlen_bound; lia).
  repeat split; try reflexivity.
  - rewrite adjust_spec by (pose proof (bitlen_nonneg n); Z.div_mod_to_equations; lia). reflexivity.
  - rewrite adjust_spec by (Z.div_mod_to_equations; lia). apply (measured_bounds (bitlen n) Hb).
  - rewrite adjust_spec by (Z.div_mod_to_equations; lia). apply (measured_bounds (bitlen n) Hb).
Qed.

Theorem rsa_size e n k f sig : rsa_reply_ok e n f sig -> bitlen n = k -> k mod 16 = 0 ->
  exists r, parse_reply (reply_payload (rsa_key_blob_of e n) f sig) = Ok r
            /\ r_blob r = rsa_key_blob_of e n /\ hostkey_size r = k /\ r_ca_type r = "" /\ ca_size r = 0.
Proof.
  intros H Hk Hm. destruct (rsa_size_general e n f sig H) as (r & Hr & Hb & Hc & Hcs & Hs & _).
  exists r. repeat split; try assumption. rewrite Hs, Hk. apply measured_16; [|exact Hm].
  subst k. destruct H as (_ & Hn & _). apply bitlen_bound. lia.
Qed.

(* non-vacuity of rsa_reply_ok and the recorded finding: a 2040-bit key (k mod 16 = 8) is reported as 2048 bits
   and rated like a 2048-bit key *)
Definition n2040 : Z := 2 ^ 2039 + 1.
Lemma rsa_reply_ok_2040 : rsa_reply_ok 65537 n2040 [] [].
Proof. unfold rsa_reply_ok, small. repeat split; vm_compute; reflexivity. Qed.
Lemma rsa_reply_ok_2048 : rsa_reply_ok 65537 (2 ^ 2047 + 1) [] [].
Proof. unfold rsa_reply_ok, small. repeat split; vm_compute; reflexivity. Qed.

Theorem rsa_size_refuted :
  exists e n f sig r, rsa_reply_ok e n f sig /\ bitlen n mod 16 = 8
    /\ parse_reply (reply_payload (rsa_key_blob_of e n) f sig) = Ok r /\ hostkey_size r <> bitlen n.
Proof.
  exists 65537, n2040, [], []. eexists. split; [exact rsa_reply_ok_2040|]. split; [vm_compute; reflexivity|].
  split; [apply rsa_reply; exact rsa_reply_ok_2040|]. vm_compute. discriminate.
Qed.

Theorem rsa_size_mod8 e n k f sig : rsa_reply_ok e n f sig -> bitlen n = k -> k mod 16 = 8 ->
  exists r, parse_reply (reply_payload (rsa_key_blob_of e n) f sig) = Ok r /\ hostkey_size r = k + 8.
Proof.
  intros H Hk Hm. destruct (rsa_size_general e n f sig H) as (r & Hr & _ & _ & _ & Hs & _).
  exists r. split; [exact Hr|]. rewrite Hs, Hk. apply measured_8; [|exact Hm].
  subst k. destruct H as (_ & Hn & _). apply bitlen_bound. lia.
Qed.

Theorem ed25519_size pk f sig : small pk -> pk <> [] -> small (ed25519_key_blob pk) -> small f -> small sig ->
  exists r, parse_reply (reply_payload (ed25519_key_blob pk) f sig) = Ok r
            /\ r_blob r = ed25519_key_blob pk /\ hostkey_size r = 256 /\ r_ca_type r = "" /\ ca_size r = 0.
Proof.
  intros Hp Hne Hb Hf Hs. eexists. split.
  - rewrite parse_reply_payload by assumption. apply parse_ed25519_blob; assumption.
  - repeat split; reflexivity.
Qed.
Theorem ed448_size pk f sig : small pk -> pk <> [] -> small (ed448_key_blob pk) -> small f -> small sig ->
  exists r, parse_reply (reply_payload (ed448_key_blob pk) f sig) = Ok r
            /\ r_blob r = ed448_key_blob pk /\ hostkey_size r = 448 /\ r_ca_type r = "" /\ ca_size r = 0.
Proof.
  intros Hp Hne Hb Hf Hs. eexists. split.
  - rewrite parse_reply_payload by assumption. apply parse_ed448_blob; assumption.
  - repeat split; reflexivity.
Qed.

(* ================= certificates: the CA key type and size ================= *)
Definition cert_ok (c : cert_fields) : Prop :=
  small (cf_nonce c) /\ zlen (cf_serial c) = 8 /\ small (cf_keyid c) /\ small (cf_principals c)
  /\ zlen (cf_after c) = 8 /\ zlen (cf_before c) = 8 /\ small (cf_critical c) /\ small (cf_extensions c)
  /\ small (cf_reserved c) /\ small (cf_signature c).

Lemma val_0002 : val [0; 0; 0; 2] = 2. Proof. reflexivity. Qed.

Lemma parse_ca_key_tail c ca : cert_ok c -> small ca -> parse_ca_key (cert_tail c ca) = parse_ca_blob ca.
Proof.
  intros (Hn & Hser & Hk & Hp & Ha & Hb & Hc & He & Hr & Hs) Hca.
  unfold parse_ca_key, cert_tail.
  rewrite (drop_exact 8 (cf_serial c)) by exact Hser.
  change (be_bytes 4 2) with [0; 0; 0; 2].
  rewrite take4_app, drop4_app. cbn [nonempty_or_valueerror]. rewrite val_0002. change (2 =? 2) with true. cbv iota.
  gb. gb.
  rewrite app_assoc. rewrite (drop_exact 16 (cf_after c ++ cf_before c)) by (rewrite zlen_app; lia).
  gb. gb. gb. gb. reflexivity.
Qed.

Lemma parse_rsa_cert c e n ca : cert_ok c -> small e -> small n -> e <> [] -> n <> [] -> small ca ->
  parse_hostkey (rsa_cert_blob c e n ca) =
  (do (cat, cal) <- parse_ca_blob ca;
   Ok {| r_blob := rsa_cert_blob c e n ca; r_type := rsa_cert_name; r_nlen := zlen n; r_ca_type := cat; r_ca_nlen := cal |}).
Proof.
  intros Hc He Hn Hen Hnn Hca. pose proof Hc as (Hno & _).
  unfold parse_hostkey. unfold rsa_cert_blob at 1.
  assert (small (bytes_of rsa_cert_name)) by (apply small_name; reflexivity).
  gb. rewrite dec_rsa_cert. cbn [bind].
  change (starts_with t_rsa_cert_prefix rsa_cert_name) with true. cbv iota. cbn [bind].
  gb. gb. rewrite (nonempty_ok e) by exact Hen.
  change (rsa_cert_name =? "ssh-ed25519")%string with false. change (rsa_cert_name =? "ssh-ed448")%string with false. cbv iota.
  gb. rewrite (nonempty_ok n) by exact Hnn. cbn [bind orb]. cbv iota.
  rewrite parse_ca_key_tail by assumption. reflexivity.
Qed.

Lemma parse_ed25519_cert c pk ca : cert_ok c -> small pk -> pk <> [] -> cf_nonce c <> [] -> small ca ->
  parse_hostkey (ed25519_cert_blob c pk ca) =
  (do (cat, cal) <- parse_ca_blob ca;
   Ok {| r_blob := ed25519_cert_blob c pk ca; r_type := ed25519_cert_name; r_nlen := zlen pk; r_ca_type := cat; r_ca_nlen := cal |}).
Proof.
  intros Hc Hp Hpn Hnn Hca. pose proof Hc as (Hno & _).
  unfold parse_hostkey. unfold ed25519_cert_blob at 1.
  assert (small (bytes_of ed25519_cert_name)) by (apply small_name; reflexivity).
  gb. rewrite dec_ed25519_cert. cbn [bind].
  change (starts_with t_rsa_cert_prefix ed25519_cert_name) with false. cbv iota. cbn [bind].
  (* the nonce is read as "exponent", the public key as "modulus" *)
  gb. rewrite (nonempty_ok (cf_nonce c)) by exact Hnn.
  change (ed25519_cert_name =? "ssh-ed25519")%string with false. change (ed25519_cert_name =? "ssh-ed448")%string with false. cbv iota.
  gb. rewrite (nonempty_ok pk) by exact Hpn. cbn [bind].
  change (starts_with t_ed25519_cert_prefix ed25519_cert_name) with true. cbn [orb]. cbv iota.
  rewrite parse_ca_key_tail by assumption. reflexivity.
Qed.

Lemma ca_rsa e n : small e -> small n -> parse_ca_blob (rsa_key_blob e n) = Ok ("ssh-rsa", zlen n).
Proof.
  intros He Hn. unfold parse_ca_blob, rsa_key_blob.
  assert (small (bytes_of "ssh-rsa")) by (apply small_name; reflexivity).
  gb. rewrite dec_ssh_rsa. cbn [bind].
  change ("ssh-rsa" =? "ssh-ed25519")%string with false. cbv iota.
  gb. gb. change (starts_with t_ecdsa_prefix "ssh-rsa") with false. cbn [andb]. cbv iota. reflexivity.
Qed.
Lemma ca_ed25519 pk : small pk -> parse_ca_blob (ed25519_key_blob pk) = Ok ("ssh-ed25519", 32).
Proof.
  intros Hp. unfold parse_ca_blob, ed25519_key_blob.
  assert (small (bytes_of "ssh-ed25519")) by (apply small_name; reflexivity).
  gb. rewrite dec_ed25519. cbn [bind].
  change ("ssh-ed25519" =? "ssh-ed25519")%string with true. cbv iota. reflexivity.
Qed.
Definition nist_curve (c : string) : Prop := c = "nistp256" \/ c = "nistp384" \/ c = "nistp521".
Lemma ca_ecdsa curve xy : nist_curve curve -> small (4 :: xy) ->
  parse_ca_blob (ecdsa_key_blob curve xy) = Ok ("ecdsa-sha2-" +++ curve, zlen xy / 2).
Proof.
  intros Hc Hq. unfold parse_ca_blob, ecdsa_key_blob.
  assert (Hlen: zlen (4 :: xy) = zlen xy + 1) by apply zlen_cons.
  pose proof (zlen_nonneg xy) as Hnn.
  destruct Hc as [ -> | [ -> | -> ] ].
  all: match goal with |- context [estr (bytes_of (?a ++ ?b)%string)] =>
         assert (small (bytes_of (a ++ b)%string)) by (apply small_name; reflexivity);
         assert (small (bytes_of b)) by (apply small_name; reflexivity);
         assert (Hd: decode_ascii (bytes_of (a ++ b)%string) = Ok (a ++ b)%string) by reflexivity;
         assert (Hs: starts_with t_ecdsa_prefix (a ++ b)%string = true) by reflexivity;
         assert (Hne: ((a ++ b) =? "ssh-ed25519")%string = false) by reflexivity
       end.
  all: gb; rewrite Hd; cbn [bind]; rewrite Hne; cbv iota; gb; gb; rewrite Hs; rewrite Hlen.
  all: destruct (0 <? zlen xy + 1) eqn:E; [|lia]; cbn [andb]; cbv iota.
  all: change (4 =? 4) with true; cbv iota; do 2 f_equal; f_equal; lia.
Qed.

(* the certificate theorems as stated in the property: type and size of the signing CA are what the blob carries *)
Theorem cert_reports_ca_rsa_cert c e n ca cat cal f sig :
  cert_ok c -> small e -> small n -> e <> [] -> n <> [] -> small ca -> small (rsa_cert_blob c e n ca) -> small f -> small sig ->
  parse_ca_blob ca = Ok (cat, cal) ->
  exists r, parse_reply (reply_payload (rsa_cert_blob c e n ca) f sig) = Ok r
            /\ r_blob r = rsa_cert_blob c e n ca /\ hostkey_size r = adjust_key_size (zlen n)
            /\ r_ca_type r = cat /\ ca_size r = adjust_key_size cal.
Proof.
  intros Hc He Hn Hen Hnn Hca Hb Hf Hs Hp. eexists. split.
  - rewrite parse_reply_payload by assumption. rewrite parse_rsa_cert by assumption. rewrite Hp. cbn [bind]. reflexivity.
  - repeat split; reflexivity.
Qed.
Theorem cert_reports_ca_ed25519_cert c pk ca cat cal f sig :
  cert_ok c -> zlen pk = 32 -> cf_nonce c <> [] -> small ca -> small (ed25519_cert_blob c pk ca) -> small f -> small sig ->
  parse_ca_blob ca = Ok (cat, cal) ->
  exists r, parse_reply (reply_payload (ed25519_cert_blob c pk ca) f sig) = Ok r
            /\ r_blob r = ed25519_cert_blob c pk ca /\ hostkey_size r = 256
            /\ r_ca_type r = cat /\ ca_size r = adjust_key_size cal.
Proof.
  intros Hc Hpk Hnn Hca Hb Hf Hs Hp.
  assert (Hsp: small pk) by (unfold small; lia).
  assert (Hpn: pk <> []) by (intros ->; change (zlen (@nil Z)) with 0 in Hpk; lia).
  eexists. split.
  - rewrite parse_reply_payload by assumption. rewrite parse_ed25519_cert by assumption. rewrite Hp. cbn [bind]. reflexivity.
  - unfold hostkey_size, ca_size. cbn [r_blob r_nlen r_ca_type r_ca_nlen]. rewrite Hpk. repeat split; reflexivity.
Qed.

(* sizes of the three CA kinds *)
Theorem ca_rsa_size e n k : 0 < e -> 0 < n -> small (mpint_body e) -> small (mpint_body n) -> bitlen n = k -> k mod 16 = 0 ->
  exists cal, parse_ca_blob (rsa_key_blob_of e n) = Ok ("ssh-rsa", cal) /\ adjust_key_size cal = k.
Proof.
  intros He Hn Hse Hsn Hk Hm. eexists. split; [apply ca_rsa; assumption|].
  rewrite mpint_body_len by exact Hn. rewrite Hk.
  apply adjust_multiple_of_16; [|exact Hm|right; reflexivity].
  subst k. apply bitlen_bound. lia.
Qed.
Theorem ca_rsa_size_general e n : 0 < e -> 0 < n -> small (mpint_body e) -> small (mpint_body n) ->
  exists cal, parse_ca_blob (rsa_key_blob_of e n) = Ok ("ssh-rsa", cal) /\ adjust_key_size cal = measured (bitlen n).
Proof.
  intros He Hn Hse Hsn. eexists. split; [apply ca_rsa; assumption|].
  rewrite mpint_body_len by exact Hn. rewrite adjust_spec; [reflexivity|].
  pose proof (bitlen_nonneg n). Z.div_mod_to_equations. lia.
Qed.
Theorem ca_ed25519_size pk : small pk -> parse_ca_blob (ed25519_key_blob pk) = Ok ("ssh-ed25519", 32) /\ adjust_key_size 32 = 256.
Proof. intros H. split; [apply ca_ed25519; exact H|reflexivity]. Qed.
(* an uncompressed point of a curve whose coordinates take `cl` bytes each *)
Theorem ca_ecdsa_size curve x y cl : nist_curve curve -> zlen x = cl -> zlen y = cl -> cl < 1000000 ->
  parse_ca_blob (ecdsa_key_blob curve (x ++ y)) = Ok ("ecdsa-sha2-" +++ curve, cl).
Proof.
  intros Hc Hx Hy Hcl. rewrite ca_ecdsa; [|exact Hc|unfold small; rewrite zlen_cons, zlen_app; lia].
  do 2 f_equal. rewrite zlen_app. Z.div_mod_to_equations. lia.
Qed.
(* 32 -> 256 and 48 -> 384 bits, but the 66-byte coordinates of P-521 give 528 *)
Lemma ecdsa_sizes : adjust_key_size 32 = 256 /\ adjust_key_size 48 = 384 /\ adjust_key_size 66 = 528.
Proof. repeat split; reflexivity. Qed.
Theorem ca_p521_size_refuted :
  exists x y cal, zlen x = 66 /\ zlen y = 66
    /\ parse_ca_blob (ecdsa_key_blob "nistp521" (x ++ y)) = Ok ("ecdsa-sha2-nistp521", cal) /\ adjust_key_size cal <> 521.
Proof.
  exists (repeat 1 66), (repeat 2 66). eexists. split; [reflexivity|]. split; [reflexivity|].
  split; [vm_compute; reflexivity|]. vm_compute. discriminate.
Qed.

(* ================= thresholds and monotonicity ================= *)
Definition W2K := hk_two2k_warning.
Lemma rsa_family_cases name : mem name rsa_family = true -> name = "ssh-rsa" \/ name = "rsa-sha2-256" \/ name = "rsa-sha2-512".
Proof.
  unfold rsa_family. cbn [mem].
  destruct (String.eqb_spec name "ssh-rsa"); [auto|].
  destruct (String.eqb_spec name "rsa-sha2-256"); [auto|].
  destruct (String.eqb_spec name "rsa-sha2-512"); [auto|discriminate].
Qed.
Definition rsa_cert_type (name : string) : Prop :=
  name = "ssh-rsa-cert-v01@openssh.com" \/ name = "rsa-sha2-256-cert-v01@openssh.com" \/ name = "rsa-sha2-512-cert-v01@openssh.com".

(* what the statement says about one RSA key of s bits *)
Definition rsa_fail (s : Z) : bool := s <? 2048.
Definition rsa_warn (s : Z) : bool := (2048 <=? s) && (s <? 3072).

Lemma size_notes_not_ecc name cert hs cat cs :
  is_ecc_host name = false -> is_ecc cat = false -> starts_with t_ecdsa_prefix cat = false -> (name =? "ssh-dss")%string = false ->
  0 < hs -> 0 <= cs ->
  size_notes name cert hs cat cs =
  if cert then
    ((if rsa_fail hs then [note_small "hostkey " hs] else []) ++ (if (0 <? cs) && rsa_fail cs then [note_small "CA key " cs] else []),
     if rsa_warn hs || ((0 <? cs) && rsa_warn cs) then [W2K] else [])
  else
    (if rsa_fail hs then [note_small "" hs] else [], if rsa_warn hs then [W2K] else []).
Proof.
  intros Hn Hc Hec Hd Hhs Hcs. unfold size_notes, rsa_fail, rsa_warn, W2K. rewrite Hn, Hc, Hec, Hd.
  unfold hk_min_good_rsa, hk_min_warn_rsa.
  assert (Hm: mem hk_two2k_warning [hk_two2k_warning] = true) by (cbn [mem]; rewrite String.eqb_refl; reflexivity).
  destruct cert; cbn [negb andb orb fst snd app].
  - destruct (0 <? hs) eqn:E0; [|lia]. cbn [orb].
    destruct (hs <? 3072) eqn:E1; destruct (hs <? 2048) eqn:E2; destruct (2048 <=? hs) eqn:E3; try lia;
    destruct (0 <? cs) eqn:E4; destruct (cs <? 3072) eqn:E5; destruct (cs <? 2048) eqn:E6; destruct (2048 <=? cs) eqn:E7; try lia;
    cbn [negb andb orb fst snd app mem]; try rewrite Hm; cbn [negb andb orb fst snd app]; try rewrite app_nil_r; reflexivity.
  - destruct (0 <? hs) eqn:E0; [|lia]. cbn [orb].
    destruct (hs <? 3072) eqn:E1; destruct (hs <? 2048) eqn:E2; destruct (2048 <=? hs) eqn:E3; try lia;
    cbn [negb andb orb fst snd app]; try rewrite app_nil_r; reflexivity.
Qed.

Theorem rsa_thresholds_host name s : mem name rsa_family = true -> 0 < s ->
  size_notes name false s "" 0 =
  (if s <? 2048 then [note_small "" s] else [], if (2048 <=? s) && (s <? 3072) then [hk_two2k_warning] else []).
Proof.
  intros Hn Hs. apply rsa_family_cases in Hn.
  destruct Hn as [ -> | [ -> | -> ] ]; apply (size_notes_not_ecc _ false s "" 0); try reflexivity; lia.
Qed.

Theorem rsa_thresholds_cert name hs cat cs : rsa_cert_type name -> mem cat rsa_family = true -> 0 < hs -> 0 < cs ->
  size_notes name true hs cat cs =
  ((if hs <? 2048 then [note_small "hostkey " hs] else []) ++ (if cs <? 2048 then [note_small "CA key " cs] else []),
   if ((2048 <=? hs) && (hs <? 3072)) || ((2048 <=? cs) && (cs <? 3072)) then [hk_two2k_warning] else []).
Proof.
  intros Hn Hc Hhs Hcs. apply rsa_family_cases in Hc.
  assert (E: (0 <? cs) = true) by lia.
  destruct Hn as [ -> | [ -> | -> ] ]; destruct Hc as [ -> | [ -> | -> ] ];
    rewrite (size_notes_not_ecc _ true hs _ cs) by (try reflexivity; lia); unfold rsa_fail, rsa_warn, W2K; rewrite E; reflexivity.
Qed.

(* an Ed25519 certificate signed by an RSA CA: only the CA size matters *)
Theorem rsa_thresholds_ca_of_ed25519_cert cat cs : mem cat rsa_family = true -> 0 < cs ->
  size_notes ed25519_cert_name true 256 cat cs =
  (if cs <? 2048 then [note_small "CA key " cs] else [], if (2048 <=? cs) && (cs <? 3072) then [hk_two2k_warning] else []).
Proof.
  intros Hc Hcs. apply rsa_family_cases in Hc.
  assert (Hm: mem hk_two2k_warning [] = false) by reflexivity.
  destruct Hc as [ -> | [ -> | -> ] ]; unfold size_notes;
    match goal with |- context [is_ecc ?c] => change (is_ecc c) with false; change (starts_with t_ecdsa_prefix c) with false end;
    change (is_ecc_host ed25519_cert_name) with true; cbv iota;
    unfold hk_min_good_rsa, hk_min_warn_rsa, hk_min_good_ecc, hk_min_warn_ecc;
    change (0 <? 256) with true; change (256 <? 256) with false; change (256 <? 224) with false;
    cbn [negb andb orb fst snd app];
    destruct (0 <? cs) eqn:E4; try lia; destruct (cs <? 3072) eqn:E5; destruct (cs <? 2048) eqn:E6; destruct (2048 <=? cs) eqn:E7; try lia;
    cbn [negb andb orb fst snd app mem]; reflexivity.
Qed.

Lemma severity_cases f w : severity (f, w) = match f with _ :: _ => 2 | [] => match w with _ :: _ => 1 | [] => 0 end end.
Proof. reflexivity. Qed.

Theorem rating_monotone_host name s s' : mem name rsa_family = true -> 0 < s -> s <= s' ->
  severity (size_notes name false s' "" 0) <= severity (size_notes name false s "" 0).
Proof.
  intros Hn Hs Hle. rewrite !rsa_thresholds_host by (try assumption; lia). rewrite !severity_cases.
  destruct (s <? 2048) eqn:A; destruct (s' <? 2048) eqn:B; destruct (2048 <=? s) eqn:C; destruct (2048 <=? s') eqn:D;
    destruct (s <? 3072) eqn:E; destruct (s' <? 3072) eqn:F; cbn [andb]; lia.
Qed.

Theorem rating_monotone_cert name cat hs hs' cs cs' : rsa_cert_type name -> mem cat rsa_family = true ->
  0 < hs -> hs <= hs' -> 0 < cs -> cs <= cs' ->
  severity (size_notes name true hs' cat cs') <= severity (size_notes name true hs cat cs).
Proof.
  intros Hn Hc H1 H2 H3 H4. rewrite !rsa_thresholds_cert by (try assumption; lia). rewrite !severity_cases.
  destruct (hs <? 2048) eqn:A; destruct (hs' <? 2048) eqn:B; destruct (2048 <=? hs) eqn:C; destruct (2048 <=? hs') eqn:D;
    destruct (hs <? 3072) eqn:E; destruct (hs' <? 3072) eqn:F; try lia;
    destruct (cs <? 2048) eqn:A'; destruct (cs' <? 2048) eqn:B'; destruct (2048 <=? cs) eqn:C'; destruct (2048 <=? cs') eqn:D';
    destruct (cs <? 3072) eqn:E'; destruct (cs' <? 3072) eqn:F'; try lia; cbn [andb orb app]; lia.
Qed.

(* ... and through the measurement: a numerically longer modulus is never rated worse *)
Theorem rating_monotone_bits name k k' : mem name rsa_family = true -> 16 <= k -> k <= k' ->
  severity (size_notes name false (measured k') "" 0) <= severity (size_notes name false (measured k) "" 0).
Proof.
  intros Hn Hk Hle. apply rating_monotone_host; [exact Hn| |apply measured_mono; exact Hle].
  unfold measured. Z.div_mod_to_equations. lia.
Qed.

(* the recorded finding in terms of the rating: a 2040-bit key is not failed *)
Theorem rsa_below_2048_fails_refuted :
  exists e n f sig r, rsa_reply_ok e n f sig /\ bitlen n < 2048
    /\ parse_reply (reply_payload (rsa_key_blob_of e n) f sig) = Ok r
    /\ fst (size_notes "ssh-rsa" false (hostkey_size r) (r_ca_type r) (ca_size r)) = [].
Proof.
  exists 65537, n2040, [], []. eexists. split; [exact rsa_reply_ok_2040|]. split; [vm_compute; reflexivity|].
  split; [apply rsa_reply; exact rsa_reply_ok_2040|]. vm_compute. reflexivity.
Qed.
(* Ed448 (after fix af30915: an ECC type): no size note for any size from 256 bits, in particular for the fixed 448 *)
Theorem ed448_no_size_note s : 256 <= s -> size_notes "ssh-ed448" false s "" 0 = ([], []).
Proof.
  intros Hs. unfold size_notes. change (is_ecc_host "ssh-ed448") with true. change (is_ecc "") with false.
  change (starts_with t_ecdsa_prefix "") with false. change ("ssh-ed448" =? "ssh-dss")%string with false. cbv iota.
  unfold hk_min_good_ecc. destruct (0 <? s) eqn:E0; [|lia]. cbn [orb negb andb].
  destruct (s <? 256) eqn:E1; [lia|]. cbn [andb fst snd app]. reflexivity.
Qed.
Theorem ed448_end_to_end pk f sig : small pk -> pk <> [] -> small (ed448_key_blob pk) -> small f -> small sig ->
  exists r, parse_reply (reply_payload (ed448_key_blob pk) f sig) = Ok r /\ hostkey_size r = 448
            /\ size_notes "ssh-ed448" false (hostkey_size r) (r_ca_type r) (ca_size r) = ([], []).
Proof.
  intros Hp Hne Hb Hf Hs. destruct (ed448_size pk f sig Hp Hne Hb Hf Hs) as (r & Hr & _ & Hsz & Hc & Hcs).
  exists r. split; [exact Hr|]. split; [exact Hsz|]. rewrite Hsz, Hc, Hcs. apply ed448_no_size_note. lia.
Qed.
Theorem ed25519_no_size_note : size_notes "ssh-ed25519" false 256 "" 0 = ([], []).
Proof. reflexivity. Qed.

(* ================= fingerprints ================= *)
Lemma dict_set_in {A} k (v : A) l : In (k, v) (dict_set k v l).
Proof.
  induction l as [|[k' v'] l IH]; cbn [dict_set]; [left; reflexivity|].
  destruct (String.eqb_spec k k') as [->|Hne]; [left; reflexivity|right; exact IH].
Qed.
Lemma dict_set_keys_in {A} k (v : A) l x : In x (keys (dict_set k v l)) <-> x = k \/ In x (keys l).
Proof.
  unfold keys. induction l as [|[k0 v0] l IH]; cbn [dict_set map In fst].
  - split; [intros [H|[]]; left; symmetry; exact H|intros [H|[]]; left; symmetry; exact H].
  - destruct (String.eqb_spec k k0) as [->|Hne]; cbn [map In fst].
    + split; [intros [H|H]; [right; left; exact H|right; right; exact H]|intros [H|[H|H]]; [left; symmetry; exact H|left; exact H|right; exact H]].
    + rewrite IH. split; [intros [H|[H|H]]; auto|intros [H|[H|H]]; auto].
Qed.
Lemma dict_set_nodup {A} k (v : A) l : NoDup (keys l) -> NoDup (keys (dict_set k v l)).
Proof.
  unfold keys. induction l as [|[k0 v0] l IH]; cbn [dict_set map fst]; intros H.
  - constructor; [intros []|constructor].
  - inversion H as [|? ? Hnin Hnd]; subst. destruct (String.eqb_spec k k0) as [->|Hne]; cbn [map fst].
    + constructor; assumption.
    + constructor; [|apply IH; exact Hnd]. intros Hin. apply (dict_set_keys_in k v l k0) in Hin.
      destruct Hin as [Heq|Hin]; [apply Hne; symmetry; exact Heq|apply Hnin; exact Hin].
Qed.
Lemma dict_set_old {A} k (v : A) l k' v' : In (k', v') (dict_set k v l) -> (k' = k /\ v' = v) \/ In (k', v') l.
Proof.
  induction l as [|[k0 v0] l IH]; cbn [dict_set].
  - intros [H|[]]. inversion H. left. split; reflexivity.
  - destruct (String.eqb_spec k k0) as [->|Hne].
    + intros [H|H]; [inversion H; left; split; reflexivity|right; right; exact H].
    + intros [H|H]; [right; left; exact H|]. destruct (IH H) as [?|?]; [left; assumption|right; right; assumption].
Qed.
Lemma dict_set_keeps_key {A} k (v : A) l k' : In k' (keys l) -> In k' (keys (dict_set k v l)).
Proof. intros H. apply dict_set_keys_in. right. exact H. Qed.
Lemma in_keys {A} (l : list (string * A)) k : In k (keys l) <-> exists v, In (k, v) l.
Proof.
  unfold keys. rewrite in_map_iff. split.
  - intros [[k' v] [Hk Hin]]. cbn in Hk. subst. exists v. exact Hin.
  - intros [v Hin]. exists (k, v). split; [reflexivity|exact Hin].
Qed.

Lemma fp_name_not_sha2 name : fp_name name <> "rsa-sha2-256" /\ fp_name name <> "rsa-sha2-512".
Proof.
  unfold fp_name. destruct (mem name rsa_family) eqn:E; [split; discriminate|].
  unfold rsa_family in E. cbn [mem] in E.
  destruct (String.eqb_spec name "ssh-rsa"); [discriminate|].
  destruct (String.eqb_spec name "rsa-sha2-256"); [discriminate|].
  destruct (String.eqb_spec name "rsa-sha2-512"); [discriminate|]. split; assumption.
Qed.

Definition fp_inv (pre : list (string * hkrec)) (acc : list (string * list Z)) : Prop :=
  NoDup (keys acc)
  /\ (forall t b, In (t, b) acc -> has_cert_tag t = false /\ exists name v, In (name, v) pre /\ fp_name name = t /\ h_blob v = b)
  /\ (forall name v, In (name, v) pre -> has_cert_tag (fp_name name) = false -> In (fp_name name) (keys acc)).

Lemma fp_fold l : forall acc pre, fp_inv pre acc -> fp_inv (pre ++ l) (fold_left fp_step l acc).
Proof.
  induction l as [|[name v] l IH]; intros acc pre H; cbn [fold_left].
  - rewrite app_nil_r. exact H.
  - replace (pre ++ (name, v) :: l) with ((pre ++ [(name, v)]) ++ l) by (rewrite <- app_assoc; reflexivity).
    apply IH. destruct H as (Hnd & Hsound & Hcompl). unfold fp_step. cbn [fst snd].
    destruct (has_cert_tag (fp_name name)) eqn:Ec.
    + split; [exact Hnd|]. split.
      * intros t b Hin. destruct (Hsound t b Hin) as (Ht & n0 & v0 & Hin0 & Hf & Hb).
        split; [exact Ht|]. exists n0, v0. split; [apply in_or_app; left; exact Hin0|split; assumption].
      * intros n0 v0 Hin Hc. apply in_app_or in Hin. destruct Hin as [Hin|[Heq|[]]]; [exact (Hcompl n0 v0 Hin Hc)|].
        inversion Heq; subst. congruence.
    + split; [apply dict_set_nodup; exact Hnd|]. split.
      * intros t b Hin. apply dict_set_old in Hin. destruct Hin as [[-> ->]|Hin].
        -- split; [exact Ec|]. exists name, v. split; [apply in_or_app; right; left; reflexivity|split; reflexivity].
        -- destruct (Hsound t b Hin) as (Ht & n0 & v0 & Hin0 & Hf & Hb).
           split; [exact Ht|]. exists n0, v0. split; [apply in_or_app; left; exact Hin0|split; assumption].
      * intros n0 v0 Hin Hc. apply in_app_or in Hin. destruct Hin as [Hin|[Heq|[]]].
        -- apply dict_set_keeps_key. exact (Hcompl n0 v0 Hin Hc).
        -- inversion Heq; subst. apply dict_set_keys_in. left. reflexivity.
Qed.

Lemma insert_kv_perm {A} (x : string * A) l : Permutation (insert_kv x l) (x :: l).
Proof.
  induction l as [|y l IH]; cbn [insert_kv]; [reflexivity|].
  destruct (String.leb (fst x) (fst y)); [reflexivity|].
  eapply perm_trans; [apply perm_skip; exact IH|apply perm_swap].
Qed.
Lemma sort_kv_perm {A} (l : list (string * A)) : Permutation (sort_kv l) l.
Proof.
  unfold sort_kv. induction l as [|x l IH]; cbn [fold_right]; [reflexivity|].
  eapply perm_trans; [apply insert_kv_perm|apply perm_skip; exact IH].
Qed.
Definition kv_le {A} (a b : string * A) : Prop := String.leb (fst a) (fst b) = true.
Lemma insert_kv_sorted {A} (x : string * A) l : Sorted kv_le l -> Sorted kv_le (insert_kv x l).
Proof.
  induction l as [|y l IH]; cbn [insert_kv]; intros Hs; [repeat constructor|].
  destruct (String.leb (fst x) (fst y)) eqn:E.
  - constructor; [exact Hs|constructor; exact E].
  - inversion Hs as [|? ? Hs' Hhd]; subst. constructor; [apply IH; exact Hs'|].
    assert (Hyx: kv_le y x).
    { unfold kv_le. destruct (String.leb_total (fst x) (fst y)) as [H|H]; [congruence|exact H]. }
    destruct l as [|z l]; cbn [insert_kv]; [constructor; exact Hyx|].
    destruct (String.leb (fst x) (fst z)); constructor; [exact Hyx|]. inversion Hhd; assumption.
Qed.
Lemma sort_kv_sorted {A} (l : list (string * A)) : Sorted kv_le (sort_kv l).
Proof. unfold sort_kv. induction l as [|x l IH]; cbn [fold_right]; [constructor|apply insert_kv_sorted; exact IH]. Qed.

Theorem fingerprints_select hks :
  let es := fingerprint_entries hks in
  NoDup (map fst es) /\ Sorted kv_le es
  /\ (forall t b, In (t, b) es ->
        has_cert_tag t = false /\ t <> "rsa-sha2-256" /\ t <> "rsa-sha2-512"
        /\ exists name v, In (name, v) hks /\ fp_name name = t /\ h_blob v = b)
  /\ (forall name v, In (name, v) hks -> has_cert_tag (fp_name name) = false -> exists b, In (fp_name name, b) es).
Proof.
  cbv zeta. unfold fingerprint_entries.
  assert (H0: fp_inv [] []).
  { split; [constructor|]. split; [intros ? ? []|intros ? ? []]. }
  pose proof (fp_fold hks [] [] H0) as (Hnd & Hsound & Hcompl). cbn [app] in *.
  set (raw := fold_left fp_step hks []) in *.
  pose proof (sort_kv_perm raw) as Hp.
  split; [|split; [apply sort_kv_sorted|split]].
  - apply (Permutation_NoDup (l := map fst raw)); [apply Permutation_map; symmetry; exact Hp|exact Hnd].
  - intros t b Hin. apply (Permutation_in _ Hp) in Hin. destruct (Hsound t b Hin) as (Ht & name & v & Hin' & Hf & Hb).
    split; [exact Ht|]. destruct (fp_name_not_sha2 name) as [N1 N2]. rewrite Hf in N1, N2.
    split; [exact N1|split; [exact N2|]]. exists name, v. auto.
  - intros name v Hin Hc. pose proof (Hcompl name v Hin Hc) as Hk. apply in_keys in Hk. destruct Hk as [b Hb].
    exists b. apply (Permutation_in _ (Permutation_sym Hp)). exact Hb.
Qed.

(* every printed hash is computed over the blob of an entry; nothing else is hashed *)
Theorem fin_json_hashes (sha256 md5 : list Z -> string) hks t alg h :
  In (t, alg, h) (fin_json sha256 md5 hks) ->
  exists b, In (t, b) (fingerprint_entries hks)
            /\ ((alg = "SHA256" /\ h = str_skip 7 (sha256 b)) \/ (alg = "MD5" /\ h = str_skip 4 (md5 b))).
Proof.
  unfold fin_json. rewrite in_flat_map. intros [[t' b] [Hin Hl]]. cbn [fst snd In] in Hl.
  destruct Hl as [H|[H|[]]]; inversion H; subst; exists b; (split; [exact Hin|]); [left|right]; split; reflexivity.
Qed.
Theorem fin_json_complete (sha256 md5 : list Z -> string) hks t b :
  In (t, b) (fingerprint_entries hks) ->
  In (t, "SHA256", str_skip 7 (sha256 b)) (fin_json sha256 md5 hks) /\ In (t, "MD5", str_skip 4 (md5 b)) (fin_json sha256 md5 hks).
Proof.
  intros Hin. unfold fin_json. rewrite !in_flat_map. split; exists (t, b); (split; [exact Hin|]); cbn [fst snd In]; auto.
Qed.
Theorem fin_lines_hashes (sha256 md5 : list Z -> string) verbose hks ln :
  In ln (fin_lines sha256 md5 verbose hks) ->
  exists t b, In (t, b) (fingerprint_entries hks)
    /\ (starts_with (t +++ ": " +++ sha256 b) ln = true \/ starts_with (t +++ ": " +++ md5 b) ln = true).
Proof.
  unfold fin_lines. rewrite in_flat_map. intros [[t b] [Hin Hl]]. cbn [fst snd] in Hl. exists t, b. split; [exact Hin|].
  assert (Hp: forall a c, starts_with a (a +++ c) = true).
  { intros a c. unfold starts_with. induction a as [|x a IH]; cbn; [destruct c; reflexivity|].
    destruct (ascii_dec x x); [exact IH|congruence]. }
  assert (Hr: forall a, starts_with a a = true).
  { intros a. unfold starts_with. induction a as [|x a IH]; cbn; [reflexivity|]. destruct (ascii_dec x x); [exact IH|congruence]. }
  assert (Hassoc: forall a b0 c d, (a +++ b0 +++ c +++ d) = ((a +++ b0 +++ c) +++ d)).
  { assert (Has: forall x y z, ((x +++ y) +++ z) = (x +++ y +++ z)).
    { intros x y z. induction x as [|ch x IHx]; cbn [String.append]; [reflexivity|rewrite IHx; reflexivity]. }
    intros. rewrite !Has. reflexivity. }
  destruct (fin_hidden t); destruct verbose; cbn [In] in Hl.
  - destruct Hl as [<-|[<-|[]]]; [left|right]; rewrite Hassoc; apply Hp.
  - destruct Hl.
  - destruct Hl as [<-|[<-|[]]]; [left; apply Hr|right; rewrite Hassoc; apply Hp].
  - destruct Hl as [<-|[]]. left. apply Hr.
Qed.

(* ================= the probe loop: what one step can change ================= *)
Lemma assoc_app {A} k (a b : list (string * A)) :
  assoc k (a ++ b) = match assoc k a with Some x => Some x | None => assoc k b end.
Proof. induction a as [|[k' v] a IH]; cbn [app assoc]; [reflexivity|]. destruct (String.eqb k k'); [reflexivity|exact IH]. Qed.
Lemma mem_keys_assoc {A} k (l : list (string * A)) : mem k (keys l) = match assoc k l with Some _ => true | None => false end.
Proof. unfold keys. induction l as [|[k' v] l IH]; cbn [map mem assoc fst]; [reflexivity|]. destruct (String.eqb k k'); [reflexivity|exact IH]. Qed.

Lemma set_host_key_assoc k v hks t :
  assoc t (set_host_key k v hks) = match assoc t hks with Some x => Some x | None => if String.eqb t k then Some v else None end.
Proof.
  unfold set_host_key. rewrite mem_keys_assoc. destruct (assoc k hks) as [x|] eqn:Ek.
  - destruct (assoc t hks) eqn:Et; [reflexivity|]. destruct (String.eqb_spec t k) as [->|]; [congruence|reflexivity].
  - rewrite assoc_app. destruct (assoc t hks); [reflexivity|]. cbn [assoc]. destruct (String.eqb t k); reflexivity.
Qed.
Lemma fold_set_host_key_assoc v ks : forall hks t,
  assoc t (fold_left (fun h k => set_host_key k v h) ks hks) =
  match assoc t hks with Some x => Some x | None => if mem t ks then Some v else None end.
Proof.
  induction ks as [|k ks IH]; intros hks t; cbn [fold_left mem].
  - destruct (assoc t hks); reflexivity.
  - rewrite IH, set_host_key_assoc. destruct (assoc t hks); [reflexivity|].
    destruct (String.eqb t k); [reflexivity|]. reflexivity.
Qed.
Lemma fold_add_notes_get fs ws ks : NoDup ks -> forall d t,
  db_get (fold_left (add_notes fs ws) ks d) "key" t =
  if mem t ks then option_map (extend_notes fs ws) (db_get d "key" t) else db_get d "key" t.
Proof.
  induction 1 as [|k ks Hnin Hnd IH]; intros d t; cbn [fold_left mem]; [reflexivity|].
  rewrite IH. unfold add_notes. rewrite !db_get_update. change ("key" =? "key")%string with true. cbn [andb].
  destruct (String.eqb_spec t k) as [->|Hne].
  - assert (Hm: mem k ks = false).
    { destruct (mem k ks) eqn:E; [|reflexivity]. apply mem_In in E. contradiction. }
    rewrite Hm. reflexivity.
  - reflexivity.
Qed.
Lemma fold_add_notes_other fs ws ks : forall d c t, c <> "key" ->
  db_get (fold_left (add_notes fs ws) ks d) c t = db_get d c t.
Proof.
  induction ks as [|k ks IH]; intros d c t Hc; cbn [fold_left]; [reflexivity|].
  rewrite IH by exact Hc. unfold add_notes. rewrite db_get_update.
  destruct (String.eqb_spec c "key"); [contradiction|reflexivity].
Qed.

Definition rec_of (r : reply) : hkrec :=
  {| h_blob := r_blob r; h_info := {| hk_size := hostkey_size r; hk_ca_type := r_ca_type r; hk_ca_size := ca_size r |} |}.
Definition notes_of (name : string) (cert : bool) (r : reply) : list string * list string :=
  size_notes name cert (hostkey_size r) (r_ca_type r) (ca_size r).
Definition targets_of (name : string) : list string := if mem name rsa_family then rsa_family else [name].
Lemma nodup_targets name : NoDup (targets_of name).
Proof.
  unfold targets_of. destruct (mem name rsa_family).
  - unfold rsa_family. repeat constructor; cbn [In]; intuition discriminate.
  - repeat constructor. intros [].
Qed.

(* the step either leaves the state alone or (usable reply for an unparsed, advertised type) records the key
   under the probed name (+ the whole RSA family) and extends the notes of the targets *)
Lemma hk_step_cases l probe st name cert vk :
  (hk_step l probe st (name, cert, vk) = st)
  \/ (exists r, probe name = Got r /\ mem name (st_parsed st) = false /\ mem name l = true
      /\ forall t,
           assoc t (st_hostkeys (hk_step l probe st (name, cert, vk))) =
             match assoc t (st_hostkeys st) with
             | Some x => Some x
             | None => if String.eqb t name || (negb cert && mem name rsa_family && mem t rsa_family) then Some (rec_of r) else None
             end
           /\ db_get (st_db (hk_step l probe st (name, cert, vk))) "key" t =
              (if mem t (targets_of name)
               then option_map (extend_notes (fst (notes_of name cert r)) (snd (notes_of name cert r))) (db_get (st_db st) "key" t)
               else db_get (st_db st) "key" t)
           /\ (In t (st_parsed (hk_step l probe st (name, cert, vk))) <-> In t (st_parsed st) \/ In t (targets_of name))).
Proof.
  unfold hk_step. destruct (mem name (st_parsed st)) eqn:Ep; [left; reflexivity|].
  destruct (mem name l) eqn:El; cbn [negb]; [|left; reflexivity].
  destruct (probe name) as [| |r] eqn:Epr; [left; reflexivity|left; reflexivity|].
  right. exists r. split; [reflexivity|]. split; [reflexivity|]. split; [reflexivity|].
  intros t. cbn [st_hostkeys st_db st_parsed]. fold (rec_of r). fold (notes_of name cert r). fold (targets_of name).
  split; [|split].
  - destruct (negb cert && mem name rsa_family) eqn:Ef.
    + rewrite fold_set_host_key_assoc, set_host_key_assoc. destruct (assoc t (st_hostkeys st)); [reflexivity|].
      destruct (String.eqb t name); cbn [orb andb]; [reflexivity|reflexivity].
    + rewrite set_host_key_assoc. destruct (assoc t (st_hostkeys st)); [reflexivity|].
      cbn [andb]. rewrite Bool.orb_false_r. reflexivity.
  - apply fold_add_notes_get. apply nodup_targets.
  - rewrite in_app_iff. reflexivity.
Qed.

(* ---- no reply / unusable reply: nothing is recorded ---- *)
Definition unusable (o : outcome) : Prop := o = NoReply \/ o = Failed.
Theorem hk_step_unusable l probe st name cert vk : unusable (probe name) -> hk_step l probe st (name, cert, vk) = st.
Proof.
  intros H. unfold hk_step. destruct (mem name (st_parsed st)); [reflexivity|]. destruct (negb (mem name l)); [reflexivity|].
  destruct H as [-> | ->]; reflexivity.
Qed.
Theorem no_reply_no_key tbl l probe d : (forall n, unusable (probe n)) -> perform_test_on tbl l probe d = hk_init d.
Proof.
  intros H. unfold perform_test_on. generalize (hk_init d). induction tbl as [|[[name cert] vk] tbl IH]; intros st; cbn [fold_left]; [reflexivity|].
  rewrite hk_step_unusable by apply H. apply IH.
Qed.
(* per type: if the probe of t (and, for an RSA-family name, of every family member) yields nothing usable, then
   no key, no size, no CA is recorded for t and its database entry is the one the scan started with *)
Definition feeds (name t : string) : Prop := name = t \/ (mem name rsa_family = true /\ mem t rsa_family = true).
Theorem no_reply_no_key_for_type tbl l probe d t :
  (forall name, feeds name t -> unusable (probe name)) ->
  let st := perform_test_on tbl l probe d in
  assoc t (st_hostkeys st) = None /\ db_get (st_db st) "key" t = db_get d "key" t.
Proof.
  intros H. cbv zeta. unfold perform_test_on.
  assert (H0: assoc t (st_hostkeys (hk_init d)) = None /\ db_get (st_db (hk_init d)) "key" t = db_get d "key" t) by (split; reflexivity).
  revert H0. generalize (hk_init d). induction tbl as [|[[name cert] vk] tbl IH]; intros st Hst; cbn [fold_left]; [exact Hst|].
  apply IH. destruct (hk_step_cases l probe st name cert vk) as [-> | (r & Hpr & _ & _ & Heff)]; [exact Hst|].
  destruct (Heff t) as (Hk & Hd & _). destruct Hst as [Hs1 Hs2]. rewrite Hk, Hd, Hs1, Hs2.
  assert (Hnf: ~ feeds name t) by (intros Hf; destruct (H name Hf) as [E|E]; rewrite E in Hpr; discriminate).
  unfold feeds in Hnf.
  assert (E1: String.eqb t name = false) by (destruct (String.eqb_spec t name); [subst; exfalso; apply Hnf; left; reflexivity|reflexivity]).
  assert (E2: mem name rsa_family && mem t rsa_family = false).
  { destruct (mem name rsa_family) eqn:A; destruct (mem t rsa_family) eqn:B; try reflexivity. exfalso. apply Hnf. right. split; reflexivity. }
  split.
  - rewrite E1. cbn [orb]. rewrite <- Bool.andb_assoc, E2, Bool.andb_false_r. reflexivity.
  - unfold targets_of. destruct (mem name rsa_family) eqn:A.
    + cbn [andb] in E2. rewrite E2. reflexivity.
    + cbn [mem]. rewrite E1. reflexivity.
Qed.

(* ---- RSA-family fan-out ---- *)
Definition tbl_ok (tbl : list (string * bool * bool)) : Prop :=
  forall name cert vk, In (name, cert, vk) tbl -> mem name rsa_family = true -> cert = false.
Definition fam_fresh (d0 : db) (st : hkstate) : Prop :=
  forall t, mem t rsa_family = true ->
    ~ In t (st_parsed st) /\ assoc t (st_hostkeys st) = None /\ db_get (st_db st) "key" t = db_get d0 "key" t.
Definition fam_done (r : reply) (d0 : db) (st : hkstate) : Prop :=
  forall t, mem t rsa_family = true ->
    In t (st_parsed st) /\ assoc t (st_hostkeys st) = Some (rec_of r)
    /\ db_get (st_db st) "key" t =
       option_map (extend_notes (fst (notes_of "ssh-rsa" false r)) (snd (notes_of "ssh-rsa" false r))) (db_get d0 "key" t).

Lemma notes_of_rsa_name name r : mem name rsa_family = true -> notes_of name false r = notes_of "ssh-rsa" false r.
Proof. intros H. apply rsa_family_cases in H. destruct H as [ -> | [ -> | -> ] ]; reflexivity. Qed.

Lemma step_done l probe r d0 st name cert vk : fam_done r d0 st -> fam_done r d0 (hk_step l probe st (name, cert, vk)).
Proof.
  intros Hd. destruct (hk_step_cases l probe st name cert vk) as [-> | (r' & Hpr & Hnp & _ & Heff)]; [exact Hd|].
  intros t Ht. destruct (Hd t Ht) as (Hp & Hk & Hdb). destruct (Heff t) as (Ek & Edb & Ep).
  assert (Hname: mem name rsa_family = false).
  { destruct (mem name rsa_family) eqn:E; [|reflexivity]. destruct (Hd name E) as (Hpn & _). apply mem_In in Hpn. congruence. }
  split; [apply Ep; left; exact Hp|]. split.
  - rewrite Ek, Hk. reflexivity.
  - rewrite Edb. unfold targets_of. rewrite Hname. cbn [mem].
    destruct (String.eqb_spec t name) as [->|]; [congruence|exact Hdb].
Qed.

Lemma step_fresh l probe r d0 st name cert vk :
  (forall t, mem t rsa_family = true -> probe t = Got r) -> (mem name rsa_family = true -> cert = false) ->
  fam_fresh d0 st ->
  if mem name rsa_family && mem name l then fam_done r d0 (hk_step l probe st (name, cert, vk))
  else fam_fresh d0 (hk_step l probe st (name, cert, vk)).
Proof.
  intros Hprobe Hcert Hf.
  destruct (hk_step_cases l probe st name cert vk) as [E | (r' & Hpr & Hnp & Hl & Heff)].
  - rewrite E. destruct (mem name rsa_family) eqn:En; cbn [andb]; [|exact Hf].
    destruct (mem name l) eqn:El; [|exact Hf]. exfalso.
    (* an advertised, unparsed family name with a usable reply cannot leave the state unchanged *)
    destruct (Hf name En) as (Hnp & _ & _).
    unfold hk_step in E. destruct (mem name (st_parsed st)) eqn:Ep; [apply mem_In in Ep; contradiction|].
    rewrite El in E. cbn [negb] in E. rewrite (Hprobe name En) in E.
    apply (f_equal st_parsed) in E. cbn [st_parsed] in E. rewrite En in E.
    assert (Hlen: List.length (st_parsed st ++ rsa_family) = List.length (st_parsed st)) by (rewrite E; reflexivity).
    rewrite app_length in Hlen. cbn in Hlen. lia.
  - rewrite Hl, Bool.andb_true_r. destruct (mem name rsa_family) eqn:En.
    + rewrite (Hprobe name En) in Hpr. inversion Hpr; subst r'. rewrite (Hcert eq_refl) in *.
      intros t Ht. destruct (Hf t Ht) as (Hp & Hk & Hdb). destruct (Heff t) as (Ek & Edb & Ep).
      split; [apply Ep; right; unfold targets_of; rewrite En; apply mem_In; exact Ht|]. split.
      * rewrite Ek, Hk, Ht. cbn [negb andb]. rewrite Bool.orb_true_r. reflexivity.
      * rewrite Edb. unfold targets_of. rewrite En, Ht, Hdb. rewrite (notes_of_rsa_name name r En). reflexivity.
    + intros t Ht. destruct (Hf t Ht) as (Hp & Hk & Hdb). destruct (Heff t) as (Ek & Edb & Ep).
      assert (Hne: String.eqb t name = false) by (destruct (String.eqb_spec t name); [subst; congruence|reflexivity]).
      split; [|split].
      * intros Hin. apply Ep in Hin. destruct Hin as [Hin|Hin]; [exact (Hp Hin)|].
        unfold targets_of in Hin. rewrite En in Hin. destruct Hin as [<-|[]]. rewrite String.eqb_refl in Hne. discriminate.
      * rewrite Ek, Hk, Hne. cbn [andb orb]. rewrite Bool.andb_false_r. reflexivity.
      * rewrite Edb. unfold targets_of. rewrite En. cbn [mem]. rewrite Hne. exact Hdb.
Qed.

Lemma fold_done l probe r d0 tbl : forall st, fam_done r d0 st -> fam_done r d0 (fold_left (hk_step l probe) tbl st).
Proof. induction tbl as [|[[name cert] vk] tbl IH]; intros st H; cbn [fold_left]; [exact H|]. apply IH. apply step_done. exact H. Qed.

Lemma fold_fresh l probe r d0 tbl :
  (forall t, mem t rsa_family = true -> probe t = Got r) -> tbl_ok tbl ->
  forall st, fam_fresh d0 st ->
  if existsb (fun e => mem (fst (fst e)) rsa_family && mem (fst (fst e)) l) tbl
  then fam_done r d0 (fold_left (hk_step l probe) tbl st) else fam_fresh d0 (fold_left (hk_step l probe) tbl st).
Proof.
  intros Hprobe. induction tbl as [|[[name cert] vk] tbl IH]; intros Hok st Hf; cbn [fold_left existsb fst]; [exact Hf|].
  assert (Hok': tbl_ok tbl) by (intros n c v Hin; apply (Hok n c v); right; exact Hin).
  pose proof (step_fresh l probe r d0 st name cert vk Hprobe (Hok name cert vk (or_introl eq_refl)) Hf) as Hs.
  destruct (mem name rsa_family && mem name l); cbn [orb].
  - apply fold_done. exact Hs.
  - apply IH; assumption.
Qed.

Lemma host_key_types_ok : tbl_ok host_key_types.
Proof.
  assert (Hb: forallb (fun e => negb (mem (fst (fst e)) rsa_family) || negb (snd (fst e))) host_key_types = true) by (vm_compute; reflexivity).
  intros name cert vk Hin Hm. rewrite forallb_forall in Hb. specialize (Hb _ Hin). cbn [fst snd] in Hb. rewrite Hm in Hb.
  cbn [negb orb] in Hb. destruct cert; [discriminate|reflexivity].
Qed.
Lemma family_in_table : forallb (fun t => existsb (fun e => String.eqb (fst (fst e)) t) host_key_types) rsa_family = true.
Proof. vm_compute. reflexivity. Qed.

(* any list that advertises at least one RSA-family name: every family name ends up with the presented key
   (blob, size) and with the same size notes, whatever subset or order was advertised *)
Theorem family_fanout l probe r d :
  (forall t, mem t rsa_family = true -> probe t = Got r) ->
  (exists t, mem t rsa_family = true /\ mem t l = true) ->
  let st := perform_test l probe d in
  forall t, mem t rsa_family = true ->
    assoc t (st_hostkeys st) = Some (rec_of r)
    /\ db_get (st_db st) "key" t =
       option_map (extend_notes (fst (notes_of "ssh-rsa" false r)) (snd (notes_of "ssh-rsa" false r))) (db_get d "key" t).
Proof.
  intros Hprobe (t0 & Ht0 & Hl0). cbv zeta. unfold perform_test, perform_test_on.
  assert (Hfresh: fam_fresh d (hk_init d)) by (intros t _; repeat split; intros []).
  pose proof (fold_fresh l probe r d host_key_types Hprobe host_key_types_ok (hk_init d) Hfresh) as H.
  assert (He: existsb (fun e => mem (fst (fst e)) rsa_family && mem (fst (fst e)) l) host_key_types = true).
  { pose proof family_in_table as Hft. rewrite forallb_forall in Hft. apply mem_In in Ht0. specialize (Hft t0 Ht0).
    apply existsb_exists in Hft. destruct Hft as (e & Hin & Heq). apply String.eqb_eq in Heq.
    apply existsb_exists. exists e. split; [exact Hin|]. rewrite Heq. apply mem_In in Ht0. rewrite Ht0, Hl0. reflexivity. }
  rewrite He in H. intros t Ht. destruct (H t Ht) as (_ & Hk & Hdb). split; assumption.
Qed.

Corollary family_fanout_lists l1 l2 probe r d :
  (forall t, mem t rsa_family = true -> probe t = Got r) ->
  (exists t, mem t rsa_family = true /\ mem t l1 = true) -> (exists t, mem t rsa_family = true /\ mem t l2 = true) ->
  forall t, mem t rsa_family = true ->
    assoc t (st_hostkeys (perform_test l1 probe d)) = assoc t (st_hostkeys (perform_test l2 probe d))
    /\ db_get (st_db (perform_test l1 probe d)) "key" t = db_get (st_db (perform_test l2 probe d)) "key" t.
Proof.
  intros Hp H1 H2 t Ht.
  destruct (family_fanout l1 probe r d Hp H1 t Ht) as [A1 B1]. destruct (family_fanout l2 probe r d Hp H2 t Ht) as [A2 B2].
  rewrite A1, A2, B1, B2. split; reflexivity.
Qed.

(* every type of the probe table has a "key" entry in the rating table, so the note edits always find their entry *)
Theorem host_key_types_in_db : forallb (fun e => match db_get ssh2_db "key" (fst (fst e)) with Some _ => true | None => false end) host_key_types = true.
Proof. vm_compute. reflexivity. Qed.

(* the notes the edit adds are exactly the size notes, after the entry's own notes *)
Lemma fold_append_comp i l : forall e j, comp (fold_left (fun e s => append_at i s e) l e) j = if Nat.eqb i j then comp e j ++ l else comp e j.
Proof.
  induction l as [|s l IH]; intros e j; cbn [fold_left].
  - destruct (Nat.eqb i j); [rewrite app_nil_r|]; reflexivity.
  - rewrite IH. destruct (Nat.eqb_spec i j) as [->|Hne].
    + rewrite comp_append_at_same, <- app_assoc. reflexivity.
    + apply comp_append_at_other. exact Hne.
Qed.
Lemma comp_pad_to n e j : comp (pad_to n e) j = comp e j.
Proof.
  unfold comp. f_equal. revert e j. induction n as [|n IH]; intros e j; cbn [pad_to]; [reflexivity|].
  destruct e as [|x e]; destruct j as [|j]; cbn [nth]; try reflexivity.
  - rewrite IH. destruct j; reflexivity.
  - apply IH.
Qed.
Theorem extend_notes_spec fs ws e :
  fails (extend_notes fs ws e) = fails e ++ fs /\ warns (extend_notes fs ws e) = warns e ++ ws
  /\ infos (extend_notes fs ws e) = infos e /\ versions (extend_notes fs ws e) = versions e.
Proof.
  unfold fails, warns, infos, extend_notes. repeat (rewrite fold_append_comp; cbn [Nat.eqb]).
  rewrite !comp_pad_to. repeat split.
  unfold versions. 
  assert (Hn: forall i l e0, (i <> 0)%nat -> nth 0 (fold_left (fun e s => append_at i s e) l e0) [] = nth 0 e0 []).
  { intros i l. induction l as [|s l IHl]; intros e0 Hi; cbn [fold_left]; [reflexivity|]. rewrite IHl by exact Hi. apply nth_append_at_other. exact Hi. }
  rewrite !Hn by discriminate. destruct e as [|x e]; reflexivity.
Qed.

(* ================= end to end: an RSA key of k bits (k a multiple of 16) under any advertised family names ================= *)
Theorem rsa_end_to_end l probe d e n k f sig :
  rsa_reply_ok e n f sig -> bitlen n = k -> k mod 16 = 0 ->
  (forall t, mem t rsa_family = true -> probe t = probe_outcome (Some (reply_payload (rsa_key_blob_of e n) f sig))) ->
  (exists t, mem t rsa_family = true /\ mem t l = true) ->
  let st := perform_test l probe d in
  forall t e0, mem t rsa_family = true -> db_get d "key" t = Some e0 ->
  exists v e1,
    assoc t (st_hostkeys st) = Some v /\ h_blob v = rsa_key_blob_of e n
    /\ hk_size (h_info v) = k /\ hk_ca_type (h_info v) = "" /\ hk_ca_size (h_info v) = 0
    /\ shown_name "key" t (infos_of (st_hostkeys st)) [] = t +++ " (" +++ z_to_string k +++ "-bit)"
    /\ db_get (st_db st) "key" t = Some e1
    /\ fails e1 = fails e0 ++ (if k <? 2048 then [note_small "" k] else [])
    /\ warns e1 = warns e0 ++ (if (2048 <=? k) && (k <? 3072) then [hk_two2k_warning] else [])
    /\ infos e1 = infos e0 /\ versions e1 = versions e0.
Proof.
  intros Hok Hk Hm Hprobe Hl. cbv zeta. intros t e0 Ht He0.
  destruct (rsa_size e n k f sig Hok Hk Hm) as (r & Hr & Hb & Hs & Hc & Hcs).
  assert (Hp: forall t', mem t' rsa_family = true -> probe t' = Got r).
  { intros t' Ht'. rewrite (Hprobe t' Ht'). unfold probe_outcome. rewrite Hr. reflexivity. }
  destruct (family_fanout l probe r d Hp Hl t Ht) as [Hkx Hdb].
  assert (Hkpos: 0 < k) by (subst k; destruct Hok as (_ & Hn & _); apply bitlen_bound; lia).
  exists (rec_of r), (extend_notes (fst (notes_of "ssh-rsa" false r)) (snd (notes_of "ssh-rsa" false r)) e0).
  split; [exact Hkx|]. split; [exact Hb|]. split; [exact Hs|]. split; [exact Hc|]. split; [exact Hcs|].
  split.
  - unfold shown_name. change ("key" =? "kex")%string with false. change ("key" =? "key")%string with true. cbv iota.
    assert (Ha: assoc t (infos_of (st_hostkeys (perform_test l probe d))) = Some (h_info (rec_of r))).
    { unfold infos_of. revert Hkx. generalize (st_hostkeys (perform_test l probe d)). intros hks.
      induction hks as [|[k0 v0] hks IH]; cbn [assoc map fst snd]; [discriminate|].
      destruct (String.eqb t k0); [intros H; inversion H; reflexivity|exact IH]. }
    rewrite Ha. cbn [rec_of h_info hk_ca_type hk_size hk_ca_size]. rewrite Hc. change (mem "" rsa_family) with false. cbv iota.
    change (negb ("" =? "")%string) with false. cbn [andb]. rewrite Ht, Hs. reflexivity.
  - split; [rewrite Hdb, He0; reflexivity|].
    unfold notes_of. rewrite Hs, Hc, Hcs. rewrite (rsa_thresholds_host "ssh-rsa" k eq_refl Hkpos). cbn [fst snd].
    destruct (extend_notes_spec (if k <? 2048 then [note_small "" k] else []) (if (2048 <=? k) && (k <? 3072) then [hk_two2k_warning] else []) e0) as (A & B & C & D).
    repeat split; assumption.
Qed.

(* display of a certificate key: "<name> (<size>-bit cert/<ca size>-bit <ca type> CA)", RSA CAs shown as "RSA" *)
Theorem shown_cert name hks v :
  assoc name hks = Some v -> hk_ca_type (h_info v) <> "" -> 0 < hk_ca_size (h_info v) ->
  shown_name "key" name (infos_of hks) [] =
  name +++ " (" +++ z_to_string (hk_size (h_info v)) +++ "-bit cert/" +++ z_to_string (hk_ca_size (h_info v)) +++ "-bit "
       +++ (if mem (hk_ca_type (h_info v)) rsa_family then "RSA" else hk_ca_type (h_info v)) +++ " CA)".
Proof.
  intros Ha Hct Hcs. unfold shown_name. change ("key" =? "kex")%string with false. change ("key" =? "key")%string with true. cbv iota.
  assert (Hi: assoc name (infos_of hks) = Some (h_info v)).
  { unfold infos_of. revert Ha. induction hks as [|[k0 v0] hks IH]; cbn [assoc map fst snd]; [discriminate|].
    destruct (String.eqb name k0); [intros H; inversion H; reflexivity|exact IH]. }
  rewrite Hi. assert (E: (0 <? hk_ca_size (h_info v)) = true) by lia. rewrite E.
  destruct (mem (hk_ca_type (h_info v)) rsa_family) eqn:Em.
  - change (negb ("RSA" =? "")%string) with true. cbn [andb]. reflexivity.
  - destruct (String.eqb_spec (hk_ca_type (h_info v)) ""); [contradiction|]. cbn [negb andb]. reflexivity.
Qed.

(* JSON: the key size is present for the RSA family and for all three RSA certificate names (fix 13b23e2) *)
Theorem json_keysize_present name hks v :
  mem name rsa_family = true \/ rsa_cert_type name -> assoc name hks = Some v ->
  fst (json_key_fields name hks) = Some (hk_size (h_info v)).
Proof.
  intros Hn Ha. unfold json_key_fields. rewrite Ha. cbn [fst].
  destruct Hn as [Hm | [ -> | [ -> | -> ] ] ]; [rewrite Hm; reflexivity|reflexivity|reflexivity|reflexivity].
Qed.
Theorem json_keysize_absent_fixed_size name hks : mem name ["ssh-ed25519"; "ssh-ed448"; ed25519_cert_name] = true ->
  fst (json_key_fields name hks) = None.
Proof.
  intros Hn. unfold json_key_fields. destruct (assoc name hks); [|reflexivity]. cbn [fst mem] in *.
  destruct (String.eqb_spec name "ssh-ed25519") as [->|]; [reflexivity|].
  destruct (String.eqb_spec name "ssh-ed448") as [->|]; [reflexivity|].
  destruct (String.eqb_spec name ed25519_cert_name) as [->|]; [reflexivity|discriminate].
Qed.
