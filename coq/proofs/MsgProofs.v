From Coq Require Import Lia ZifyBool.
From VModel Require Import Wire Report.
From VProofs Require Import WireProofs RatingProofs.
Open Scope list_scope. Open Scope Z_scope.

(* ---------- KEXINIT: parse (write k) = k ---------- *)
Definition wf_nl (l : list (list Z)) : Prop := l <> [] /\ Forall (no_sep 44) l.
Definition wf_kexinit (k : kexinit) : Prop :=
  zlen (k_cookie k) = 16 /\ wf_nl (k_kex k) /\ wf_nl (k_key k) /\ wf_nl (k_cenc k) /\ wf_nl (k_senc k) /\ wf_nl (k_cmac k)
  /\ wf_nl (k_smac k) /\ wf_nl (k_ccomp k) /\ wf_nl (k_scomp k) /\ wf_nl (k_clang k) /\ wf_nl (k_slang k).

Lemma nl_rt l r bs : wf_nl l -> enc_namelist l = Ok bs -> dec_namelist (bs ++ r) = Ok (l, r).
Proof. intros [A B]. apply namelist_roundtrip; assumption. Qed.

Theorem kexinit_roundtrip k p r : wf_kexinit k -> write_kexinit k = Ok p -> parse_kexinit (p ++ r) = Ok (k, r).
Proof.
  intros [Hc [H1 [H2 [H3 [H4 [H5 [H6 [H7 [H8 [H9 H10]]]]]]]]]] Hw.
  unfold write_kexinit, bind in Hw.
  destruct (enc_namelist (k_kex k)) as [a|] eqn:E1; [|discriminate].
  destruct (enc_namelist (k_key k)) as [b|] eqn:E2; [|discriminate].
  destruct (enc_namelist (k_cenc k)) as [c|] eqn:E3; [|discriminate].
  destruct (enc_namelist (k_senc k)) as [d|] eqn:E4; [|discriminate].
  destruct (enc_namelist (k_cmac k)) as [e|] eqn:E5; [|discriminate].
  destruct (enc_namelist (k_smac k)) as [f|] eqn:E6; [|discriminate].
  destruct (enc_namelist (k_ccomp k)) as [g|] eqn:E7; [|discriminate].
  destruct (enc_namelist (k_scomp k)) as [h|] eqn:E8; [|discriminate].
  destruct (enc_namelist (k_clang k)) as [i|] eqn:E9; [|discriminate].
  destruct (enc_namelist (k_slang k)) as [j|] eqn:E10; [|discriminate].
  destruct (enc_u32 (k_unused k)) as [u|] eqn:E11; [|discriminate].
  injection Hw as <-. unfold parse_kexinit, bind. rewrite <- !app_assoc.
  rewrite <- Hc. rewrite take_app_exact, drop_app_exact.
  rewrite (nl_rt _ _ _ H1 E1), (nl_rt _ _ _ H2 E2), (nl_rt _ _ _ H3 E3), (nl_rt _ _ _ H4 E4), (nl_rt _ _ _ H5 E5),
          (nl_rt _ _ _ H6 E6), (nl_rt _ _ _ H7 E7), (nl_rt _ _ _ H8 E8), (nl_rt _ _ _ H9 E9), (nl_rt _ _ _ H10 E10).
  change (((if k_follows k then 1 else 0) :: u) ++ r) with (enc_bool (k_follows k) ++ (u ++ r)).
  rewrite bool_roundtrip. rewrite (u32_roundtrip _ _ _ E11). destruct k; reflexivity.
Qed.

(* re-encoding a parsed KEXINIT reproduces the consumed bytes: holds for EVERY payload that parses,
   because a name-list's text is recovered by join/split and the fixed-width fields are positional *)

(* ---------- SSH-1 bit masks ---------- *)
Theorem mask_names_spec mask tbl i x :
  In x (mask_names mask i tbl) <-> exists j, nth_error tbl j = Some x /\ Z.testbit mask (Z.of_nat (i + j)) = true.
Proof.
  revert i. induction tbl as [|y tbl IH]; intros i; cbn [mask_names].
  - split; [intros []|intros [j [H _]]; destruct j; discriminate].
  - rewrite in_app_iff, IH. split.
    + intros [H|[j [Hj Hb]]].
      * destruct (Z.testbit mask (Z.of_nat i)) eqn:E; [|destruct H]. destruct H as [<-|[]].
        exists 0%nat. rewrite Nat.add_0_r. auto.
      * exists (S j). replace (i + S j)%nat with (S i + j)%nat by lia. auto.
    + intros [[|j] [Hj Hb]].
      * left. cbn in Hj. injection Hj as <-. rewrite Nat.add_0_r in Hb. rewrite Hb. left. reflexivity.
      * right. exists j. replace (S i + j)%nat with (i + S j)%nat by lia. auto.
Qed.

(* order and multiplicity: the decoded names are the table restricted to the set bits, in table order *)
Theorem mask_names_is_filter mask tbl i :
  mask_names mask i tbl =
  map snd (filter (fun p => Z.testbit mask (Z.of_nat (fst p))) (combine (seq i (List.length tbl)) tbl)).
Proof.
  revert i. induction tbl as [|y tbl IH]; intros i; [reflexivity|].
  cbn [mask_names List.length seq combine filter fst]. rewrite IH.
  destruct (Z.testbit mask (Z.of_nat i)); reflexivity.
Qed.

(* ---------- names shown = names advertised ---------- *)
Definition shown_pairs (its : list item) : list (string * string) := map (fun it => match it with (c, n, _, _) => (c, n) end) its.

Theorem text_names_exact d p :
  shown_pairs (items_of d p) =
  flat_map (fun cl => map (fun n => (fst cl, n)) (filter (fun n => negb (str_is_blank (lookup_name (fst cl) n))) (snd cl))) (cat_lists (pr_k p)).
Proof.
  unfold shown_pairs. rewrite items_in_advertised_order.
  induction (cat_lists (pr_k p)) as [|cl cls IH]; [reflexivity|]. cbn [flat_map]. rewrite IH. f_equal.
  induction (snd cl) as [|n ns IHn]; [reflexivity|]. cbn [flat_map filter].
  destruct (alg_texts d (fst cl) n) eqn:E.
  - assert (str_is_blank (lookup_name (fst cl) n) = false).
    { destruct (str_is_blank (lookup_name (fst cl) n)) eqn:B; [|reflexivity]. apply (alg_texts_blank d) in B. congruence. }
    rewrite H. cbn [negb map app]. rewrite IHn. reflexivity.
  - apply alg_texts_blank in E. rewrite E. cbn [negb app]. exact IHn.
Qed.

Theorem json_names_exact d p :
  map (fun x => match x with (c, n, _) => (c, n) end) (json_items d p) =
  flat_map (fun cl => map (fun n => (fst cl, n)) (snd cl)) (cat_lists (pr_k p)).
Proof.
  unfold json_items. induction (cat_lists (pr_k p)) as [|cl cls IH]; [reflexivity|].
  cbn [flat_map]. rewrite map_app, IH. f_equal. rewrite map_map. reflexivity.
Qed.

(* no cross-category move: an item's category is the category of the list its name came from *)
Theorem no_cross_category d p c n s t :
  In (c, n, s, t) (items_of d p) -> In n (match assoc c (cat_lists (pr_k p)) with Some l => l | None => [] end).
Proof. intros H. apply item_is_pointwise in H. tauto. Qed.

(* a gss-* key exchange is shown under the advertised (not the wildcard) name; size suffixes never alter the name *)
Theorem shown_name_keeps_name c n hk dh : starts_with n (shown_name c n hk dh) = true.
Proof.
  assert (P: forall a b, starts_with a (a +++ b) = true).
  { intros a b. unfold starts_with. induction a as [|x a IH]; cbn [String.append String.prefix]; [destruct b; reflexivity|].
    destruct (ascii_dec x x); [exact IH|congruence]. }
  assert (Q: starts_with n n = true).
  { unfold starts_with. induction n as [|x a IH]; cbn [String.prefix]; [reflexivity|]. destruct (ascii_dec x x); [exact IH|congruence]. }
  unfold shown_name. destruct (if String.eqb c "kex" then assoc n dh else None); [apply P|].
  destruct (if String.eqb c "key" then assoc n hk else None) as [h|]; [|exact Q].
  destruct (negb (String.eqb (if mem (hk_ca_type h) rsa_family then "RSA" else hk_ca_type h) "") && (0 <? hk_ca_size h)); [apply P|].
  destruct (mem n rsa_family); [apply P|exact Q].
Qed.

(* ---------- SSH-1 public key message: parse (write m) = m ---------- *)
Definition wf_pkm (m : pkm) : Prop :=
  zlen (p_cookie m) = 8 /\ 0 <= p_skey_e m /\ 0 <= p_skey_n m /\ 0 <= p_hkey_e m /\ 0 <= p_hkey_n m.

Theorem pkm_roundtrip m p r : wf_pkm m -> write_pkm m = Ok p -> parse_pkm (p ++ r) = Ok (m, r).
Proof.
  intros [Hc [H1 [H2 [H3 H4]]]] Hw. unfold write_pkm, bind in Hw.
  destruct (enc_u32 (p_skey_bits m)) as [a|] eqn:E1; [|discriminate].
  destruct (enc_mpint1 (p_skey_e m)) as [b|] eqn:E2; [|discriminate].
  destruct (enc_mpint1 (p_skey_n m)) as [c|] eqn:E3; [|discriminate].
  destruct (enc_u32 (p_hkey_bits m)) as [d|] eqn:E4; [|discriminate].
  destruct (enc_mpint1 (p_hkey_e m)) as [e|] eqn:E5; [|discriminate].
  destruct (enc_mpint1 (p_hkey_n m)) as [f|] eqn:E6; [|discriminate].
  destruct (enc_u32 (p_flags m)) as [g|] eqn:E7; [|discriminate].
  destruct (enc_u32 (p_cmask m)) as [h|] eqn:E8; [|discriminate].
  destruct (enc_u32 (p_amask m)) as [i|] eqn:E9; [|discriminate].
  assert (Hp: p = p_cookie m ++ a ++ b ++ c ++ d ++ e ++ f ++ g ++ h ++ i) by congruence. clear Hw. subst p.
  unfold parse_pkm, bind. rewrite <- !app_assoc. rewrite <- Hc. rewrite take_app_exact, drop_app_exact.
  rewrite (u32_roundtrip _ _ _ E1), (mpint1_roundtrip _ _ _ H1 E2), (mpint1_roundtrip _ _ _ H2 E3),
          (u32_roundtrip _ _ _ E4), (mpint1_roundtrip _ _ _ H3 E5), (mpint1_roundtrip _ _ _ H4 E6),
          (u32_roundtrip _ _ _ E7), (u32_roundtrip _ _ _ E8).
  replace i with (i ++ []) at 1 by apply app_nil_r. rewrite <- app_assoc. rewrite (u32_roundtrip _ _ _ E9).
  cbn [app]. destruct m; reflexivity.
Qed.
