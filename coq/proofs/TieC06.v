(* C06: every literal / integer kernel that the hand-written model repeats from the Python source is proved equal to the copy the
   translator extracts from the current source on every run (gen/Tables.v, definitions whose names start with src_).  When the source changes there, the generated
   definition changes (or is left out when the shape is no longer recognised) and this file stops compiling: the model cannot go stale silently,
   and only this property's check is affected. *)
From Coq Require Import ZArith List String Bool Lia ZifyBool.
From VGen Require Import Tables.
From VModel Require Import PolicyM.
Open Scope string_scope. Open Scope list_scope.

Lemma tie_policy_markers : [kex_strict_c; kex_strict_s] = src_policy_markers.
Proof. reflexivity. Qed.

(* T1c: every decision of Policy.evaluate() as it reads now - the three size comparisons, the strict-KEX marker condition, the five exact comparisons, the shape of
   the four subset loops, the pruning of optional host keys, the "a CA is specified" condition - translated from the current source and equal to the expressions the
   model's chk_* functions use; and the error labels of the source, in source order, are the labels of the model's blocks in the order evaluate_from applies them. *)
Lemma tie_size_bad : forall larger a e,
  size_bad larger a e = src_policy_size_bad_0 larger a e /\ size_bad larger a e = src_policy_size_bad_1 larger a e /\ size_bad larger a e = src_policy_size_bad_2 larger a e.
Proof. intros. repeat split; reflexivity. Qed.
Lemma tie_marker_missing : forall k peer,
  ((mem kex_strict_s k && negb (mem kex_strict_s peer)) || (mem kex_strict_c k && negb (mem kex_strict_c peer))) = src_policy_marker_missing k peer.
Proof. reflexivity. Qed.
Lemma tie_exact_differs : forall a l,
  negb (strs_eqb a l) = src_policy_exact_differs_0 a l /\ negb (strs_eqb a l) = src_policy_exact_differs_1 a l /\ negb (strs_eqb a l) = src_policy_exact_differs_2 a l
  /\ negb (strs_eqb a l) = src_policy_exact_differs_3 a l /\ negb (strs_eqb a l) = src_policy_exact_differs_4 a l.
Proof. intros. repeat split; reflexivity. Qed.
Lemma tie_not_all_in : forall a l, not_all_in a l = src_policy_not_all_in a l.
Proof. reflexivity. Qed.
Lemma tie_pruned : forall p pr o, p_optional_host_keys p = Some o -> pruned_host_keys p pr = src_policy_pruned (pr_key pr) o.
Proof. intros p pr o H. unfold pruned_host_keys. rewrite H. reflexivity. Qed.
Lemma tie_ca_specified : forall t sz, (negb (String.eqb t "") && (0 <? sz))%Z = src_policy_ca_specified t sz.
Proof.
  intros t sz. unfold src_policy_ca_specified. rewrite !Z.gtb_ltb. f_equal.
  destruct t as [|a r]; [reflexivity|]. cbn [String.eqb String.length negb]. symmetry. apply Z.ltb_lt. lia.
Qed.
(* the labels: one error per failing block; running the model on a policy and a peer that disagree in every block yields the labels of the source in source order
   (blocks with two sites for one label - exact / subset - contribute the label once per run, so the source list is compared after removing adjacent repetitions) *)
Fixpoint dedup_adj (l : list string) : list string :=
  match l with
  | a :: ((b :: _) as r) => if String.eqb a b then dedup_adj r else a :: dedup_adj r
  | _ => l
  end.
Definition label_template (s : string) : string :=
  (* "Host key (ssh-rsa) sizes" -> "Host key (%s) sizes" : replace the text between the parentheses *)
  match index 0 "(" s, index 0 ")" s with
  | Some i, Some j => String.append (substring 0 (S i) s) (String.append "%s" (substring j (String.length s - j) s))
  | _, _ => s
  end.
Definition all_wrong_policy : policy :=
  {| p_name := None; p_version := None; p_banner := Some "B"; p_compressions := Some ["c"]; p_host_keys := Some ["h"]; p_optional_host_keys := None; p_kex := Some ["k"]; p_ciphers := Some ["e"]; p_macs := Some ["m"];
     p_hostkey_sizes := Some [("t", {| hk_size := 1; hk_ca_type := "ca"; hk_ca_size := 1 |}); ("u", {| hk_size := 2; hk_ca_type := "ca"; hk_ca_size := 1 |})];
     p_dh_modulus_sizes := Some [("g", 1%Z)]; p_server_policy := true; p_subset := false; p_larger := false |}.
Definition all_wrong_peer : peer :=
  {| pr_banner := "X"; pr_compression := ["x"]; pr_kex := ["x"]; pr_key := ["x"]; pr_enc := ["x"]; pr_mac := ["x"];
     pr_host_keys := [("t", {| hk_size := 2; hk_ca_type := "other"; hk_ca_size := 1 |}); ("u", {| hk_size := 2; hk_ca_type := "ca"; hk_ca_size := 2 |})];
     pr_dh_modulus_sizes := [("g", 2%Z)] |}.
Lemma tie_error_labels :
  map label_template (map e_field (snd (evaluate all_wrong_policy all_wrong_peer))) = dedup_adj src_policy_error_labels.
Proof. vm_compute. reflexivity. Qed.
