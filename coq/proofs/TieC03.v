(* C03: every literal / integer kernel that the hand-written model repeats from the Python source is proved equal to the copy the
   translator extracts from the current source on every run (gen/Tables.v, definitions whose names start with src_).  When the source changes there, the generated
   definition changes (or is left out when the shape is no longer recognised) and this file stops compiling: the model cannot go stale silently,
   and only this property's check is affected. *)
From Coq Require Import ZArith List String Bool Lia ZifyBool.
From VGen Require Import Tables.
From VModel Require Import Rating.
Open Scope string_scope. Open Scope list_scope.

Lemma tie_unknown_text : unknown_text = src_unknown_text.
Proof. reflexivity. Qed.

(* Algorithm.get_ssh_version as it reads now (T1c translation): the product / version / client-only reading of one "available since" token *)
Lemma tie_ssh_version : forall v, ssh_version v = src_get_ssh_version v.
Proof. reflexivity. Qed.

(* Algorithm.get_since_text as it reads now (T1c translation of the loop body and of the final join): the model's since_text is
   "flat_map of the per-token contribution over the comma-split first component, joined" with exactly those two functions *)
Lemma tie_since_token : forall v,
  (match ssh_version v with
   | (prod, ver, cli) => if String.eqb ver "" then [] else if String.eqb prod product_LibSSH then []
                         else [prod +++ " " +++ (if cli then ver +++ " (client only)" else ver)]
   end) = src_since_token (fst (fst (ssh_version v))) (snd (fst (ssh_version v))) (snd (ssh_version v)).
Proof.
  intros v. destruct (ssh_version v) as [[prod ver] cli]. cbn [fst snd]. unfold src_since_token. cbn [mem].
  destruct (String.eqb ver ""); cbn [negb]; [reflexivity|].
  destruct (String.eqb prod product_LibSSH); cbn [negb]; [reflexivity|]. destruct cli; reflexivity.
Qed.
Lemma tie_since_text : forall vers,
  since_text vers =
  match vers with
  | Some v0 :: _ =>
      match flat_map (fun v => src_since_token (fst (fst (src_get_ssh_version v))) (snd (fst (src_get_ssh_version v))) (snd (src_get_ssh_version v))) (split_on ","%char v0) with
      | [] => None
      | tv => Some (src_since_join tv)
      end
  | _ => None
  end.
Proof.
  intros [|[v0|] r]; try reflexivity. unfold since_text.
  assert (E: forall l, flat_map (fun v => match ssh_version v with
                                   | (prod, ver, cli) => if String.eqb ver "" then [] else if String.eqb prod product_LibSSH then []
                                                         else [prod +++ " " +++ (if cli then ver +++ " (client only)" else ver)]
                                   end) l
             = flat_map (fun v => src_since_token (fst (fst (src_get_ssh_version v))) (snd (fst (src_get_ssh_version v))) (snd (src_get_ssh_version v))) l).
  { induction l as [|x l IH]; [reflexivity|]. cbn [flat_map]. rewrite IH. f_equal. exact (tie_since_token x). }
  rewrite E. destruct (flat_map _ _); reflexivity.
Qed.
