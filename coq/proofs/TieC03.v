(* C03: every literal / integer kernel that the hand-written model repeats from the Python source is proved equal to the copy the
   translator extracts from the current source on every run (gen/Tables.v, definitions whose names start with src_).  When the source changes there, the generated
   definition changes (or is left out when the shape is no longer recognised) and this file stops compiling: the model cannot go stale silently,
   and only this property's check is affected. *)
From Coq Require Import ZArith List String Bool Lia ZifyBool.
From VGen Require Import Tables.
From VModel Require Import Rating.
Open Scope string_scope. Open Scope list_scope.

Lemma tie_unknown_text : unknown_text = src_unknown_text.
Proof. reflexivity. Qed.

(* Algorithm.get_ssh_version as it reads now (T1c translation): the product / version / client-only reading of one "available since" token *)
Lemma tie_ssh_version : forall v, ssh_version v = src_get_ssh_version v.
Proof. reflexivity. Qed.

(* Algorithm.get_since_text as it reads now (T1c translation of the loop body and of the final join): the model's since_text is
   "flat_map of the per-token contribution over the comma-split first component, joined" with exactly those two functions *)
Lemma tie_since_token : forall v,
  (match ssh_version v with
   | (prod, ver, cli) => if String.eqb ver "" then [] else if String.eqb prod product_LibSSH then []
                         else [prod +++ " " +++ (if cli then ver +++ " (client only)" else ver)]
   end) = src_since_token (fst (fst (ssh_version v))) (snd (fst (ssh_version v))) (snd (ssh_version v)).
Proof.
  intros v. destruct (ssh_version v) as [[prod ver] cli]. cbn [fst snd]. unfold src_since_token. cbn [mem].
  destruct (String.eqb ver ""); cbn [negb]; [reflexivity|].
  destruct (String.eqb prod product_LibSSH); cbn [negb]; [reflexivity|]. destruct cli; reflexivity.
Qed.
Lemma tie_since_text : forall vers,
  since_text vers =
  match vers with
  | Some v0 :: _ =>
      match flat_map (fun v => src_since_token (fst (fst (src_get_ssh_version v))) (snd (fst (src_get_ssh_version v))) (snd (src_get_ssh_version v))) (split_on ","%char v0) with
      | [] => None
      | tv => Some (src_since_join tv)
      end
  | _ => None
  end.
Proof.
  intros [|[v0|] r]; try reflexivity. unfold since_text.
  assert (E: forall l, flat_map (fun v => match ssh_version v with
                                   | (prod, ver, cli) => if String.eqb ver "" then [] else if String.eqb prod product_LibSSH then []
                                                         else [prod +++ " " +++ (if cli then ver +++ " (client only)" else ver)]
                                   end) l
             = flat_map (fun v => src_since_token (fst (fst (src_get_ssh_version v))) (snd (fst (src_get_ssh_version v))) (snd (src_get_ssh_version v))) l).
  { induction l as [|x l IH]; [reflexivity|]. cbn [flat_map]. rewrite IH. f_equal. exact (tie_since_token x). }
  rewrite E. destruct (flat_map _ _); reflexivity.
Qed.

(* output_algorithm(): the assembly of the notes of a name the database knows, as it reads now (T1c translation: the enumerate loop over the three levels unrolled,
   the loop over the optional notes of a component as "the present entries", the "available since" text from get_since_text - itself tied above).  The model's
   texts of a known entry are the source's, level by level. *)
Definition known_texts (e : desc) : list (level * string) :=
  let t := map (fun s => (LFail, s)) (fails e) ++ map (fun s => (LWarn, s)) (warns e)
           ++ (match since_text (versions e) with Some s => if String.eqb s "" then [] else [(LInfo, s)] | None => [] end)
           ++ map (fun s => (LInfo, s)) (infos e) in
  match t with [] => [(LInfo, "")] | _ => t end.
Definition level_of_text (s : string) : level := if String.eqb s "fail" then LFail else if String.eqb s "warn" then LWarn else LInfo.

Lemma somes_pairs (lv : string) l :
  flat_map (fun o_ : option string => match o_ with Some c_t => [(lv, c_t)] | None => [] end) l = map (fun s => (lv, s)) (somes l).
Proof.
  unfold somes. induction l as [|[x|] l IH]; cbn [flat_map map app]; [reflexivity| |exact IH]. rewrite IH. reflexivity.
Qed.
Lemma comp_guard (e : desc) (i : nat) (F : list (option string) -> list (string * string)) (acc : list (string * string)) :
  F [] = [] ->
  (if (Z.of_nat (List.length e) >? Z.of_nat i)%Z then (acc ++ F (nth i e []))%list else acc) = (acc ++ F (nth i e []))%list.
Proof.
  intros HF. destruct (Z.of_nat (List.length e) >? Z.of_nat i)%Z eqn:E; [reflexivity|].
  rewrite Z.gtb_ltb in E. apply Z.ltb_ge in E. rewrite nth_overflow by lia. rewrite HF, app_nil_r. reflexivity.
Qed.
Lemma tie_alg_texts_known : forall e,
  map (fun p => (level_text (fst p), snd p)) (known_texts e) = src_alg_texts_known e (since_text (versions e)).
Proof.
  intros e. unfold src_alg_texts_known. cbv zeta.
  change (String.eqb "fail" "info") with false. change (String.eqb "warn" "info") with false. change (String.eqb "info" "info") with true. cbv iota.
  change (0 + 1)%Z with (Z.of_nat 1). change (1 + 1)%Z with (Z.of_nat 2). change (2 + 1)%Z with (Z.of_nat 3). rewrite !Nat2Z.id.
  rewrite (comp_guard e 1 (fun l => flat_map (fun o_ => match o_ with Some c_t => [("fail", c_t)] | None => [] end) l) []) by reflexivity.
  cbn [app].
  rewrite (comp_guard e 2 (fun l => flat_map (fun o_ => match o_ with Some c_t => [("warn", c_t)] | None => [] end) l)) by reflexivity.
  rewrite !somes_pairs.
  unfold known_texts, fails, warns, infos, comp.
  set (F := somes (nth 1 e [])). set (W := somes (nth 2 e [])). set (I := somes (nth 3 e [])).
  (* the "available since" part *)
  assert (HS: forall acc : list (string * string),
    (if negb (match since_text (versions e) with Some _ => false | None => true end)
        && (Z.of_nat (String.length (match since_text (versions e) with Some s_ => s_ | None => EmptyString end)) >? 0)%Z
     then (acc ++ [("info", match since_text (versions e) with Some s_ => s_ | None => EmptyString end)])%list else acc)
    = (acc ++ map (fun p => (level_text (fst p), snd p)) (match since_text (versions e) with Some s => if String.eqb s "" then [] else [(LInfo, s)] | None => [] end))%list).
  { intros acc. destruct (since_text (versions e)) as [s|]; cbn [negb andb]; [|rewrite app_nil_r; reflexivity].
    destruct s as [|a r]; cbn [String.eqb String.length map]; [rewrite app_nil_r; reflexivity|].
    assert (H: (Z.of_nat (S (String.length r)) >? 0)%Z = true) by (rewrite Z.gtb_ltb; apply Z.ltb_lt; lia). rewrite H. reflexivity. }
  rewrite HS.
  set (SI := match since_text (versions e) with Some s => if String.eqb s "" then [] else [(LInfo, s)] | None => [] end).
  rewrite (comp_guard e 3 (fun l => map (fun s => ("info", s)) (somes l))) by reflexivity. fold I.
  (* the final "no note at all" case *)
  assert (M: forall (lv : level) l, map (fun p : level * string => (level_text (fst p), snd p)) (map (fun s => (lv, s)) l) = map (fun s => (level_text lv, s)) l).
  { intros lv l. rewrite map_map. reflexivity. }
  set (T := (map (fun s => (LFail, s)) F ++ map (fun s => (LWarn, s)) W ++ SI ++ map (fun s => (LInfo, s)) I)%list).
  assert (ET: map (fun p : level * string => (level_text (fst p), snd p)) T
              = (((map (fun s => ("fail", s)) F ++ map (fun s => ("warn", s)) W) ++ map (fun p : level * string => (level_text (fst p), snd p)) SI) ++ map (fun s => ("info", s)) I)%list).
  { unfold T. rewrite !map_app, !M. cbn [level_text]. rewrite <- !app_assoc. reflexivity. }
  rewrite <- ET.
  destruct T as [|x T'] eqn:HT.
  - cbn [map List.length Z.of_nat Z.eqb app]. reflexivity.
  - cbn [map List.length]. assert (H: (Z.of_nat (S (List.length (map (fun p : level * string => (level_text (fst p), snd p)) T'))) =? 0)%Z = false) by (apply Z.eqb_neq; lia).
    rewrite H. reflexivity.
Qed.
Lemma alg_texts_known_texts : forall d cat name e,
  str_is_blank (lookup_name cat name) = false -> db_get d cat (lookup_name cat name) = Some e -> alg_texts d cat name = Some (known_texts e).
Proof. intros d cat name e Hb Hg. unfold alg_texts. rewrite Hb, Hg. reflexivity. Qed.

(* the test that selects the wildcard lookup name is the same expression at both sites (text: output_algorithm, JSON: fetch_notes), and it is the model's;
   the translator also matches the rewrite itself ("<name up to the last dash>-*") literally at both sites *)
Lemma tie_gss_lookup : forall cat name,
  (String.eqb cat "kex" && starts_with "gss-" name) = src_gss_lookup_text cat name /\ (String.eqb cat "kex" && starts_with "gss-" name) = src_gss_lookup_json cat name.
Proof. intros. split; reflexivity. Qed.
