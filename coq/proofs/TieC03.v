(* C03: every literal / integer kernel that the hand-written model repeats from the Python source is proved equal to the copy the
   translator extracts from the current source on every run (gen/Tables.v, definitions whose names start with src_).  When the source changes there, the generated
   definition changes (or is left out when the shape is no longer recognised) and this file stops compiling: the model cannot go stale silently,
   and only this property's check is affected. *)
From Coq Require Import ZArith List String Bool Lia ZifyBool.
From VGen Require Import Tables.
From VModel Require Import Rating.
Open Scope string_scope. Open Scope list_scope.

Lemma tie_unknown_text : unknown_text = src_unknown_text.
Proof. reflexivity. Qed.

(* Algorithm.get_ssh_version as it reads now (T1c translation): the product / version / client-only reading of one "available since" token *)
Lemma tie_ssh_version : forall v, ssh_version v = src_get_ssh_version v.
Proof. reflexivity. Qed.
