(* C14: every literal / integer kernel that the hand-written model repeats from the Python source is proved equal to the copy the
   translator extracts from the current source on every run (gen/Tables.v, definitions whose names start with src_).  When the source changes there, the generated
   definition changes (or is left out when the shape is no longer recognised) and this file stops compiling: the model cannot go stale silently,
   and only this property's check is affected. *)
From Coq Require Import ZArith List String Bool Lia ZifyBool.
From VGen Require Import Tables.
From VModel Require Import Version.
Open Scope string_scope. Open Scope list_scope.

Lemma tie_products : P_OpenSSH = product_OpenSSH /\ P_Dropbear = product_DropbearSSH /\ P_LibSSH = product_LibSSH.
Proof. repeat split; reflexivity. Qed.

(* Algorithm.get_ssh_version as it reads now (T1c translation) is the reading of version tokens used by the availability filter *)
Lemma rev_tl_rev {A} (l : list A) : rev (tl (rev l)) = removelast l.
Proof.
  induction l as [|a l IH] using rev_ind; [reflexivity|].
  rewrite rev_app_distr. cbn [rev app tl]. rewrite rev_involutive, removelast_last. reflexivity.
Qed.
Lemma tie_get_ssh_version : forall v, get_ssh_version v = src_get_ssh_version v.
Proof.
  intros v. unfold get_ssh_version, src_get_ssh_version, drop_last, Base.drop_last, str_drop, str_skip. cbv zeta.
  rewrite rev_tl_rev. reflexivity.
Qed.

(* Software.between_versions as it reads now (T1c translation), over the results of the two comparisons *)
Lemma tie_between : forall prod sver spatch vfrom vtill,
  between prod sver spatch vfrom vtill = src_between_versions vfrom vtill (compare_version prod sver spatch vfrom) (compare_version prod sver spatch vtill).
Proof.
  intros. unfold between, src_between_versions, str_eqb. rewrite Z.gtb_ltb.
  destruct (negb (String.eqb vfrom "") && (compare_version prod sver spatch vfrom <? 0))%Z; [reflexivity|].
  destruct (negb (String.eqb vtill "") && (0 <? compare_version prod sver spatch vtill))%Z; reflexivity.
Qed.

(* Python's `<` / `>` on str as the translator writes it (src_str_ltb) is the model's code-point comparison *)
Lemma zcode_ltb (x y : Ascii.ascii) : (zcode x <? zcode y)%Z = (Ascii.N_of_ascii x <? Ascii.N_of_ascii y)%N.
Proof. unfold zcode. destruct (N.ltb_spec (Ascii.N_of_ascii x) (Ascii.N_of_ascii y)); lia. Qed.
Lemma str_ltb_cmp : forall a b, src_str_ltb a b = (str_cmp a b =? -1)%Z.
Proof.
  unfold str_cmp, codes. induction a as [|x a IH]; intros [|y b]; cbn [src_str_ltb chars map lex_cmp]; try reflexivity.
  rewrite !zcode_ltb, IH.
  destruct (Ascii.N_of_ascii x <? Ascii.N_of_ascii y)%N; [reflexivity|].
  destruct (Ascii.N_of_ascii y <? Ascii.N_of_ascii x)%N; reflexivity.
Qed.
Lemma str_gtb_cmp : forall a b, src_str_ltb b a = (str_cmp a b =? 1)%Z.
Proof.
  unfold str_cmp, codes. induction a as [|x a IH]; intros [|y b]; cbn [src_str_ltb chars map lex_cmp]; try reflexivity.
  rewrite !zcode_ltb, IH.
  destruct (N.ltb_spec (Ascii.N_of_ascii x) (Ascii.N_of_ascii y)) as [H|H];
  destruct (N.ltb_spec (Ascii.N_of_ascii y) (Ascii.N_of_ascii x)) as [H'|H']; try reflexivity; lia.
Qed.
Lemma lex_cmp_range3 : forall a b, lex_cmp a b = (-1)%Z \/ lex_cmp a b = 0%Z \/ lex_cmp a b = 1%Z.
Proof.
  induction a as [|x a IH]; intros [|y b]; cbn [lex_cmp]; auto.
  destruct (x <? y)%Z; auto. destruct (y <? x)%Z; auto.
Qed.
Lemma src_three_way : forall s o, (if src_str_ltb s o then (-1)%Z else if src_str_ltb o s then 1%Z else 0%Z) = str_cmp s o.
Proof.
  intros s o. rewrite str_ltb_cmp, str_gtb_cmp.
  destruct (lex_cmp_range3 (codes s) (codes o)) as [H|[H|H]]; unfold str_cmp; rewrite H; reflexivity.
Qed.

(* the patch-level comparison of Software.compare_version as it reads now (T1c translation of the block after the version comparison),
   given the model's reading of its four regular-expression matches *)
Lemma tie_patch_cmp : forall prod spatch opatch,
  patch_cmp prod spatch opatch = src_patch_cmp prod spatch opatch (is_test opatch) (is_test spatch) (p_digit opatch) (p_digit spatch).
Proof.
  intros prod spatch opatch. unfold patch_cmp, src_patch_cmp, str_eqb.
  destruct tie_products as [HO [HD _]]. rewrite <- HO, <- HD. cbv zeta.
  destruct (String.eqb prod P_Dropbear).
  - rewrite src_three_way. destruct (is_test opatch), (is_test spatch); reflexivity.
  - destruct (String.eqb prod P_OpenSSH).
    + destruct (p_digit opatch) as [d1|], (p_digit spatch) as [d2|]; cbn [negb andb]; cbv iota beta; rewrite src_three_way; reflexivity.
    + rewrite src_three_way. reflexivity.
Qed.

(* ... and with the two statements before it: the comparison of the version texts decides first, the patch level only breaks a tie *)
Lemma src_compare_tail_unfold : forall vc prod s o a b c d,
  src_compare_tail vc prod s o a b c d = if negb (vc =? 0)%Z then vc else src_patch_cmp prod s o a b c d.
Proof. reflexivity. Qed.
Lemma tie_compare_tail : forall prod sver spatch other,
  compare_version prod sver spatch other =
  let (oversion, opatch) := split_other other in
  src_compare_tail (compare_versions sver oversion) prod (or_empty spatch) opatch
                   (is_test opatch) (is_test (or_empty spatch)) (p_digit opatch) (p_digit (or_empty spatch)).
Proof.
  intros prod sver spatch other. unfold compare_version. destruct (split_other other) as [oversion opatch].
  rewrite src_compare_tail_unfold, <- tie_patch_cmp. destruct (compare_versions sver oversion =? 0)%Z; reflexivity.
Qed.

(* statements about the translated source alone (no hand-written model of these lines): whatever the four matches say, the patch level cannot
   override a difference of the version texts, and the result is one of -1, 0, 1 when the version comparison's is *)
Lemma src_version_decides : forall vc prod s o a b c d, vc <> 0%Z -> src_compare_tail vc prod s o a b c d = vc.
Proof.
  intros vc prod s o a b c d H. rewrite src_compare_tail_unfold.
  destruct (vc =? 0)%Z eqn:E; [apply Z.eqb_eq in E; contradiction | reflexivity].
Qed.
Lemma src_tail_range : forall vc prod s o a b c d, (vc = -1 \/ vc = 0 \/ vc = 1)%Z ->
  let r := src_compare_tail vc prod s o a b c d in (r = -1 \/ r = 0 \/ r = 1)%Z.
Proof.
  intros vc prod s o a b c d H. cbv zeta. rewrite src_compare_tail_unfold.
  destruct (vc =? 0)%Z; cbn [negb]; [|exact H].
  unfold src_patch_cmp. cbv zeta.
  destruct (String.eqb prod product_DropbearSSH).
  - rewrite src_three_way. apply lex_cmp_range3.
  - destruct (String.eqb prod product_OpenSSH); [|rewrite src_three_way; apply lex_cmp_range3].
    destruct c, d; cbn [negb andb]; cbv iota beta; rewrite src_three_way;
      match goal with |- context[if ?x then _ else _] => destruct x end; auto; apply lex_cmp_range3.
Qed.
