(* C14: every literal / integer kernel that the hand-written model repeats from the Python source is proved equal to the copy the
   translator extracts from the current source on every run (gen/Tables.v, definitions whose names start with src_).  When the source changes there, the generated
   definition changes (or is left out when the shape is no longer recognised) and this file stops compiling: the model cannot go stale silently,
   and only this property's check is affected. *)
From Coq Require Import ZArith List String Bool Lia ZifyBool.
From VGen Require Import Tables.
From VModel Require Import Version.
Open Scope string_scope. Open Scope list_scope.

Lemma tie_products : P_OpenSSH = product_OpenSSH /\ P_Dropbear = product_DropbearSSH /\ P_LibSSH = product_LibSSH.
Proof. repeat split; reflexivity. Qed.

(* Algorithm.get_ssh_version as it reads now (T1c translation) is the reading of version tokens used by the availability filter *)
Lemma rev_tl_rev {A} (l : list A) : rev (tl (rev l)) = removelast l.
Proof.
  induction l as [|a l IH] using rev_ind; [reflexivity|].
  rewrite rev_app_distr. cbn [rev app tl]. rewrite rev_involutive, removelast_last. reflexivity.
Qed.
Lemma tie_get_ssh_version : forall v, get_ssh_version v = src_get_ssh_version v.
Proof.
  intros v. unfold get_ssh_version, src_get_ssh_version, drop_last, Base.drop_last, str_drop, str_skip. cbv zeta.
  rewrite rev_tl_rev. reflexivity.
Qed.

(* Software.between_versions as it reads now (T1c translation), over the results of the two comparisons *)
Lemma tie_between : forall prod sver spatch vfrom vtill,
  between prod sver spatch vfrom vtill = src_between_versions vfrom vtill (compare_version prod sver spatch vfrom) (compare_version prod sver spatch vtill).
Proof.
  intros. unfold between, src_between_versions, str_eqb. rewrite Z.gtb_ltb.
  destruct (negb (String.eqb vfrom "") && (compare_version prod sver spatch vfrom <? 0))%Z; [reflexivity|].
  destruct (negb (String.eqb vtill "") && (0 <? compare_version prod sver spatch vtill))%Z; reflexivity.
Qed.
