From Coq Require Import Lia ZifyBool.
From VModel Require Import Report.
Open Scope string_scope. Open Scope list_scope. Open Scope Z_scope.

(* ---------- association lists ---------- *)
Lemma assoc_update {A} (k k' : string) (f : A -> A) l :
  assoc k (update k' f l) = if String.eqb k k' then option_map f (assoc k l) else assoc k l.
Proof.
  induction l as [|[k0 v] l IH]; cbn [update assoc].
  - destruct (String.eqb k k'); reflexivity.
  - destruct (String.eqb k' k0) eqn:E0.
    + apply String.eqb_eq in E0. subst k0. cbn [assoc].
      destruct (String.eqb k k') eqn:E; [reflexivity|reflexivity].
    + cbn [assoc]. destruct (String.eqb k k0) eqn:E1.
      * apply String.eqb_eq in E1. subst k0. rewrite String.eqb_sym in E0. rewrite E0. reflexivity.
      * exact IH.
Qed.

Lemma db_get_update d c n c' n' f :
  db_get (db_update d c' n' f) c n =
  if String.eqb c c' && String.eqb n n' then option_map f (db_get d c n) else db_get d c n.
Proof.
  unfold db_get, db_cat, db_update. rewrite assoc_update.
  destruct (String.eqb c c') eqn:Ec; cbn [andb]; [|reflexivity].
  destruct (assoc c d) as [cat|]; cbn [option_map].
  - apply assoc_update.
  - cbn [assoc]. destruct (String.eqb n n'); reflexivity.
Qed.

(* ---------- append_at ---------- *)
Lemma nth_append_at_same i s (e : desc) : nth i (append_at i s e) [] = nth i e [] ++ [Some s].
Proof.
  revert e. induction i as [|i IH]; intros e; destruct e as [|x r]; cbn [append_at nth]; try reflexivity.
  - rewrite IH. destruct i; reflexivity.
  - apply IH.
Qed.
Lemma nth_append_at_other i j s (e : desc) : i <> j -> nth j (append_at i s e) [] = nth j e [].
Proof.
  revert j e. induction i as [|i IH]; intros j e Hij; destruct e as [|x r]; destruct j as [|j]; cbn [append_at nth]; try reflexivity; try congruence.
  - destruct j; reflexivity.
  - rewrite IH by congruence. destruct j; reflexivity.
  - apply IH. congruence.
Qed.
Lemma somes_app a b : somes (a ++ b) = somes a ++ somes b.
Proof. unfold somes. apply flat_map_app. Qed.
Lemma comp_append_at_same i s e : comp (append_at i s e) i = comp e i ++ [s].
Proof. unfold comp. rewrite nth_append_at_same, somes_app. reflexivity. Qed.
Lemma comp_append_at_other i j s e : i <> j -> comp (append_at i s e) j = comp e j.
Proof. intros H. unfold comp. rewrite nth_append_at_other by exact H. reflexivity. Qed.

Fixpoint iter_n {A} (n : nat) (f : A -> A) (x : A) : A := match n with O => x | S n' => iter_n n' f (f x) end.
Definition count_str (n : string) (l : list string) : nat := List.length (filter (String.eqb n) l).

Lemma db_get_fold_add c0 L : forall d c n,
  db_get (fold_left (fun d n => add_terrapin d c0 n) L d) c n =
  if String.eqb c c0 then option_map (iter_n (count_str n L) (add_warn_once terrapin_warning)) (db_get d c n) else db_get d c n.
Proof.
  induction L as [|x L IH]; intros d c n; cbn [fold_left].
  - unfold count_str. cbn. destruct (String.eqb c c0); [destruct (db_get d c n); reflexivity|reflexivity].
  - rewrite IH.
    assert (Hx: db_get (add_terrapin d c0 x) c n =
                if String.eqb c c0 && String.eqb n x then option_map (add_warn_once terrapin_warning) (db_get d c n) else db_get d c n)
      by (unfold add_terrapin; apply db_get_update).
    rewrite Hx.
    destruct (String.eqb c c0) eqn:Ec; cbn [andb]; [|reflexivity].
    unfold count_str. cbn [filter]. destruct (String.eqb n x) eqn:En; cbn [List.length iter_n].
    + destruct (db_get d c n); reflexivity.
    + reflexivity.
Qed.

Lemma mem_In0 s l : mem s l = true <-> In s l.
Proof.
  induction l as [|x l IH]; cbn [mem In]; [split; [discriminate|tauto]|].
  destruct (String.eqb s x) eqn:E.
  - apply String.eqb_eq in E. subst. tauto.
  - rewrite IH. split; [tauto|]. intros [->|H]; [rewrite String.eqb_refl in E; discriminate|exact H].
Qed.
Lemma warns_add_once e : warns (add_warn_once terrapin_warning e) = if mem terrapin_warning (warns e) then warns e else warns e ++ [terrapin_warning].
Proof. unfold add_warn_once. destruct (mem terrapin_warning (warns e)) eqn:E; [reflexivity|]. unfold warns. apply comp_append_at_same. Qed.
Lemma add_once_idem e : mem terrapin_warning (warns e) = true -> add_warn_once terrapin_warning e = e.
Proof. intros H. unfold add_warn_once. rewrite H. reflexivity. Qed.
(* however often the name occurs, the warning is there once: k = 0 leaves the entry alone, k > 0 adds it unless it is already present *)
Lemma warns_iter k e : warns (iter_n k (add_warn_once terrapin_warning) e) =
  if (Nat.eqb k 0) || mem terrapin_warning (warns e) then warns e else warns e ++ [terrapin_warning].
Proof.
  revert e. induction k as [|k IH]; intros e; cbn [iter_n Nat.eqb orb]; [reflexivity|].
  rewrite IH, warns_add_once.
  destruct (mem terrapin_warning (warns e)) eqn:E.
  - rewrite E, orb_true_r. reflexivity.
  - assert (H: mem terrapin_warning (warns e ++ [terrapin_warning]) = true).
    { apply mem_In0. apply in_app_iff. right. left. reflexivity. }
    rewrite H, orb_true_r. reflexivity.
Qed.
Lemma in_warns_iter k e : In terrapin_warning (warns (iter_n k (add_warn_once terrapin_warning) e)) <-> In terrapin_warning (warns e) \/ (0 < k)%nat.
Proof.
  rewrite warns_iter. destruct k as [|k]; cbn [Nat.eqb orb].
  - split; [tauto|intros [H|H]; [exact H|lia]].
  - destruct (mem terrapin_warning (warns e)) eqn:E.
    + apply mem_In0 in E. split; [tauto|intros _; exact E].
    + split; [intros _; right; lia|intros _; apply in_app_iff; right; left; reflexivity].
Qed.
Lemma comp_add_once_other j e : j <> 2%nat -> comp (add_warn_once terrapin_warning e) j = comp e j.
Proof. intros Hj. unfold add_warn_once. destruct (mem _ _); [reflexivity|]. apply comp_append_at_other. congruence. Qed.
Lemma comp_iter_other k j e : j <> 2%nat -> comp (iter_n k (add_warn_once terrapin_warning) e) j = comp e j.
Proof.
  intros Hj. revert e. induction k as [|k IH]; intros e; cbn [iter_n]; [reflexivity|].
  rewrite IH. apply comp_add_once_other. exact Hj.
Qed.
Lemma versions_iter k e : versions (iter_n k (add_warn_once terrapin_warning) e) = versions e.
Proof.
  revert e. induction k as [|k IH]; intros e; cbn [iter_n]; [reflexivity|].
  rewrite IH. unfold add_warn_once. destruct (mem _ _); [reflexivity|]. unfold versions. apply nth_append_at_other. discriminate.
Qed.

(* ---------- the marked sets ---------- *)
Lemma nonempty_filter {A} (f : A -> bool) l : (exists x, In x l /\ f x = true) <-> filter f l <> [].
Proof.
  split.
  - intros [x [Hx Hf]] E. assert (In x (filter f l)) by (apply filter_In; auto). rewrite E in H. destruct H.
  - intros H. destruct (filter f l) as [|y r] eqn:E; [congruence|].
    assert (In y (filter f l)) by (rewrite E; left; reflexivity). apply filter_In in H0. exists y. exact H0.
Qed.

Lemma marked_enc_spec ca k n :
  In n (marked_enc ca k) <->
  (is_chacha n = true /\ In n (tp_ciphers ca k)) \/
  (is_cbc n = true /\ In n (tp_ciphers ca k) /\ exists m, In m (tp_macs ca k) /\ is_etm m = true).
Proof.
  unfold marked_enc. cbv zeta. rewrite in_app_iff, filter_In.
  pose proof (nonempty_filter is_etm (tp_macs ca k)) as He.
  destruct (filter is_cbc (tp_ciphers ca k)) as [|c cs] eqn:Ec.
  - split; [intros [H|[]]; tauto|].
    intros [H|[H1 [H2 _]]]; [tauto|].
    assert (In n (filter is_cbc (tp_ciphers ca k))) by (apply filter_In; auto). rewrite Ec in H. destruct H.
  - destruct (filter is_etm (tp_macs ca k)) as [|m ms] eqn:Em.
    + split; [intros [H|[]]; tauto|]. intros [H|[H1 [H2 H3]]]; [tauto|]. apply He in H3. congruence.
    + rewrite <- Ec, filter_In. split.
      * intros [H|[H1 H2]]; [tauto|]. right. split; [exact H2|]. split; [exact H1|]. apply He. discriminate.
      * intros [H|[H1 [H2 _]]]; tauto.
Qed.
Lemma marked_mac_spec ca k n :
  In n (marked_mac ca k) <->
  (is_etm n = true /\ In n (tp_macs ca k) /\ exists c, In c (tp_ciphers ca k) /\ is_cbc c = true).
Proof.
  unfold marked_mac. cbv zeta.
  pose proof (nonempty_filter is_cbc (tp_ciphers ca k)) as Hc.
  destruct (filter is_cbc (tp_ciphers ca k)) as [|c cs] eqn:Ec.
  - split; [intros []|]. intros [_ [_ H]]. apply Hc in H. congruence.
  - destruct (filter is_etm (tp_macs ca k)) as [|m ms] eqn:Em.
    + split; [intros []|]. intros [H1 [H2 _]].
      assert (In n (filter is_etm (tp_macs ca k))) by (apply filter_In; auto). rewrite Em in H. destruct H.
    + rewrite <- Em, filter_In. split.
      * intros [H1 H2]. split; [exact H2|]. split; [exact H1|]. apply Hc. discriminate.
      * intros [H1 [H2 _]]. tauto.
Qed.

(* ---------- the final database, pointwise (C03: the only channels) ---------- *)
Definition gexn : string := "diffie-hellman-group-exchange-sha256".
Definition edit_of (ca : bool) (bs : option string) (k : kexlists) (dh : list (string * Z)) (c n : string) (e : desc) : desc :=
  let e1 := if openssh_2048 bs k dh && String.eqb c "kex" && String.eqb n gexn then append_at 3 openssh_2048_note e else e in
  if has_marker ca k then e1
  else if String.eqb c "enc" then iter_n (count_str n (marked_enc ca k)) (add_warn_once terrapin_warning) e1
  else if String.eqb c "mac" then iter_n (count_str n (marked_mac ca k)) (add_warn_once terrapin_warning) e1
  else e1.

Theorem final_db_pointwise ca bs k dh rn d c n :
  db_get (p_db (post_process ca bs k dh rn d)) c n = option_map (edit_of ca bs k dh c n) (db_get d c n).
Proof.
  unfold post_process. cbv zeta. cbn [p_db]. unfold edit_of. cbv zeta.
  fold gexn.
  set (d1 := if openssh_2048 bs k dh then db_update d "kex" gexn (append_at 3 openssh_2048_note) else d).
  assert (H1: db_get d1 c n = option_map (fun e => if openssh_2048 bs k dh && String.eqb c "kex" && String.eqb n gexn
                                                   then append_at 3 openssh_2048_note e else e) (db_get d c n)).
  { unfold d1. destruct (openssh_2048 bs k dh); cbn [andb].
    - rewrite db_get_update. destruct (String.eqb c "kex" && String.eqb n gexn); [reflexivity|].
      destruct (db_get d c n); reflexivity.
    - destruct (db_get d c n); reflexivity. }
  destruct (has_marker ca k).
  - rewrite H1. reflexivity.
  - rewrite !db_get_fold_add. rewrite H1.
    destruct (String.eqb c "enc") eqn:Ee; destruct (String.eqb c "mac") eqn:Em.
    + apply String.eqb_eq in Ee. apply String.eqb_eq in Em. subst c. discriminate.
    + destruct (db_get d c n); reflexivity.
    + destruct (db_get d c n); reflexivity.
    + destruct (db_get d c n); reflexivity.
Qed.

(* ---------- C04: who carries the warning ---------- *)
Definition carries (d : db) (c n : string) : Prop :=
  exists e, db_get d c n = Some e /\ In terrapin_warning (warns e).
Definition terrapin_free (d : db) : Prop :=
  forall c n e, db_get d c n = Some e -> ~ In terrapin_warning (warns e).

Lemma count_pos n l : (0 < count_str n l)%nat <-> In n l.
Proof.
  unfold count_str. split.
  - intros H. destruct (filter (String.eqb n) l) as [|x r] eqn:E; [cbn in H; lia|].
    assert (In x (filter (String.eqb n) l)) by (rewrite E; left; reflexivity).
    apply filter_In in H0. destruct H0 as [Hx He]. apply String.eqb_eq in He. subst x. exact Hx.
  - intros H. assert (In n (filter (String.eqb n) l)) by (apply filter_In; split; [exact H|apply String.eqb_refl]).
    destruct (filter (String.eqb n) l); [destruct H0|cbn; lia].
Qed.

Lemma warns_append_at_3 s e : warns (append_at 3 s e) = warns e.
Proof. unfold warns. apply comp_append_at_other. discriminate. Qed.

Theorem terrapin_rule ca bs k dh rn d c n e0 :
  terrapin_free d -> db_get d c n = Some e0 ->
  (carries (p_db (post_process ca bs k dh rn d)) c n <->
   has_marker ca k = false /\
   ((c = "enc" /\ is_chacha n = true /\ In n (tp_ciphers ca k)) \/
    (c = "enc" /\ is_cbc n = true /\ In n (tp_ciphers ca k) /\ exists m, In m (tp_macs ca k) /\ is_etm m = true) \/
    (c = "mac" /\ is_etm n = true /\ In n (tp_macs ca k) /\ exists x, In x (tp_ciphers ca k) /\ is_cbc x = true))).
Proof.
  intros Hfree He0. unfold carries. rewrite final_db_pointwise, He0. cbn [option_map].
  pose proof (Hfree c n e0 He0) as Hnot.
  set (e1 := if openssh_2048 bs k dh && String.eqb c "kex" && String.eqb n gexn then append_at 3 openssh_2048_note e0 else e0).
  assert (Hw1: warns e1 = warns e0).
  { unfold e1. destruct (openssh_2048 bs k dh && String.eqb c "kex" && String.eqb n gexn); [apply warns_append_at_3|reflexivity]. }
  unfold edit_of. cbv zeta. fold e1.
  destruct (has_marker ca k).
  - split; [intros [e [E H]]; injection E as <-; rewrite Hw1 in H; tauto|intros [H _]; discriminate].
  - destruct (String.eqb c "enc") eqn:Ee.
    + apply String.eqb_eq in Ee. subst c. split.
      * intros [e [E H]]. injection E as <-. apply in_warns_iter in H. rewrite Hw1 in H.
        destruct H as [H|Hc]; [tauto|]. split; [reflexivity|].
        apply count_pos, marked_enc_spec in Hc. destruct Hc as [[A B]|[A [B C]]]; [left; auto|right; left; auto].
      * intros [_ [[_ [A B]]|[[_ [A [B C]]]|[E _]]]]; try discriminate.
        -- eexists; split; [reflexivity|]. apply in_warns_iter. right. apply count_pos, marked_enc_spec; left; auto.
        -- eexists; split; [reflexivity|]. apply in_warns_iter. right. apply count_pos, marked_enc_spec; right; auto.
    + destruct (String.eqb c "mac") eqn:Em.
      * apply String.eqb_eq in Em. subst c. split.
        -- intros [e [E H]]. injection E as <-. apply in_warns_iter in H. rewrite Hw1 in H.
           destruct H as [H|Hc]; [tauto|]. split; [reflexivity|].
           apply count_pos, marked_mac_spec in Hc. right. right. tauto.
        -- intros [_ [[E _]|[[E _]|[_ H]]]]; try discriminate.
           eexists; split; [reflexivity|]. apply in_warns_iter. right. apply count_pos, marked_mac_spec; exact H.
      * split.
        -- intros [e [E H]]. injection E as <-. rewrite Hw1 in H. tauto.
        -- intros [_ [[E _]|[[E _]|[E _]]]]; subst c; discriminate.
Qed.

(* with the marker present the advisory note names exactly the marked algorithms, and nothing is marked *)
Theorem terrapin_advisory ca bs k dh rn d :
  has_marker ca k = true ->
  p_notes (post_process ca bs k dh rn d) =
  (match marked_enc ca k ++ marked_mac ca k with [] => [] | l => [advisory_prefix +++ join ", " l +++ advisory_suffix] end)
  ++ (if String.eqb rn "" then [] else [rn]).
Proof.
  intros Hm. unfold post_process. cbv zeta. cbn [p_notes]. rewrite Hm.
  destruct (marked_enc ca k ++ marked_mac ca k); reflexivity.
Qed.
Theorem terrapin_no_advisory_without_marker ca bs k dh rn d :
  has_marker ca k = false ->
  p_notes (post_process ca bs k dh rn d) = (if String.eqb rn "" then [] else [rn]).
Proof. intros Hm. unfold post_process. cbv zeta. cbn [p_notes]. rewrite Hm. reflexivity. Qed.

(* suppression: a ChaCha/CBC/ETM name of the table that the peer does not offer is never recommended *)
Lemma keys_update {A} k (f : A -> A) l : keys (update k f l) = keys l.
Proof. unfold keys. induction l as [|[k0 v] l IH]; cbn [update map fst]; [reflexivity|].
  destruct (String.eqb k k0); cbn [map fst]; [reflexivity|rewrite IH; reflexivity]. Qed.

Theorem recs_never_suppressed sw d k suppress r :
  In r (recommendations sw d k suppress) -> ~ In (r_name r) suppress.
Proof.
  unfold recommendations. destruct sw as [s|]; [|intros []].
  intros H. apply in_flat_map in H. destruct H as [[cat adv] [_ H]].
  apply in_flat_map in H. destruct H as [act [_ H]].
  apply in_flat_map in H. destruct H as [[[a n] pts] [_ H]].
  destruct (action_eqb a act && negb (mem n suppress)) eqn:E; [|destruct H].
  destruct H as [<-|[]]. cbn [r_name]. intros Hin.
  assert (mem n suppress = true).
  { clear E. induction suppress as [|x l IH]; [destruct Hin|]. cbn [mem].
    destruct (String.eqb n x) eqn:En; [reflexivity|]. destruct Hin as [->|Hin]; [rewrite String.eqb_refl in En; discriminate|auto]. }
  rewrite H in E. rewrite andb_false_r in E. discriminate.
Qed.

Lemma mem_In s l : mem s l = true <-> In s l.
Proof.
  induction l as [|x l IH]; cbn [mem In]; [split; [discriminate|tauto]|].
  destruct (String.eqb s x) eqn:E.
  - apply String.eqb_eq in E. subst. tauto.
  - rewrite IH. split; [tauto|]. intros [->|H]; [rewrite String.eqb_refl in E; discriminate|exact H].
Qed.

Theorem disabled_terrapin_algs_suppressed ca bs k dh rn d n :
  (In n (keys (db_cat (p_db (post_process ca bs k dh rn d)) "enc")) /\
     ((is_chacha n = true /\ ~ In n (tp_ciphers ca k)) \/ (is_cbc n = true /\ ~ In n (tp_ciphers ca k))))
  \/ (In n (keys (db_cat (p_db (post_process ca bs k dh rn d)) "mac")) /\ is_etm n = true /\ ~ In n (tp_macs ca k)) ->
  In n (p_suppress (post_process ca bs k dh rn d)).
Proof.
  unfold post_process. cbv zeta. cbn [p_suppress p_db].
  match goal with |- context [keys (db_cat ?D "enc")] => set (dd := D) end.
  intros [[Hk [[A B]|[A B]]]|[Hk [A B]]]; rewrite !in_app_iff.
  - right. left. apply filter_In. split; [exact Hk|]. rewrite A. cbn [andb].
    destruct (mem n (filter is_chacha (tp_ciphers ca k))) eqn:E; [|reflexivity].
    apply mem_In, filter_In in E. tauto.
  - right. right. left. apply filter_In. split; [exact Hk|]. rewrite A. cbn [andb].
    destruct (mem n (filter is_cbc (tp_ciphers ca k))) eqn:E; [|reflexivity].
    apply mem_In, filter_In in E. tauto.
  - right. right. right. apply filter_In. split; [exact Hk|]. rewrite A. cbn [andb].
    destruct (mem n (filter is_etm (tp_macs ca k))) eqn:E; [|reflexivity].
    apply mem_In, filter_In in E. tauto.
Qed.

(* the generated table carries no Terrapin warning before a scan (hypothesis of terrapin_rule, discharged) *)
Definition terrapin_free_b (d : rawdb) : bool :=
  forallb (fun ce => forallb (fun ne => negb (mem terrapin_warning (warns (snd ne)))) (snd ce)) d.
Lemma ssh2_db_terrapin_free_b : terrapin_free_b ssh2_db = true.
Proof. vm_compute. reflexivity. Qed.
Lemma assoc_In {A} k (l : list (string * A)) v : assoc k l = Some v -> In (k, v) l.
Proof.
  induction l as [|[k0 v0] l IH]; cbn [assoc]; [discriminate|].
  destruct (String.eqb k k0) eqn:E; [apply String.eqb_eq in E; subst; intros H; injection H as ->; left; reflexivity|].
  intros H. right. exact (IH H).
Qed.
Lemma ssh2_db_terrapin_free : terrapin_free ssh2_db.
Proof.
  intros c n e H Hin. pose proof ssh2_db_terrapin_free_b as Hb. unfold terrapin_free_b in Hb.
  rewrite forallb_forall in Hb. unfold db_get, db_cat in H. revert H.
  match goal with |- context [match ?X with Some _ => _ | None => _ end] => destruct X as [cat|] eqn:Ec end; [|cbn [assoc]; intros HH; discriminate HH].
  intros H. apply assoc_In in Ec. specialize (Hb _ Ec). cbn [snd] in Hb. rewrite forallb_forall in Hb.
  apply assoc_In in H. specialize (Hb _ H). cbn [snd] in Hb.
  apply mem_In in Hin. rewrite Hin in Hb. cbn [negb] in Hb. discriminate.
Qed.
