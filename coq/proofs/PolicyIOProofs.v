(* Proofs about PolicyIO (policy.py create / text parser).  Used by props/C05.v. *)
From Coq Require Import Lia ZifyBool Permutation.
From VModel Require Import PolicyIO.
From VProofs Require Import PolicyProofs.
Open Scope string_scope. Open Scope list_scope. Open Scope Z_scope.
Local Infix "^^" := String.append (right associativity, at level 60).

(* ------------------------------------------------------------------ strings *)
Lemma app_nil_r_s s : s ^^ "" = s.
Proof. induction s as [|c s IH]; cbn; [reflexivity|]. rewrite IH. reflexivity. Qed.

Lemma app_assoc_s a b c : (a ^^ b) ^^ c = a ^^ b ^^ c.
Proof. induction a as [|x a IH]; cbn; [reflexivity|]. rewrite IH. reflexivity. Qed.

Lemma of_chars_app l c x : of_chars (l ++ [c]) ^^ x = of_chars l ^^ String c x.
Proof. induction l as [|d l IH]; cbn; [reflexivity|]. rewrite IH. reflexivity. Qed.

(* ---- lstrip / rstrip / strip *)
Lemma lstrip_idem s : lstrip_s (lstrip_s s) = lstrip_s s.
Proof.
  induction s as [|c s IH]; cbn [lstrip_s]; [reflexivity|].
  destruct (py_space c) eqn:E; [exact IH|]. cbn [lstrip_s]. rewrite E. reflexivity.
Qed.

Lemma rstrip_cons_nonspace c s : py_space c = false -> rstrip_s (String c s) = String c (rstrip_s s).
Proof. intros E. cbn [rstrip_s]. destruct (rstrip_s s); [rewrite E|]; reflexivity. Qed.

Lemma rstrip_cons_nonempty c s d r : rstrip_s s = String d r -> rstrip_s (String c s) = String c (String d r).
Proof. intros E. cbn [rstrip_s]. rewrite E. reflexivity. Qed.

Lemma rstrip_idem s : rstrip_s (rstrip_s s) = rstrip_s s.
Proof.
  induction s as [|c s IH]; [reflexivity|]. cbn [rstrip_s].
  destruct (rstrip_s s) as [|d r] eqn:R.
  - destruct (py_space c) eqn:E; [reflexivity|]. cbn [rstrip_s]. rewrite E. reflexivity.
  - apply rstrip_cons_nonempty. exact IH.
Qed.

Lemma lstrip_rstrip s : lstrip_s (rstrip_s s) = rstrip_s (lstrip_s s).
Proof.
  induction s as [|c s IH]; [reflexivity|]. cbn [lstrip_s]. destruct (py_space c) eqn:E.
  - cbn [rstrip_s]. destruct (rstrip_s s) as [|d r] eqn:R.
    + rewrite E. rewrite <- IH. reflexivity.
    + cbn [lstrip_s]. rewrite E. rewrite <- IH. reflexivity.
  - rewrite (rstrip_cons_nonspace c s E). cbn [lstrip_s]. rewrite E. reflexivity.
Qed.

Lemma strip_lstrip s : strip (lstrip_s s) = strip s.
Proof. unfold strip. rewrite lstrip_idem. reflexivity. Qed.

Lemma strip_rstrip s : strip (rstrip_s s) = strip s.
Proof. unfold strip. rewrite lstrip_rstrip, rstrip_idem. reflexivity. Qed.

Lemma strip_idem s : strip (strip s) = strip s.
Proof. unfold strip at 2. rewrite strip_rstrip, strip_lstrip. reflexivity. Qed.

Lemma strip_space_cons c s : py_space c = true -> strip (String c s) = strip s.
Proof. intros E. unfold strip. cbn [lstrip_s]. rewrite E. reflexivity. Qed.

Lemma lstrip_app_nonspace a c b : py_space c = false -> lstrip_s (a ^^ String c b) = lstrip_s a ^^ String c b.
Proof.
  intros E. induction a as [|d a IH]; cbn [String.append lstrip_s]; [rewrite E; reflexivity|].
  destruct (py_space d); [exact IH|reflexivity].
Qed.

Lemma rstrip_app_nonspace a c b : py_space c = false -> rstrip_s (a ^^ String c b) = a ^^ String c (rstrip_s b).
Proof.
  intros E. induction a as [|d a IH]; cbn [String.append]; [apply rstrip_cons_nonspace; exact E|].
  cbn [rstrip_s]. rewrite IH. destruct a; reflexivity.
Qed.

Lemma strip_app_nonspace a c b : py_space c = false -> strip (a ^^ String c b) = lstrip_s a ^^ String c (rstrip_s b).
Proof. intros E. unfold strip. rewrite lstrip_app_nonspace, rstrip_app_nonspace by exact E. reflexivity. Qed.

(* ---- characters of a string *)
Lemma forall_c_app f a b : forall_c f (a ^^ b) = forall_c f a && forall_c f b.
Proof. induction a as [|c a IH]; cbn [String.append forall_c]; [reflexivity|]. rewrite IH, andb_assoc. reflexivity. Qed.

Lemma forall_c_impl (f g : ascii -> bool) s : (forall c, f c = true -> g c = true) -> forall_c f s = true -> forall_c g s = true.
Proof.
  intros H. induction s as [|c s IH]; cbn [forall_c]; [reflexivity|]. rewrite !andb_true_iff. intros [H1 H2]. auto.
Qed.

Definition nosep (sep : ascii) (s : string) : bool := forall_c (fun c => negb (Ascii.eqb c sep)) s.

Lemma nosep_lstrip sep s : nosep sep s = true -> nosep sep (lstrip_s s) = true.
Proof.
  unfold nosep. induction s as [|c s IH]; cbn [lstrip_s forall_c]; [reflexivity|]. rewrite andb_true_iff. intros [H1 H2].
  destruct (py_space c); [auto|]. cbn [forall_c]. rewrite H1, H2. reflexivity.
Qed.

(* ---- split on the first separator *)
Lemma split_first_app sep a b : nosep sep a = true -> split_first sep (a ^^ String sep b) = Some (a, b).
Proof.
  unfold nosep. induction a as [|c a IH]; cbn [String.append split_first forall_c].
  - rewrite Ascii.eqb_refl. reflexivity.
  - rewrite andb_true_iff, negb_true_iff. intros [H1 H2]. rewrite H1, (IH H2). reflexivity.
Qed.

(* ---- split_on, structurally *)
Fixpoint splitc (sep : ascii) (s : string) : list string :=
  match s with
  | EmptyString => [EmptyString]
  | String c r => if Ascii.eqb c sep then EmptyString :: splitc sep r
                  else match splitc sep r with x :: t => String c x :: t | [] => [String c EmptyString] end
  end.

Lemma splitc_nonempty sep s : splitc sep s <> [].
Proof. destruct s as [|c s]; cbn [splitc]; [discriminate|]. destruct (Ascii.eqb c sep); [discriminate|]. destruct (splitc sep s); discriminate. Qed.

Lemma split_on_aux_splitc sep s cur :
  split_on_aux sep s cur = match splitc sep s with x :: t => (of_chars (rev cur) ^^ x) :: t | [] => [] end.
Proof.
  revert cur. induction s as [|c s IH]; intros cur; cbn [split_on_aux splitc].
  - rewrite app_nil_r_s. reflexivity.
  - destruct (Ascii.eqb c sep).
    + rewrite app_nil_r_s, IH. cbn [rev of_chars String.append]. destruct (splitc sep s); reflexivity.
    + rewrite IH. cbn [rev]. pose proof (splitc_nonempty sep s) as N. destruct (splitc sep s) as [|x t]; [congruence|].
      rewrite of_chars_app. reflexivity.
Qed.

Lemma split_on_splitc sep s : split_on sep s = splitc sep s.
Proof.
  unfold split_on. rewrite split_on_aux_splitc. cbn [rev of_chars String.append].
  pose proof (splitc_nonempty sep s). destruct (splitc sep s); [congruence|reflexivity].
Qed.

Lemma splitc_app_nosep sep a b :
  nosep sep a = true -> splitc sep (a ^^ b) = match splitc sep b with x :: t => (a ^^ x) :: t | [] => [] end.
Proof.
  unfold nosep. induction a as [|c a IH]; cbn [String.append forall_c].
  - intros _. destruct (splitc sep b); reflexivity.
  - rewrite andb_true_iff, negb_true_iff. intros [H1 H2]. cbn [splitc]. rewrite H1, (IH H2).
    pose proof (splitc_nonempty sep b). destruct (splitc sep b); [congruence|reflexivity].
Qed.

Lemma splitc_app_sep sep a b : nosep sep a = true -> splitc sep (a ^^ String sep b) = a :: splitc sep b.
Proof.
  intros H. rewrite (splitc_app_nosep sep a _ H). cbn [splitc]. rewrite Ascii.eqb_refl, app_nil_r_s. reflexivity.
Qed.

Lemma splitc_nosep sep a : nosep sep a = true -> splitc sep a = [a].
Proof. intros H. rewrite <- (app_nil_r_s a) at 1. rewrite (splitc_app_nosep sep a "" H). cbn. rewrite app_nil_r_s. reflexivity. Qed.

Lemma join_cons2 sep x y l : join sep (x :: y :: l) = x ^^ sep ^^ join sep (y :: l).
Proof. reflexivity. Qed.

Lemma splitc_join sep l :
  l <> [] -> forallb (nosep sep) l = true -> splitc sep (join (String sep "") l) = l.
Proof.
  induction l as [|x l IH]; [congruence|]. intros _. cbn [forallb]. rewrite andb_true_iff. intros [H1 H2].
  destruct l as [|y l].
  - cbn [join]. apply splitc_nosep. exact H1.
  - rewrite join_cons2. cbn [String.append]. rewrite (splitc_app_sep sep x _ H1). rewrite IH; [reflexivity|discriminate|exact H2].
Qed.

(* ---- stripping commutes with splitting on a separator that is no white space *)
Definition map_hd {A} (f : A -> A) (l : list A) : list A := match l with x :: t => f x :: t | [] => [] end.
Fixpoint map_last {A} (f : A -> A) (l : list A) : list A :=
  match l with [] => [] | [x] => [f x] | x :: t => x :: map_last f t end.

Lemma splitc_lstrip sep s : py_space sep = false -> splitc sep (lstrip_s s) = map_hd lstrip_s (splitc sep s).
Proof.
  intros S. induction s as [|c s IH]; [reflexivity|]. cbn [lstrip_s]. destruct (py_space c) eqn:E.
  - rewrite IH. cbn [splitc]. destruct (Ascii.eqb_spec c sep) as [->|N]; [congruence|].
    pose proof (splitc_nonempty sep s). destruct (splitc sep s) as [|x t]; [congruence|]. cbn [map_hd lstrip_s]. rewrite E. reflexivity.
  - cbn [splitc]. destruct (Ascii.eqb c sep); [reflexivity|].
    pose proof (splitc_nonempty sep s). destruct (splitc sep s) as [|x t]; [congruence|]. cbn [map_hd lstrip_s]. rewrite E. reflexivity.
Qed.

Lemma splitc_single_empty sep s : splitc sep s = [""] -> s = "".
Proof.
  destruct s as [|c s]; [reflexivity|]. cbn [splitc]. destruct (Ascii.eqb c sep).
  - pose proof (splitc_nonempty sep s). destruct (splitc sep s); [congruence|discriminate].
  - destruct (splitc sep s); discriminate.
Qed.

Lemma splitc_cons sep c r :
  splitc sep (String c r) = if Ascii.eqb c sep then EmptyString :: splitc sep r
                            else match splitc sep r with x :: t => String c x :: t | [] => [String c EmptyString] end.
Proof. reflexivity. Qed.

Lemma splitc_rstrip sep s : py_space sep = false -> splitc sep (rstrip_s s) = map_last rstrip_s (splitc sep s).
Proof.
  intros S. induction s as [|c s IH]; [reflexivity|].
  pose proof (splitc_nonempty sep s) as NE.
  cbn [rstrip_s]. destruct (rstrip_s s) as [|d R] eqn:ER.
  - (* everything after c is white space *)
    cbn [splitc] in IH. destruct (splitc sep s) as [|x0 t0] eqn:E0; [congruence|].
    assert (T : t0 = [] /\ rstrip_s x0 = "").
    { destruct t0 as [|y t0]; cbn [map_last] in IH; [injection IH as IH; auto|]. destruct t0; discriminate. }
    destruct T as [-> RX]. rewrite (splitc_cons sep c s), E0.
    destruct (py_space c) eqn:E.
    + destruct (Ascii.eqb_spec c sep) as [->|N]; [congruence|]. cbn [splitc map_last rstrip_s]. rewrite RX, E. reflexivity.
    + cbn [splitc]. destruct (Ascii.eqb c sep); cbn [map_last rstrip_s]; rewrite RX; [reflexivity|]. rewrite E. reflexivity.
  - rewrite (splitc_cons sep c (String d R)), (splitc_cons sep c s), IH. destruct (Ascii.eqb c sep) eqn:EC.
    + destruct (splitc sep s) as [|x0 t0]; [congruence|]. reflexivity.
    + destruct (splitc sep s) as [|x0 t0] eqn:E0; [congruence|].
      destruct t0 as [|y t0]; cbn [map_last]; [|reflexivity].
      cbn [rstrip_s]. destruct (rstrip_s x0) eqn:RX; [|reflexivity].
      (* rstrip x0 = "" would make rstrip s = "" *)
      exfalso. cbn [map_last] in IH. rewrite RX in IH. apply splitc_single_empty in IH. discriminate.
Qed.

Lemma map_strip_hd (l : list string) : map strip (map_hd lstrip_s l) = map strip l.
Proof. destruct l as [|x t]; [reflexivity|]. cbn [map_hd map]. rewrite strip_lstrip. reflexivity. Qed.

Lemma map_strip_last (l : list string) : map strip (map_last rstrip_s l) = map strip l.
Proof.
  induction l as [|x t IH]; [reflexivity|]. destruct t as [|y t]; cbn [map_last map]; [rewrite strip_rstrip; reflexivity|].
  cbn [map_last map] in IH. rewrite IH. reflexivity.
Qed.

Lemma alg_list_strip s : alg_list (strip s) = alg_list s.
Proof.
  unfold alg_list, strip. rewrite !split_on_splitc, splitc_rstrip, map_strip_last, splitc_lstrip, map_strip_hd by reflexivity. reflexivity.
Qed.

(* ------------------------------------------------------------------ name-lists written by create() come back *)
Lemma alg_list_join_strip l :
  l <> [] -> forallb (nosep c_comma) l = true -> alg_list (comma_join l) = map strip l.
Proof.
  unfold alg_list, comma_join. rewrite split_on_splitc.
  induction l as [|x l IH]; [congruence|]. intros _. cbn [forallb]. rewrite andb_true_iff. intros [H1 H2].
  destruct l as [|y l].
  - cbn [join]. rewrite (splitc_nosep _ _ H1). reflexivity.
  - rewrite join_cons2. change (x ^^ ", " ^^ join ", " (y :: l)) with (x ^^ String c_comma (String " " (join ", " (y :: l)))).
    rewrite (splitc_app_sep _ x _ H1), splitc_cons. change (Ascii.eqb " " c_comma) with false. cbv iota.
    assert (IH' := IH ltac:(discriminate) H2). pose proof (splitc_nonempty c_comma (join ", " (y :: l))) as NE.
    destruct (splitc c_comma (join ", " (y :: l))) as [|y' t']; [congruence|].
    cbn [map] in *. rewrite strip_space_cons by reflexivity. rewrite IH'. reflexivity.
Qed.

Lemma wf_name_nocomma s : wf_name s = true -> nosep c_comma s = true.
Proof.
  unfold wf_name, nosep. rewrite andb_true_iff. intros [H _]. revert H. apply forall_c_impl.
  intros c. rewrite !andb_true_iff. tauto.
Qed.

Lemma wf_name_nolf s : wf_name s = true -> no_lf s = true.
Proof.
  unfold wf_name, no_lf. rewrite andb_true_iff. intros [H _]. revert H. apply forall_c_impl.
  intros c. rewrite !andb_true_iff. tauto.
Qed.

Lemma wf_name_strip s : wf_name s = true -> strip s = s.
Proof. unfold wf_name. rewrite andb_true_iff. intros [_ H]. apply String.eqb_eq. exact H. Qed.

Lemma forallb_impl {A} (f g : A -> bool) l : (forall x, f x = true -> g x = true) -> forallb f l = true -> forallb g l = true.
Proof. intros H. rewrite !forallb_forall. auto. Qed.

Lemma wf_names_split l : wf_names l = true -> l <> [] /\ forallb wf_name l = true.
Proof. unfold wf_names. rewrite andb_true_iff. intros [H1 H2]. split; [|exact H2]. destruct l; [discriminate|discriminate]. Qed.

Lemma alg_list_roundtrip l : wf_names l = true -> alg_list (strip (comma_join l)) = l.
Proof.
  intros W. apply wf_names_split in W. destruct W as [NE W]. rewrite alg_list_strip, alg_list_join_strip.
  - clear NE. induction l as [|x l IH]; [reflexivity|]. cbn [forallb] in W. apply andb_true_iff in W. destruct W as [W1 W2].
    cbn [map]. rewrite (wf_name_strip _ W1), (IH W2). reflexivity.
  - exact NE.
  - revert W. apply forallb_impl. exact wf_name_nocomma.
Qed.

Lemma no_lf_app a b : no_lf (a ^^ b) = no_lf a && no_lf b.
Proof. apply forall_c_app. Qed.

Lemma no_lf_join l : forallb no_lf l = true -> no_lf (comma_join l) = true.
Proof.
  unfold comma_join. induction l as [|x l IH]; [reflexivity|]. cbn [forallb]. rewrite andb_true_iff. intros [H1 H2].
  destruct l as [|y l]; [exact H1|]. rewrite join_cons2, !no_lf_app, H1, (IH H2). reflexivity.
Qed.

Lemma wf_names_nolf l : wf_names l = true -> no_lf (comma_join l) = true.
Proof. intros W. apply wf_names_split in W. apply no_lf_join. revert W. intros [_ W]. revert W. apply forallb_impl. exact wf_name_nolf. Qed.

(* ------------------------------------------------------------------ quoted values *)
Lemma last_is_app X : last_is c_quote (X ^^ quote) = true.
Proof. induction X as [|c X IH]; [reflexivity|]. cbn [String.append last_is]. destruct X; [reflexivity|exact IH]. Qed.

Lemma drop_last_app X : drop_last (X ^^ quote) = X.
Proof. induction X as [|c X IH]; [reflexivity|]. cbn [String.append drop_last]. destruct X; [reflexivity|]. cbn [String.append] in *. rewrite IH. reflexivity. Qed.

Lemma unquote_quoted X : unquote (quote ^^ X ^^ quote) = Ok (unescape X).
Proof.
  unfold unquote. change (quote ^^ X ^^ quote) with (String c_quote (X ^^ quote)).
  assert (L : (String.length (String c_quote (X ^^ quote)) <? 2)%nat = false) by (destruct X; reflexivity).
  rewrite L, Ascii.eqb_refl, last_is_app, drop_last_app. reflexivity.
Qed.

Lemma strip_quoted X : strip (quote ^^ X ^^ quote) = quote ^^ X ^^ quote.
Proof.
  change (quote ^^ X ^^ quote) with ((String c_quote X) ^^ String c_quote "").
  rewrite strip_app_nonspace by reflexivity. reflexivity.
Qed.

(* ------------------------------------------------------------------ one line of the parser *)
Section Lines.
Variable loads_hk : string -> res (list (string * hkj)).
Variable loads_dh : string -> res (list (string * Z)).
Notation parse_line := (parse_line loads_hk loads_dh).
Notation parse_lines := (parse_lines loads_hk loads_dh).
Notation set_field := (set_field loads_hk loads_dh).

Lemma parse_line_blank st : parse_line st "" = Ok st.
Proof. reflexivity. Qed.

Lemma starts_hash_cons c y : starts_with "#" (String c y) = if ascii_dec "#"%char c then true else false.
Proof. unfold starts_with. cbn [String.prefix]. destruct (ascii_dec "#" c); [destruct y; reflexivity|reflexivity]. Qed.

Lemma skip_hash r : skip_line (String c_hash r) = true.
Proof. unfold skip_line, starts_with. destruct r; reflexivity. Qed.

Lemma parse_line_comment st x : parse_line st (String c_hash x) = Ok st.
Proof.
  unfold PolicyIO.parse_line, strip. change (lstrip_s (String c_hash x)) with (String c_hash x).
  rewrite rstrip_cons_nonspace by reflexivity. rewrite skip_hash. reflexivity.
Qed.

Lemma parse_line_eq st a b :
  nosep c_eq a = true -> starts_with "#" (lstrip_s a) = false ->
  parse_line st (a ^^ String c_eq b) = set_field st (strip a) (strip b).
Proof.
  intros N H. unfold PolicyIO.parse_line. rewrite strip_app_nonspace by reflexivity.
  assert (S : skip_line (lstrip_s a ^^ String c_eq (rstrip_s b)) = false).
  { unfold skip_line. destruct (lstrip_s a) as [|c r]; [reflexivity|]. cbn [String.append String.eqb orb].
    rewrite starts_hash_cons in *. exact H. }
  rewrite S, split_first_app by (apply nosep_lstrip; exact N). rewrite strip_lstrip, strip_rstrip. reflexivity.
Qed.

Lemma parse_line_kv st k v :
  nosep c_eq (k ^^ " ") = true -> starts_with "#" (lstrip_s (k ^^ " ")) = false ->
  parse_line st (kv k v) = set_field st (strip (k ^^ " ")) (strip v).
Proof.
  intros N H. unfold kv. change (k ^^ " = " ^^ v) with (k ^^ " " ^^ String c_eq (String " " v)).
  rewrite <- app_assoc_s, (parse_line_eq st _ _ N H), strip_space_cons by reflexivity. reflexivity.
Qed.

Lemma parse_lines_app l1 l2 st : parse_lines (l1 ++ l2) st = bind (parse_lines l1 st) (parse_lines l2).
Proof.
  revert st. induction l1 as [|l l1 IH]; intros st; cbn [app PolicyIO.parse_lines bind]; [reflexivity|].
  destruct (parse_line st l); cbn [bind]; [apply IH|reflexivity].
Qed.

(* the setting lines of create(), one lemma each *)
Lemma line_version st : parse_line st "version = 1" = Ok (with_pol st (set_version (st_pol st) "1")).
Proof. reflexivity. Qed.
Lemma line_subset_false st : parse_line st "allow_algorithm_subset_and_reordering = false" = Ok st.
Proof. reflexivity. Qed.
Lemma line_larger_false st : parse_line st "allow_larger_keys = false" = Ok st.
Proof. reflexivity. Qed.
Lemma line_client st : parse_line st "client policy = true" = Ok (with_pol st (set_client (st_pol st))).
Proof. reflexivity. Qed.

Lemma line_name st X : parse_line st (kv "name" (quote ^^ X ^^ quote)) = Ok (with_pol st (set_name (st_pol st) (unescape X))).
Proof.
  rewrite parse_line_kv by reflexivity. rewrite strip_quoted.
  change (strip ("name" ^^ " ")) with "name".
  change (set_field st "name" (quote ^^ X ^^ quote))
    with (bind (unquote (quote ^^ X ^^ quote)) (fun v => Ok (with_pol st (set_name (st_pol st) v)))).
  rewrite unquote_quoted. reflexivity.
Qed.

Lemma line_host_keys st l : wf_names l = true ->
  parse_line st (kv "host keys" (comma_join l)) = Ok (with_pol st (set_host_keys (st_pol st) l)).
Proof.
  intros W. rewrite parse_line_kv by reflexivity. change (strip ("host keys" ^^ " ")) with "host keys".
  change (set_field st "host keys" (strip (comma_join l)))
    with (Ok (with_pol st (set_host_keys (st_pol st) (alg_list (strip (comma_join l)))))).
  rewrite (alg_list_roundtrip l W). reflexivity.
Qed.

Lemma line_kex st l : wf_names l = true ->
  parse_line st (kv "key exchanges" (comma_join l)) = Ok (with_pol st (set_kex (st_pol st) l)).
Proof.
  intros W. rewrite parse_line_kv by reflexivity. change (strip ("key exchanges" ^^ " ")) with "key exchanges".
  change (set_field st "key exchanges" (strip (comma_join l)))
    with (Ok (with_pol st (set_kex (st_pol st) (alg_list (strip (comma_join l)))))).
  rewrite (alg_list_roundtrip l W). reflexivity.
Qed.

Lemma line_ciphers st l : wf_names l = true ->
  parse_line st (kv "ciphers" (comma_join l)) = Ok (with_pol st (set_ciphers (st_pol st) l)).
Proof.
  intros W. rewrite parse_line_kv by reflexivity. change (strip ("ciphers" ^^ " ")) with "ciphers".
  change (set_field st "ciphers" (strip (comma_join l)))
    with (Ok (with_pol st (set_ciphers (st_pol st) (alg_list (strip (comma_join l)))))).
  rewrite (alg_list_roundtrip l W). reflexivity.
Qed.

Lemma line_macs st l : wf_names l = true ->
  parse_line st (kv "macs" (comma_join l)) = Ok (with_pol st (set_macs (st_pol st) l)).
Proof.
  intros W. rewrite parse_line_kv by reflexivity. change (strip ("macs" ^^ " ")) with "macs".
  change (set_field st "macs" (strip (comma_join l)))
    with (Ok (with_pol st (set_macs (st_pol st) (alg_list (strip (comma_join l)))))).
  rewrite (alg_list_roundtrip l W). reflexivity.
Qed.

Lemma line_hk st (dumps : list (string * hkj) -> string) m :
  json_inverse dumps loads_hk -> nodup_str (keys m) = true ->
  parse_line st (kv "host_key_sizes" (dumps m)) = Ok (with_pol st (set_hostkey_sizes (st_pol st) (map_snd norm_hk m))).
Proof.
  intros J N. destruct (J m N) as (L & S & _). rewrite parse_line_kv by reflexivity. rewrite S.
  change (strip ("host_key_sizes" ^^ " ")) with "host_key_sizes".
  change (set_field st "host_key_sizes" (dumps m))
    with (bind (loads_hk (dumps m)) (fun m' => Ok (with_pol st (set_hostkey_sizes (st_pol st) (map_snd norm_hk m'))))).
  rewrite L. reflexivity.
Qed.

Lemma line_dh st (dumps : list (string * Z) -> string) m :
  json_inverse dumps loads_dh -> nodup_str (keys m) = true ->
  parse_line st (kv "dh_modulus_sizes" (dumps m)) = Ok (with_pol st (set_dh (st_pol st) m)).
Proof.
  intros J N. destruct (J m N) as (L & S & _). rewrite parse_line_kv by reflexivity. rewrite S.
  change (strip ("dh_modulus_sizes" ^^ " ")) with "dh_modulus_sizes".
  change (set_field st "dh_modulus_sizes" (dumps m))
    with (bind (loads_dh (dumps m)) (fun m' => Ok (with_pol st (set_dh (st_pol st) m')))).
  rewrite L. reflexivity.
Qed.

End Lines.

(* ------------------------------------------------------------------ create_loads: the written text loads as policy_of *)
Lemma map_snd_map_snd {A B C} (f : A -> B) (g : B -> C) l : map_snd g (map_snd f l) = map_snd (fun x => g (f x)) l.
Proof. unfold map_snd. rewrite map_map. reflexivity. Qed.

Lemma keys_map_snd {A B} (f : A -> B) l : keys (map_snd f l) = keys l.
Proof. unfold keys, map_snd. rewrite map_map. reflexivity. Qed.

Section RoundTrip.
Variable dumps_hk : list (string * hkj) -> string.
Variable dumps_dh : list (string * Z) -> string.
Variable loads_hk : string -> res (list (string * hkj)).
Variable loads_dh : string -> res (list (string * Z)).
Hypothesis Jhk : json_inverse dumps_hk loads_hk.
Hypothesis Jdh : json_inverse dumps_dh loads_dh.
Notation parse_lines := (parse_lines loads_hk loads_dh).

Lemma parse_lines_cons l r st : parse_lines (l :: r) st = bind (parse_line loads_hk loads_dh st l) (parse_lines r).
Proof. reflexivity. Qed.
Lemma bind_ok {A B} (a : A) (f : A -> res B) : bind (Ok a) f = f a.
Proof. reflexivity. Qed.
Lemma parse_lines_nil st : parse_lines [] st = Ok st.
Proof. reflexivity. Qed.

Ltac line :=
  rewrite parse_lines_cons; cbn [String.append];
  first [rewrite parse_line_comment | rewrite parse_line_blank | rewrite line_version | rewrite line_subset_false
        | rewrite line_larger_false | rewrite line_client | rewrite line_name];
  rewrite bind_ok.

Definition st_head (src today : string) (client : bool) (st : pst) : pst :=
  with_pol st (set_version (set_name (if client then set_client (st_pol st) else st_pol st) (unescape (policy_name src today))) "1").

Lemma seg_head src today client st : parse_lines (head_lines src today client) st = Ok (st_head src today client st).
Proof.
  unfold head_lines, st_head. destruct client; cbn [app]; repeat line; rewrite parse_lines_nil; reflexivity.
Qed.

Lemma seg_ignored pr st : parse_lines (ignored_lines pr) st = Ok st.
Proof. unfold ignored_lines. repeat line. rewrite parse_lines_nil. reflexivity. Qed.

Definition st_sizes (pr : peer) (st : pst) : pst :=
  let p1 := match pr_host_keys pr with [] => st_pol st | m => set_hostkey_sizes (st_pol st) (map_snd (fun h => norm_hk (trim_hk h)) m) end in
  with_pol st (match pr_dh_modulus_sizes pr with [] => p1 | m => set_dh p1 m end).

Lemma with_pol_same st : with_pol st (st_pol st) = st.
Proof. destruct st. reflexivity. Qed.

Lemma seg_sizes pr st :
  nodup_str (keys (pr_host_keys pr)) = true -> nodup_str (keys (pr_dh_modulus_sizes pr)) = true ->
  parse_lines (size_lines dumps_hk dumps_dh pr) st = Ok (st_sizes pr st).
Proof.
  intros N1 N2. unfold size_lines, st_sizes. rewrite parse_lines_app.
  destruct (pr_host_keys pr) as [|e m] eqn:E1.
  - rewrite parse_lines_nil, bind_ok. destruct (pr_dh_modulus_sizes pr) as [|e2 m2] eqn:E2.
    + rewrite parse_lines_nil, with_pol_same. reflexivity.
    + repeat line. rewrite parse_lines_cons, (line_dh loads_hk loads_dh _ dumps_dh _ Jdh N2), bind_ok, parse_lines_nil. reflexivity.
  - repeat line. rewrite parse_lines_cons.
    rewrite (line_hk loads_hk loads_dh _ dumps_hk _ Jhk) by (rewrite keys_map_snd; exact N1). rewrite bind_ok, parse_lines_nil, bind_ok.
    rewrite map_snd_map_snd. destruct (pr_dh_modulus_sizes pr) as [|e2 m2] eqn:E2.
    + rewrite parse_lines_nil. reflexivity.
    + repeat line. rewrite parse_lines_cons, (line_dh loads_hk loads_dh _ dumps_dh _ Jdh N2), bind_ok, parse_lines_nil. reflexivity.
Qed.

Definition st_algs (pr : peer) (st : pst) : pst :=
  with_pol st (set_macs (set_ciphers (set_kex (set_host_keys (st_pol st) (pr_key pr)) (pr_kex pr)) (pr_enc pr)) (pr_mac pr)).

Lemma seg_algs pr st :
  wf_names (pr_kex pr) = true -> wf_names (pr_key pr) = true -> wf_names (pr_enc pr) = true -> wf_names (pr_mac pr) = true ->
  parse_lines (alg_lines pr) st = Ok (st_algs pr st).
Proof.
  intros W1 W2 W3 W4. unfold alg_lines, st_algs. repeat line.
  rewrite parse_lines_cons, (line_host_keys loads_hk loads_dh _ _ W2), bind_ok. repeat line.
  rewrite parse_lines_cons, (line_kex loads_hk loads_dh _ _ W1), bind_ok. repeat line.
  rewrite parse_lines_cons, (line_ciphers loads_hk loads_dh _ _ W3), bind_ok. repeat line.
  rewrite parse_lines_cons, (line_macs loads_hk loads_dh _ _ W4), bind_ok. repeat line.
  rewrite parse_lines_nil. reflexivity.
Qed.

Lemma wf_peer_split pr : wf_peer pr = true ->
  no_lf (pr_banner pr) = true /\ forallb no_lf (pr_compression pr) = true /\
  wf_names (pr_kex pr) = true /\ wf_names (pr_key pr) = true /\ wf_names (pr_enc pr) = true /\ wf_names (pr_mac pr) = true /\
  nodup_str (keys (pr_host_keys pr)) = true /\ nodup_str (keys (pr_dh_modulus_sizes pr)) = true.
Proof. unfold wf_peer. rewrite !andb_true_iff. tauto. Qed.

Theorem create_lines_load src today client pr :
  wf_peer pr = true ->
  parse loads_hk loads_dh (create_lines dumps_hk dumps_dh src today client pr) = Ok (policy_of src today client pr).
Proof.
  intros W. apply wf_peer_split in W. destruct W as (_ & _ & W1 & W2 & W3 & W4 & N1 & N2).
  unfold parse, create_lines. rewrite parse_lines_app, seg_head, bind_ok, parse_lines_app, seg_ignored, bind_ok.
  rewrite parse_lines_app, (seg_sizes _ _ N1 N2), bind_ok, (seg_algs _ _ W1 W2 W3 W4), bind_ok.
  unfold policy_of, opt_map_nonempty, st_algs, st_sizes, st_head.
  destruct client, (pr_host_keys pr), (pr_dh_modulus_sizes pr); reflexivity.
Qed.

(* the text level: the lines written are the lines read *)
Lemma nosep_lf_is_no_lf s : nosep c_lf s = no_lf s.
Proof. reflexivity. Qed.

Lemma create_lines_nolf src today client pr :
  wf_text src = true -> wf_text today = true -> wf_peer pr = true ->
  forallb (nosep c_lf) (create_lines dumps_hk dumps_dh src today client pr) = true.
Proof.
  unfold wf_text. intros S T W. apply wf_peer_split in W. destruct W as (B & C & W1 & W2 & W3 & W4 & N1 & N2).
  apply wf_names_nolf in W1, W2, W3, W4. apply no_lf_join in C.
  unfold create_lines. rewrite !forallb_app. apply andb_true_iff; split; [|apply andb_true_iff; split; [|apply andb_true_iff; split]].
  - unfold head_lines, kv, policy_name. destruct client; cbn [app forallb]; rewrite !nosep_lf_is_no_lf, !no_lf_app, S, T; reflexivity.
  - unfold ignored_lines. cbn [forallb]. rewrite !nosep_lf_is_no_lf, !no_lf_app, B, C. reflexivity.
  - unfold size_lines, kv. rewrite forallb_app. apply andb_true_iff. split.
    + destruct (pr_host_keys pr) as [|e m] eqn:E; [reflexivity|]. cbn [forallb]. rewrite !nosep_lf_is_no_lf, !no_lf_app.
      destruct (Jhk (map_snd trim_hk (e :: m))) as (_ & _ & L); [rewrite keys_map_snd; exact N1|]. rewrite L. reflexivity.
    + destruct (pr_dh_modulus_sizes pr) as [|e m] eqn:E; [reflexivity|]. cbn [forallb]. rewrite !nosep_lf_is_no_lf, !no_lf_app.
      destruct (Jdh (e :: m) N2) as (_ & _ & L). rewrite L. reflexivity.
  - unfold alg_lines, kv. cbn [forallb]. rewrite !nosep_lf_is_no_lf, !no_lf_app, W1, W2, W3, W4. reflexivity.
Qed.

Theorem create_loads src today client pr :
  wf_text src = true -> wf_text today = true -> wf_peer pr = true ->
  parse_text loads_hk loads_dh (create_text dumps_hk dumps_dh src today client pr) = Ok (policy_of src today client pr).
Proof.
  intros S T W. unfold parse_text, create_text. rewrite split_on_splitc.
  change nl with (String c_lf ""). rewrite splitc_join.
  - apply create_lines_load. exact W.
  - unfold create_lines, head_lines. destruct client; discriminate.
  - apply create_lines_nolf; assumption.
Qed.

End RoundTrip.

(* ------------------------------------------------------------------ dicts with unique keys *)
Lemma assoc_nodup_In {A} (m : list (string * A)) t h : nodup_str (keys m) = true -> In (t, h) m -> assoc t m = Some h.
Proof.
  induction m as [|[k v] r IH]; cbn [keys map fst nodup_str In assoc]; [tauto|].
  rewrite andb_true_iff, negb_true_iff. intros [N1 N2] [E|H].
  - injection E as -> ->. rewrite String.eqb_refl. reflexivity.
  - destruct (String.eqb_spec t k) as [->|N]; [|apply IH; assumption].
    exfalso. apply mem_false in N1. apply N1. change (keys r) with (map fst r). apply (in_map fst _ _ H).
Qed.

Lemma assoc_In {A} (m : list (string * A)) t h : assoc t m = Some h -> In (t, h) m.
Proof.
  induction m as [|[k v] r IH]; cbn [assoc In]; [discriminate|].
  destruct (String.eqb_spec t k) as [->|N]; [intros E; injection E as ->; left; reflexivity|intros H; right; apply IH; exact H].
Qed.

Lemma nodup_keys_NoDup {A} (m : list (string * A)) : nodup_str (keys m) = true -> NoDup m.
Proof.
  induction m as [|[k v] r IH]; cbn [keys map fst nodup_str]; [constructor|].
  rewrite andb_true_iff, negb_true_iff. intros [N1 N2]. constructor; [|apply IH; exact N2].
  intros H. apply mem_false in N1. apply N1. change (keys r) with (map fst r). apply (in_map fst _ _ H).
Qed.

Lemma assoc_update_same {A} t (f : A -> A) m : assoc t (update t f m) = option_map f (assoc t m).
Proof.
  induction m as [|[k v] r IH]; cbn [update assoc option_map]; [reflexivity|].
  destruct (String.eqb_spec t k) as [->|N]; cbn [assoc]; [rewrite String.eqb_refl; reflexivity|].
  destruct (String.eqb_spec t k); [congruence|exact IH].
Qed.

Lemma assoc_update_other {A} t t' (f : A -> A) m : t' <> t -> assoc t' (update t f m) = assoc t' m.
Proof.
  intros N. induction m as [|[k v] r IH]; cbn [update assoc]; [reflexivity|].
  destruct (String.eqb_spec t k) as [->|N']; cbn [assoc].
  - destruct (String.eqb_spec t' k); [congruence|reflexivity].
  - destruct (String.eqb_spec t' k); [reflexivity|exact IH].
Qed.

Lemma In_map_snd {A B} (f : A -> B) m t e : In (t, e) (map_snd f m) <-> exists h, In (t, h) m /\ e = f h.
Proof.
  unfold map_snd. rewrite in_map_iff. split.
  - intros ([k v] & E & H). cbn [fst snd] in E. injection E as -> <-. exists v. tauto.
  - intros (h & H & ->). exists (t, h). tauto.
Qed.

Lemma opt_map_nonempty_some {A} (l m : list A) : opt_map_nonempty l = Some m -> m = l.
Proof. destruct l; cbn; [discriminate|intros E; injection E as <-; reflexivity]. Qed.

(* ------------------------------------------------------------------ sorting is a permutation *)
Lemma insert_by_perm {A} (key : A -> string) x l : Permutation (insert_by key x l) (x :: l).
Proof.
  induction l as [|y r IH]; cbn [insert_by]; [apply Permutation_refl|].
  destruct (String.ltb (key x) (key y)); [apply Permutation_refl|].
  apply perm_trans with (y :: x :: r); [apply perm_skip; exact IH|apply perm_swap].
Qed.

Lemma sort_by_perm {A} (key : A -> string) l : Permutation (sort_by key l) l.
Proof.
  unfold sort_by. apply perm_trans with (rev l); [|apply Permutation_sym, Permutation_rev].
  induction (rev l) as [|x r IH]; cbn [fold_right]; [apply perm_nil|].
  apply perm_trans with (x :: fold_right (insert_by key) [] r); [apply insert_by_perm|apply perm_skip; exact IH].
Qed.

Lemma flat_map_single {A B} (g : A -> list B) l x e :
  NoDup l -> In x l -> g x = [e] -> (forall y, In y l -> y <> x -> g y = []) -> flat_map g l = [e].
Proof.
  induction l as [|y r IH]; cbn [In flat_map]; [tauto|]. intros ND [->|H] Gx Gy.
  - rewrite Gx. inversion ND as [|? ? NI ND']; subst. cbn [app]. f_equal. apply flat_map_nil.
    intros z Hz. apply Gy; [right; exact Hz|]. intros ->. contradiction.
  - inversion ND as [|? ? NI ND']; subst. rewrite (Gy y); [|left; reflexivity|intros ->; contradiction]. cbn [app].
    apply IH; try assumption. intros z Hz. apply Gy. right. exact Hz.
Qed.

(* ------------------------------------------------------------------ the policy made from pr, evaluated *)
Definition made_hk (h : hk) : hk := norm_hk (trim_hk h).

Lemma made_hk_size h : hk_size (made_hk h) = hk_size h.
Proof. unfold made_hk, trim_hk. destruct (_ || _); reflexivity. Qed.

Lemma made_hk_cases h :
  (made_hk h = HK (hk_size h) "" 0) \/ (made_hk h = h).
Proof. unfold made_hk, trim_hk. destruct (_ || _); [left; reflexivity|right; destruct h; reflexivity]. Qed.

Lemma made_hk_has_ca h : has_ca h -> made_hk h = h.
Proof.
  intros [T S]. unfold made_hk, trim_hk. apply String.eqb_neq in T. rewrite T.
  destruct (Z.eqb_spec (hk_ca_size h) 0); [lia|]. destruct h; reflexivity.
Qed.

Lemma entry_sat_self h : hostkey_entry_sat false (made_hk h) h.
Proof.
  unfold hostkey_entry_sat, size_ok. rewrite made_hk_size. split; [reflexivity|].
  destruct (made_hk_cases h) as [E|E]; rewrite E; unfold ca_specified; cbn [hk_ca_type hk_ca_size]; [intros [C _]; congruence|tauto].
Qed.

(* the error list of evaluate for a made policy, block by block *)
Definition list_err (f : string) (pol act : list string) : list perr :=
  if negb (strs_eqb act pol) then [PErr f pol [""] act] else [].
Definition hk_block (m : list (string * hk)) (server : list (string * hk)) : list perr :=
  match m with [] => [] | _ => flat_map (hk_errs false server) (sort_by fst (map_snd made_hk m)) end.
Definition dh_block (m : list (string * Z)) (server : list (string * Z)) : list perr :=
  match m with [] => [] | _ => flat_map (dh_errs false server) (sort_by fst m) end.

Lemma made_errs src today client pr pr' :
  all_errs (policy_of src today client pr) pr' =
  list_err "Host keys" (pr_key pr) (pr_key pr') ++ hk_block (pr_host_keys pr) (pr_host_keys pr') ++
  list_err "Key exchanges" (pr_kex pr) (pr_kex pr') ++ list_err "Ciphers" (pr_enc pr) (pr_enc pr') ++
  list_err "MACs" (pr_mac pr) (pr_mac pr') ++ dh_block (pr_dh_modulus_sizes pr) (pr_dh_modulus_sizes pr').
Proof.
  unfold all_errs, banner_errs, compression_errs, host_keys_errs, hostkey_sizes_errs, kex_errs, list_errs, dh_all_errs, policy_of,
    pruned_host_keys, list_err, hk_block, dh_block, opt_map_nonempty, E, none_list, made_hk.
  cbn [p_banner p_compressions p_host_keys p_optional_host_keys p_kex p_ciphers p_macs p_hostkey_sizes p_dh_modulus_sizes p_subset p_larger app].
  destruct (pr_host_keys pr), (pr_dh_modulus_sizes pr); reflexivity.
Qed.

Lemma list_err_same f l : list_err f l l = [].
Proof. unfold list_err. assert (strs_eqb l l = true) as -> by (apply strs_eqb_eq; reflexivity). reflexivity. Qed.

Lemma list_err_diff f l l' : l <> l' -> list_err f l l' = [PErr f l [""] l'].
Proof.
  intros N. unfold list_err. assert (negb (strs_eqb l' l) = true) as -> by (apply strs_eqb_neq; congruence). reflexivity.
Qed.

Lemma hk_block_same m : nodup_str (keys m) = true -> hk_block m m = [].
Proof.
  intros N. unfold hk_block. destruct m as [|e0 m0] eqn:Em; [reflexivity|]. rewrite <- Em in *. clear Em e0 m0.
  apply flat_map_nil. intros [t e] H. apply sort_by_In, In_map_snd in H. destruct H as (h & H & ->).
  apply hk_errs_nil. intros a Ha. rewrite (assoc_nodup_In m t h N H) in Ha. injection Ha as <-. apply entry_sat_self.
Qed.

Lemma dh_block_same m : nodup_str (keys m) = true -> dh_block m m = [].
Proof.
  intros N. unfold dh_block. destruct m as [|e0 m0] eqn:Em; [reflexivity|]. rewrite <- Em in *. clear Em e0 m0.
  apply flat_map_nil. intros [t e] H. apply sort_by_In in H.
  apply dh_errs_nil. intros a Ha. rewrite (assoc_nodup_In m t e N H) in Ha. injection Ha as <-. reflexivity.
Qed.

Theorem create_passes src today client pr :
  nodup_str (keys (pr_host_keys pr)) = true -> nodup_str (keys (pr_dh_modulus_sizes pr)) = true ->
  evaluate (policy_of src today client pr) pr = (true, []).
Proof.
  intros N1 N2. rewrite evaluate_eq, made_errs, !list_err_same, (hk_block_same _ N1), (dh_block_same _ N2). reflexivity.
Qed.

(* the same through C06's specification: the made policy is satisfied by its peer *)
Theorem create_satisfies src today client pr :
  nodup_str (keys (pr_host_keys pr)) = true -> nodup_str (keys (pr_dh_modulus_sizes pr)) = true ->
  satisfies (policy_of src today client pr) pr.
Proof. intros N1 N2. apply evaluate_correct. rewrite (create_passes _ _ _ _ N1 N2). reflexivity. Qed.

(* ---- one entry of a size map changed *)
Lemma hk_block_one m t h h' e :
  nodup_str (keys m) = true -> assoc t m = Some h ->
  hk_errs false (update t (fun _ => h') m) (t, made_hk h) = [e] ->
  hk_block m (update t (fun _ => h') m) = [e].
Proof.
  intros N A G. unfold hk_block. destruct m as [|e0 m0] eqn:Em; [discriminate|]. rewrite <- Em in *. clear Em e0 m0.
  assert (ND : NoDup (map_snd made_hk m)) by (apply nodup_keys_NoDup; rewrite keys_map_snd; exact N).
  apply (flat_map_single _ _ (t, made_hk h)).
  - exact (Permutation_NoDup (Permutation_sym (sort_by_perm fst _)) ND).
  - apply sort_by_In, In_map_snd. exists h. split; [apply assoc_In; exact A|reflexivity].
  - exact G.
  - intros [t0 e0] H Ne. apply sort_by_In, In_map_snd in H. destruct H as (h0 & H & ->).
    assert (Nt : t0 <> t).
    { intros ->. apply Ne. rewrite (assoc_nodup_In m t h0 N H) in A. injection A as ->. reflexivity. }
    apply hk_errs_nil. intros a Ha. rewrite (assoc_update_other _ _ _ _ Nt), (assoc_nodup_In m t0 h0 N H) in Ha.
    injection Ha as <-. apply entry_sat_self.
Qed.

Lemma dh_block_one m t s s' :
  nodup_str (keys m) = true -> assoc t m = Some s -> s' <> s ->
  dh_block m (update t (fun _ => s') m) = [PErr ("Group exchange (" ^^ t ^^ ") modulus sizes") [z_dec s] [""] [z_dec s']].
Proof.
  intros N A D. unfold dh_block. destruct m as [|e0 m0] eqn:Em; [discriminate|]. rewrite <- Em in *. clear Em e0 m0.
  apply (flat_map_single _ _ (t, s)).
  - exact (Permutation_NoDup (Permutation_sym (sort_by_perm fst _)) (nodup_keys_NoDup _ N)).
  - apply sort_by_In, assoc_In. exact A.
  - unfold dh_errs. rewrite assoc_update_same, A. cbn [option_map]. unfold size_bad. cbn [andb orb negb].
    destruct (Z.eqb_spec s' s); [congruence|]. reflexivity.
  - intros [t0 s0] H Ne. apply sort_by_In in H.
    assert (Nt : t0 <> t).
    { intros ->. apply Ne. rewrite (assoc_nodup_In m t s0 N H) in A. injection A as ->. reflexivity. }
    apply dh_errs_nil. intros a Ha. rewrite (assoc_update_other _ _ _ _ Nt), (assoc_nodup_In m t0 s0 N H) in Ha.
    injection Ha as <-. reflexivity.
Qed.

Lemma size_bad_exact a e : size_bad false a e = negb (a =? e).
Proof. reflexivity. Qed.

Theorem drift_fails src today client pr pr' e :
  nodup_str (keys (pr_host_keys pr)) = true -> nodup_str (keys (pr_dh_modulus_sizes pr)) = true ->
  drift pr pr' e -> evaluate (policy_of src today client pr) pr' = (false, [e]).
Proof.
  intros N1 N2 D. rewrite evaluate_eq, made_errs.
  destruct D as [l' Hl|l' Hl|l' Hl|l' Hl|t h s' A Hs|t h s' A C Hs|t h ty' A C Ht|t s s' A Hs];
    cbn [with_kex with_key with_enc with_mac with_host_keys with_dh pr_kex pr_key pr_enc pr_mac pr_host_keys pr_dh_modulus_sizes].
  - rewrite (list_err_diff _ _ _ Hl), !list_err_same, (hk_block_same _ N1), (dh_block_same _ N2). reflexivity.
  - rewrite (list_err_diff _ _ _ Hl), !list_err_same, (hk_block_same _ N1), (dh_block_same _ N2). reflexivity.
  - rewrite (list_err_diff _ _ _ Hl), !list_err_same, (hk_block_same _ N1), (dh_block_same _ N2). reflexivity.
  - rewrite (list_err_diff _ _ _ Hl), !list_err_same, (hk_block_same _ N1), (dh_block_same _ N2). reflexivity.
  - (* host key size *)
    rewrite !list_err_same, (dh_block_same _ N2).
    rewrite (hk_block_one _ t h _ (PErr ("Host key (" ^^ t ^^ ") sizes") [z_dec (hk_size h)] [""] [z_dec s']) N1 A); [reflexivity|].
    unfold hk_errs. rewrite assoc_update_same, A. cbn [option_map hk_size hk_ca_type hk_ca_size].
    rewrite made_hk_size, !size_bad_exact. destruct (Z.eqb_spec s' (hk_size h)); [congruence|]. cbn [negb].
    destruct (made_hk_cases h) as [Eh|Eh]; rewrite Eh; cbn [hk_ca_type hk_ca_size].
    + reflexivity.
    + rewrite String.eqb_refl, Z.eqb_refl. cbn [negb]. destruct (negb _ && _); reflexivity.
  - (* CA size *)
    rewrite !list_err_same, (dh_block_same _ N2).
    rewrite (hk_block_one _ t h _ (PErr ("CA signature size (" ^^ hk_ca_type h ^^ ")") [z_dec (hk_ca_size h)] [""] [z_dec s']) N1 A); [reflexivity|].
    unfold hk_errs. rewrite assoc_update_same, A, (made_hk_has_ca h C). cbn [option_map hk_size hk_ca_type hk_ca_size].
    rewrite !size_bad_exact, Z.eqb_refl, String.eqb_refl. destruct C as [C1 C2].
    apply String.eqb_neq in C1. rewrite C1. apply Z.ltb_lt in C2. rewrite C2.
    destruct (Z.eqb_spec s' (hk_ca_size h)); [congruence|]. reflexivity.
  - (* CA type *)
    rewrite !list_err_same, (dh_block_same _ N2).
    rewrite (hk_block_one _ t h _ (PErr "CA signature type" [hk_ca_type h] [""] [ty']) N1 A); [reflexivity|].
    unfold hk_errs. rewrite assoc_update_same, A, (made_hk_has_ca h C). cbn [option_map hk_size hk_ca_type hk_ca_size].
    rewrite !size_bad_exact, Z.eqb_refl. destruct C as [C1 C2].
    apply String.eqb_neq in C1. rewrite C1. apply Z.ltb_lt in C2. rewrite C2.
    apply String.eqb_neq in Ht. rewrite Ht. reflexivity.
  - (* group-exchange modulus *)
    rewrite !list_err_same, (hk_block_same _ N1), (dh_block_one _ t s s' N2 A Hs). reflexivity.
Qed.

(* the statement's three list perturbations are drifts *)
Theorem list_drift_neq l l' : list_drift l l' -> l <> l'.
Proof.
  intros [l1 x l2|l1 x l2|a b _ N]; [| |exact N]; intros E; apply (f_equal (@List.length string)) in E;
    rewrite !app_length in E; cbn [List.length] in E; lia.
Qed.

(* the property in one statement: what -M writes loads, passes on its target, and fails on every drift naming the field *)
Theorem made_policy_guards src today client pr dumps_hk dumps_dh loads_hk loads_dh :
  json_inverse dumps_hk loads_hk -> json_inverse dumps_dh loads_dh ->
  wf_text src = true -> wf_text today = true -> wf_peer pr = true ->
  exists p, parse_text loads_hk loads_dh (create_text dumps_hk dumps_dh src today client pr) = Ok p /\
            evaluate p pr = (true, []) /\
            forall pr' e, drift pr pr' e -> evaluate p pr' = (false, [e]).
Proof.
  intros J1 J2 S T W. exists (policy_of src today client pr).
  pose proof (wf_peer_split pr W) as (_ & _ & _ & _ & _ & _ & N1 & N2).
  split; [apply create_loads; assumption|]. split; [apply create_passes; assumption|].
  intros pr' e D. apply drift_fails; assumption.
Qed.

(* ------------------------------------------------------------------ built-in policies *)
From VGen Require Import Tables.

Theorem builtin_self_pass : forallb (fun r => passes (policy_of_raw r) (peer_of_raw r)) builtin_policies = true.
Proof. vm_compute. reflexivity. Qed.

Theorem builtin_self_pass_with_optional : forallb (fun r => passes (policy_of_raw r) (peer_of_raw_all r)) builtin_policies = true.
Proof. vm_compute. reflexivity. Qed.

Theorem builtin_nonempty : (0 < List.length builtin_policies)%nat.
Proof. vm_compute. lia. Qed.
