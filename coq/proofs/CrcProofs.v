(* SSH-1 CRC-32 (ssh1_crc32.py): the table-driven byte step equals eight steps of the bit-serial shift register,
   for every register value and every byte; hence the checksum of every byte string is the bit-serial CRC. *)
From Coq Require Import Lia ZifyBool.
From VGen Require Import Tables.
From VModel Require Import Wire.
Open Scope list_scope. Open Scope Z_scope.

Lemma land1_cases a : Z.land a 1 = 0 \/ Z.land a 1 = 1.
Proof.
  change 1 with (Z.ones 1) at 1 2. rewrite Z.land_ones by lia.
  change (2 ^ 1) with 2. pose proof (Z.mod_pos_bound a 2). lia.
Qed.

Lemma land1_lxor a b : Z.land (Z.lxor a b) 1 = Z.lxor (Z.land a 1) (Z.land b 1).
Proof.
  apply Z.bits_inj'. intros i Hi.
  rewrite Z.land_spec, !Z.lxor_spec, !Z.land_spec.
  destruct (Z.testbit a i), (Z.testbit b i), (Z.testbit 1 i); reflexivity.
Qed.

Lemma bit_mul_lxor x y p :
  (x = 0 \/ x = 1) -> (y = 0 \/ y = 1) -> Z.lxor x y * p = Z.lxor (x * p) (y * p).
Proof.
  intros [-> | ->] [-> | ->]; cbn [Z.lxor]; rewrite ?Z.mul_0_l, ?Z.mul_1_l, ?Z.lxor_0_l, ?Z.lxor_0_r, ?Z.lxor_nilpotent; reflexivity.
Qed.

Lemma lxor4 a b c d : Z.lxor (Z.lxor a b) (Z.lxor c d) = Z.lxor (Z.lxor a c) (Z.lxor b d).
Proof.
  rewrite !Z.lxor_assoc. f_equal. rewrite <- !Z.lxor_assoc. f_equal. apply Z.lxor_comm.
Qed.

(* the shift register is linear over GF(2) in (register, input) *)
Lemma crc_bits_linear k : forall c1 n1 c2 n2,
  crc_bits k (Z.lxor c1 c2) (Z.lxor n1 n2) = Z.lxor (crc_bits k c1 n1) (crc_bits k c2 n2).
Proof.
  induction k as [|k IH]; intros c1 n1 c2 n2; cbn [crc_bits]; [reflexivity|].
  rewrite <- IH. f_equal.
  - rewrite (lxor4 c1 c2 n1 n2), land1_lxor.
    rewrite (bit_mul_lxor _ _ crc_poly (land1_cases _) (land1_cases _)).
    rewrite Z.shiftr_lxor. apply lxor4.
  - apply Z.shiftr_lxor.
Qed.

(* a register whose low k bits are clear, with a zero input, is only shifted *)
Lemma crc_bits_high k : forall c, Z.land c (Z.ones (Z.of_nat k)) = 0 -> crc_bits k c 0 = Z.shiftr c (Z.of_nat k).
Proof.
  induction k as [|k IH]; intros c H; cbn [crc_bits].
  - rewrite Z.shiftr_0_r. reflexivity.
  - assert (Hb : forall i, 0 <= i < Z.of_nat (S k) -> Z.testbit c i = false).
    { intros i Hi. pose proof (f_equal (fun z => Z.testbit z i) H) as E. cbn beta in E.
      rewrite Z.land_spec, Z.testbit_0_l in E. rewrite Z.testbit_ones_nonneg in E by lia.
      replace (i <? Z.of_nat (S k)) with true in E by lia.
      rewrite Bool.andb_true_r in E. exact E. }
    rewrite Z.lxor_0_r.
    assert (E0 : Z.land c 1 = 0).
    { apply Z.bits_inj'. intros i Hi. rewrite Z.land_spec, Z.testbit_0_l.
      destruct (Z.eq_dec i 0) as [-> | Hn].
      - rewrite Hb by lia. reflexivity.
      - change 1 with (Z.ones 1). rewrite Z.testbit_ones_nonneg by lia.
        replace (i <? 1) with false by lia. apply Bool.andb_false_r. }
    rewrite E0, Z.mul_0_l, Z.lxor_0_r. change (Z.shiftr 0 1) with 0.
    rewrite IH.
    + rewrite Z.shiftr_shiftr by lia. f_equal. lia.
    + apply Z.bits_inj'. intros i Hi. rewrite Z.land_spec, Z.testbit_0_l, Z.shiftr_spec by lia.
      destruct (Z.ltb_spec i (Z.of_nat k)) as [Hlt | Hge].
      * rewrite Hb by lia. reflexivity.
      * rewrite Z.testbit_ones_nonneg by lia. replace (i <? Z.of_nat k) with false by lia. apply Bool.andb_false_r.
Qed.

(* equal register and input cancel: only the shift remains *)
Lemma crc_bits_same k : forall c, crc_bits k c c = Z.shiftr c (Z.of_nat k).
Proof.
  induction k as [|k IH]; intros c; cbn [crc_bits].
  - rewrite Z.shiftr_0_r. reflexivity.
  - rewrite Z.lxor_nilpotent. change (Z.land 0 1) with 0. rewrite Z.mul_0_l, Z.lxor_0_r, IH.
    rewrite Z.shiftr_shiftr by lia. f_equal. lia.
Qed.

Lemma split_low8 c : c = Z.lxor (Z.ldiff c 255) (Z.land c 255).
Proof.
  apply Z.bits_inj'. intros i Hi. rewrite Z.lxor_spec, Z.ldiff_spec, Z.land_spec.
  destruct (Z.testbit c i), (Z.testbit 255 i); reflexivity.
Qed.

Lemma ldiff_low8_clear c : Z.land (Z.ldiff c 255) (Z.ones 8) = 0.
Proof.
  apply Z.bits_inj'. intros i Hi. rewrite Z.land_spec, Z.ldiff_spec, Z.testbit_0_l.
  change (Z.ones 8) with 255. destruct (Z.testbit c i), (Z.testbit 255 i); reflexivity.
Qed.

Lemma shiftr8_ldiff c : Z.shiftr (Z.ldiff c 255) 8 = Z.shiftr c 8.
Proof.
  apply Z.bits_inj'. intros i Hi. rewrite !Z.shiftr_spec, Z.ldiff_spec by lia.
  change 255 with (Z.ones 8). rewrite Z.testbit_ones_nonneg by lia.
  replace (i + 8 <? 8) with false by lia. apply Bool.andb_true_r.
Qed.

Lemma low8_bound a : 0 <= Z.land a 255 < 256.
Proof. change 255 with (Z.ones 8). rewrite Z.land_ones by lia. apply Z.mod_pos_bound. lia. Qed.

Lemma lxor_byte_bound a b : 0 <= a < 256 -> 0 <= b < 256 -> 0 <= Z.lxor a b < 256.
Proof.
  intros Ha Hb.
  assert (E : Z.lxor a b = Z.land (Z.lxor a b) 255).
  { apply Z.bits_inj'. intros i Hi. rewrite Z.land_spec, Z.lxor_spec.
    change 255 with (Z.ones 8). rewrite Z.testbit_ones_nonneg by lia.
    destruct (Z.ltb_spec i 8) as [Hlt | Hge]; [rewrite Bool.andb_true_r; reflexivity|].
    assert (Ta : Z.testbit a i = false).
    { destruct (Z.eq_dec a 0) as [-> | Hn]; [apply Z.testbit_0_l|]. apply Z.bits_above_log2; [lia|].
      assert (Z.log2 a < 8) by (apply Z.log2_lt_pow2; lia). lia. }
    assert (Tb : Z.testbit b i = false).
    { destruct (Z.eq_dec b 0) as [-> | Hn]; [apply Z.testbit_0_l|]. apply Z.bits_above_log2; [lia|].
      assert (Z.log2 b < 8) by (apply Z.log2_lt_pow2; lia). lia. }
    rewrite Ta, Tb. reflexivity. }
  rewrite E. apply low8_bound.
Qed.

Lemma shiftr8_byte a : 0 <= a < 256 -> Z.shiftr a 8 = 0.
Proof. intros H. rewrite Z.shiftr_div_pow2 by lia. change (2 ^ 8) with 256. apply Z.div_small. lia. Qed.

(* eight bit steps, decomposed: the high part is shifted, the low byte mixes with the input *)
Lemma crc_bits8_decompose crc b :
  crc_bits 8 crc b = Z.lxor (Z.shiftr crc 8) (crc_bits 8 0 (Z.lxor b (Z.land crc 255))).
Proof.
  set (lo := Z.land crc 255). set (hi := Z.ldiff crc 255).
  assert (Ec : crc = Z.lxor hi lo) by apply split_low8.
  rewrite Ec at 1. rewrite <- (Z.lxor_0_l b) at 1.
  rewrite crc_bits_linear.
  rewrite (crc_bits_high 8 hi (ldiff_low8_clear crc)). change (Z.of_nat 8) with 8.
  unfold hi. rewrite shiftr8_ldiff. f_equal.
  (* crc_bits 8 lo b = crc_bits 8 0 (b xor lo): add the cancelling pair (lo, lo) *)
  assert (E : crc_bits 8 lo b = Z.lxor (crc_bits 8 0 (Z.lxor b lo)) (crc_bits 8 lo lo)).
  { rewrite <- crc_bits_linear. rewrite Z.lxor_0_l. f_equal.
    rewrite Z.lxor_assoc, Z.lxor_nilpotent, Z.lxor_0_r. reflexivity. }
  rewrite E, crc_bits_same. change (Z.of_nat 8) with 8.
  rewrite (shiftr8_byte lo (low8_bound crc)), Z.lxor_0_r. reflexivity.
Qed.

Lemma crc_table_nth n : 0 <= n < 256 -> nth (Z.to_nat n) crc_table 0 = crc_bits 8 0 n.
Proof.
  intros H. unfold crc_table.
  rewrite (nth_indep _ 0 (crc_bits 8 0 (Z.of_nat 0))) by (rewrite map_length, seq_length; lia).
  rewrite (map_nth (fun i => crc_bits 8 0 (Z.of_nat i))), seq_nth by lia.
  cbn [Nat.add]. rewrite Z2Nat.id by lia. reflexivity.
Qed.

(* the table-driven byte step of SSH1_CRC32.calc is eight bit-serial steps, for every register value and byte *)
Theorem crc_step_is_bitserial : forall crc b, 0 <= b < 256 -> crc_step crc b = crc_step_bits crc b.
Proof.
  intros crc b Hb. unfold crc_step, crc_step_bits. cbv zeta.
  rewrite crc_table_nth by (apply lxor_byte_bound; [exact Hb | apply low8_bound]).
  symmetry. apply crc_bits8_decompose.
Qed.

Theorem crc_calc_is_bitserial : forall v, Forall (fun b => 0 <= b < 256) v -> crc_calc v = fold_left crc_step_bits v 0.
Proof.
  intros v H. unfold crc_calc.
  assert (G : forall acc, fold_left crc_step v acc = fold_left crc_step_bits v acc).
  { induction v as [|b v IH]; intros acc; cbn [fold_left]; [reflexivity|].
    inversion H as [|? ? Hb Hv]; subst. rewrite crc_step_is_bitserial by exact Hb. apply IH. exact Hv. }
  apply G.
Qed.

(* the register stays within 32 bits (what struct.pack('>I') needs in write_packet for SSH-1) *)
Lemma crc_bits_bound k : forall c n, 0 <= c < 2 ^ 32 -> 0 <= crc_bits k c n < 2 ^ 32.
Proof.
  induction k as [|k IH]; intros c n H; cbn [crc_bits]; [exact H|].
  apply IH.
  assert (Hs : 0 <= Z.shiftr c 1 < 2 ^ 31).
  { rewrite Z.shiftr_div_pow2 by lia. change (2 ^ 1) with 2. split; [apply Z.div_pos; lia|]. apply Z.div_lt_upper_bound; lia. }
  destruct (land1_cases (Z.lxor c n)) as [-> | ->].
  - rewrite Z.mul_0_l, Z.lxor_0_r. lia.
  - rewrite Z.mul_1_l. split.
    + apply Z.lxor_nonneg. unfold crc_poly. lia.
    + assert (Hl : forall x, 0 <= x < 2 ^ 32 -> x = 0 \/ Z.log2 x < 32).
      { intros x Hx. destruct (Z.eq_dec x 0); [left; assumption | right; apply Z.log2_lt_pow2; lia]. }
      destruct (Z.eq_dec (Z.lxor (Z.shiftr c 1) crc_poly) 0) as [-> | Hn]; [lia|].
      apply Z.log2_lt_pow2.
      * pose proof (proj2 (Z.lxor_nonneg (Z.shiftr c 1) crc_poly)). unfold crc_poly in *. lia.
      * eapply Z.le_lt_trans; [apply Z.log2_lxor; unfold crc_poly; lia|].
        apply Z.max_lub_lt.
        -- destruct (Hl (Z.shiftr c 1)) as [-> | ?]; [lia | cbn; lia | lia].
        -- unfold crc_poly. cbn. lia.
Qed.

Theorem crc_calc_u32 : forall v, Forall (fun b => 0 <= b < 256) v -> 0 <= crc_calc v < 2 ^ 32.
Proof.
  intros v H. rewrite crc_calc_is_bitserial by exact H.
  assert (G : forall acc, 0 <= acc < 2 ^ 32 -> 0 <= fold_left crc_step_bits v acc < 2 ^ 32).
  { clear H. induction v as [|b v IH]; intros acc Ha; cbn [fold_left]; [exact Ha|].
    apply IH. unfold crc_step_bits. apply crc_bits_bound. exact Ha. }
  apply G. lia.
Qed.

(* the table the implementation builds at import time (dumped by the translator on every run) is the model's table: all 256 entries *)
Theorem py_crc_table_is_model_table : py_crc_table = crc_table.
Proof. vm_compute. reflexivity. Qed.
