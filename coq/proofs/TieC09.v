(* C09: every literal / integer kernel that the hand-written model repeats from the Python source is proved equal to the copy the
   translator extracts from the current source on every run (gen/Tables.v, definitions whose names start with src_).  When the source changes there, the generated
   definition changes (or is left out when the shape is no longer recognised) and this file stops compiling: the model cannot go stale silently,
   and only this property's check is affected. *)
From Coq Require Import ZArith List String Bool Lia ZifyBool.
From VGen Require Import Tables.
From VModel Require Import AuditSM.
Open Scope string_scope. Open Scope list_scope.

Lemma tie_protocol_mismatch : protocol_mismatch_text = str_bytes src_protocol_mismatch_text.
Proof. reflexivity. Qed.

(* audit(): the decisions on the first packet as they read now (T1c translation): the automatic SSH-1 retry after the protocol-mismatch text, and which message
   type is an error for which protocol version; the model's classify takes exactly those branches *)
Lemma tie_ssh1_retry : forall e sshv a,
  (zs_eqb e protocol_mismatch_text && (sshv =? 2)%Z && a) = src_ssh1_retry (zs_eqb e protocol_mismatch_text) sshv a.
Proof. intros. unfold src_ssh1_retry. rewrite andb_assoc. reflexivity. Qed.
Lemma tie_classify_error_packet : forall sshv a e,
  classify sshv a (PktErr e) = if src_ssh1_retry (zs_eqb e protocol_mismatch_text) sshv a then ApFallbackSsh1 else ApExit1.
Proof. intros. cbn [classify]. rewrite tie_ssh1_retry. reflexivity. Qed.
Lemma tie_classify_wrong_type : forall sshv a t payload, (sshv = 1 \/ sshv = 2)%Z ->
  src_first_packet_wrong_type sshv t = true -> classify sshv a (PktOk t payload) = ApExit1.
Proof.
  intros sshv a t payload Hv H. unfold src_first_packet_wrong_type in H. cbv zeta in H. cbn [classify].
  destruct Hv as [-> | ->]; cbn [Z.eqb Pos.eqb andb] in *.
  - destruct (negb (t =? proto_SMSG_PUBLIC_KEY)%Z); [reflexivity|discriminate].
  - destruct (negb (t =? proto_MSG_KEXINIT)%Z); [reflexivity|discriminate].
Qed.
Lemma tie_classify_right_type : forall sshv a t payload, (sshv = 1 \/ sshv = 2)%Z ->
  src_first_packet_wrong_type sshv t = false ->
  classify sshv a (PktOk t payload) =
  if (sshv =? 1)%Z then match parse_pkm payload with Ok (m, _) => ApPkm m | Raise _ => ApExit1 end
  else match parse_kexinit payload with Ok (k, _) => ApKex k | Raise _ => ApExit1 end.
Proof.
  intros sshv a t payload Hv H. unfold src_first_packet_wrong_type in H. cbv zeta in H. cbn [classify].
  destruct Hv as [-> | ->]; cbn [Z.eqb Pos.eqb andb] in *.
  - destruct (negb (t =? proto_SMSG_PUBLIC_KEY)%Z); [discriminate|reflexivity].
  - destruct (negb (t =? proto_MSG_KEXINIT)%Z); [discriminate|reflexivity].
Qed.
