(* C13: every literal / integer kernel that the hand-written model repeats from the Python source is proved equal to the copy the
   translator extracts from the current source on every run (gen/Tables.v, definitions whose names start with src_).  When the source changes there, the generated
   definition changes (or is left out when the shape is no longer recognised) and this file stops compiling: the model cannot go stale silently,
   and only this property's check is affected. *)
From Coq Require Import ZArith List String Bool Lia ZifyBool.
From VGen Require Import Tables.
From VModel Require Import Recs.
Open Scope string_scope. Open Scope list_scope.

Lemma tie_chg_note : chg_notes = src_chg_note.
Proof. reflexivity. Qed.

(* T1c: the decisions of the recommendation pass as they read now - fault points of an entry, the never-add test, the version filter's skip conditions,
   level thresholds, the change note, category and action order - translated from the current source and equal to what the model computes *)
Definition action_text (a : action) : string := match a with Add => "add" | Del => "del" | Chg => "chg" end.
Definition rlevel_text (l : rlevel) : string := match l with Critical => "critical" | Warning => "warning" | Informational => "informational" end.

Lemma tie_rec_faults : forall e : desc,
  faults_of e = src_rec_faults (Z.of_nat (List.length e)) (Z.of_nat (List.length (nth 1 e []))) (Z.of_nat (List.length (nth 2 e []))).
Proof.
  intros e. unfold faults_of, src_rec_faults. cbv zeta. rewrite !negb_involutive, !Z.gtb_ltb.
  change (Z.pow 10 (2 - 1)) with 10%Z. change (Z.pow 10 (2 - 2)) with 1%Z.
  destruct e as [|a [|b [|c r]]]; cbn [nth List.length]; try reflexivity.
  - (* one component more than the versions *)
    change (1 <? Z.of_nat 2)%Z with true. change (2 <? Z.of_nat 2)%Z with false. cbv iota.
    destruct (0 <? Z.of_nat (List.length b))%Z eqn:E; [lia|apply Z.ltb_ge in E; lia].
  - assert (H1: (1 <? Z.of_nat (S (S (S (List.length r)))))%Z = true) by (apply Z.ltb_lt; lia).
    assert (H2: (2 <? Z.of_nat (S (S (S (List.length r)))))%Z = true) by (apply Z.ltb_lt; lia).
    rewrite H1, H2. cbv iota.
    destruct (0 <? Z.of_nat (List.length b))%Z eqn:E; destruct (0 <? Z.of_nat (List.length c))%Z eqn:F;
      try apply Z.ltb_ge in E; try apply Z.ltb_ge in F; lia.
Qed.
Lemma tie_rec_skip_add : forall faults cat n empty_version,
  ((0 <? faults)%Z || never_add cat n || empty_version) = src_rec_skip_add faults cat n empty_version.
Proof.
  intros. unfold src_rec_skip_add, never_add. rewrite Z.gtb_ltb.
  destruct (0 <? faults)%Z; destruct (String.eqb cat "key"); destruct (String.eqb cat "kex"); destruct empty_version;
    destruct (match index 0 "-cert-" n with Some _ => true | None => false end); destruct (starts_with "sk-" n);
    destruct (starts_with "ext-info-" n); destruct (starts_with "kex-strict-" n); reflexivity.
Qed.
(* one token of the first-appeared string counts for the identified software unless one of the four `continue` conditions holds *)
Lemma tie_rec_token : forall (s : software) for_server v cmp,
  sw_available s (snd (fst (ssh_version v))) = (0 <=? cmp)%Z ->
  (match ssh_version v with
   | (prod, ver, cli) => negb (String.eqb ver "") && String.eqb prod (sw_product s) && negb (cli && for_server) && sw_available s ver
   end) = negb (src_rec_token_skipped (fst (fst (ssh_version v))) (snd (fst (ssh_version v))) (snd (ssh_version v)) for_server true (sw_product s) cmp).
Proof.
  intros s fs v cmp H. destruct (ssh_version v) as [[prod ver] cli]. cbn [fst snd] in *. unfold src_rec_token_skipped. rewrite H.
  destruct (String.eqb ver ""); destruct (String.eqb prod (sw_product s)); destruct cli; destruct fs; cbn [andb orb negb];
    try reflexivity; destruct (0 <=? cmp)%Z eqn:E; destruct (cmp <? 0)%Z eqn:F; try reflexivity; lia.
Qed.
Lemma tie_rec_level : forall p, rlevel_text (level_of_points p) = src_rec_level p.
Proof.
  intros p. unfold level_of_points, src_rec_level. cbv zeta. rewrite !Z.geb_leb.
  destruct (10 <=? p)%Z; [reflexivity|]. destruct (1 <=? p)%Z; reflexivity.
Qed.
Lemma tie_rec_notes : forall a, (match a with Chg => chg_notes | _ => "" end) = src_rec_notes (action_text a).
Proof. intros [| |]; reflexivity. Qed.
Lemma tie_rec_orders : map action_text [Del; Add; Chg] = src_rec_actions /\ ["kex"; "key"; "enc"; "mac"] = src_rec_categories.
Proof. split; reflexivity. Qed.

(* the translator found the source shape it extracts recommendation_lists from (otherwise gen/Tables.v carries fallback values and this lemma fails) *)
Lemma tie_extract_ok_recommendation_lists : extract_ok_recommendation_lists = true.
Proof. reflexivity. Qed.
