(* Proofs about PolicyM (policy.py evaluate / _get_errors).  Used by props/C06.v. *)
From Coq Require Import Lia ZifyBool.
From VModel Require Import PolicyM.
Open Scope string_scope. Open Scope list_scope. Open Scope Z_scope.
Local Infix "^^" := String.append (right associativity, at level 60).

(* ------------------------------------------------------------------ boolean reflection *)
Lemma mem_In x l : mem x l = true <-> In x l.
Proof.
  induction l as [|y r IH]; cbn [mem In]; [split; [discriminate|tauto]|].
  destruct (String.eqb_spec x y) as [->|N]; [tauto|].
  rewrite IH. split; [tauto|]. intros [E|H]; [congruence|exact H].
Qed.

Lemma mem_false x l : mem x l = false <-> ~ In x l.
Proof. rewrite <- mem_In. destruct (mem x l); split; congruence. Qed.

Lemma strs_eqb_eq a b : strs_eqb a b = true <-> a = b.
Proof.
  unfold strs_eqb. revert b. induction a as [|x a IH]; intros [|y b]; cbn [list_eqb]; try (split; [discriminate|congruence]).
  - tauto.
  - rewrite andb_true_iff, IH, String.eqb_eq. split; [intros [-> ->]; reflexivity|intros E; inversion E; tauto].
Qed.

Lemma strs_eqb_neq a b : negb (strs_eqb a b) = true <-> a <> b.
Proof. rewrite negb_true_iff, <- strs_eqb_eq. destruct (strs_eqb a b); split; congruence. Qed.

Lemma not_all_in_false a l : not_all_in a l = false <-> incl a l.
Proof.
  unfold not_all_in, incl. induction a as [|x a IH]; cbn [existsb In].
  - split; [intros _ ? []|reflexivity].
  - rewrite orb_false_iff, negb_false_iff, mem_In, IH. split.
    + intros [H1 H2] y [<-|Hy]; auto.
    + intros H; split; [apply H; left; reflexivity|intros y Hy; apply H; right; exact Hy].
Qed.

Lemma not_all_in_true a l : not_all_in a l = true <-> ~ incl a l.
Proof. rewrite <- not_all_in_false. destruct (not_all_in a l); split; congruence. Qed.

Lemma size_bad_false larger a e : size_bad larger a e = false <-> size_ok larger e a.
Proof. unfold size_bad, size_ok. destruct larger; cbn; lia. Qed.

Lemma size_bad_true larger a e : size_bad larger a e = true <-> ~ size_ok larger e a.
Proof. rewrite <- size_bad_false. destruct (size_bad larger a e); split; congruence. Qed.

Lemma pruned_without p pr : pruned_host_keys p pr = without (p_optional_host_keys p) (pr_key pr).
Proof.
  unfold pruned_host_keys, without. destruct (p_optional_host_keys p) as [o|]; [|reflexivity].
  apply filter_ext. intros x. destruct (in_dec string_dec x o) as [H|H].
  - apply mem_In in H. rewrite H. reflexivity.
  - apply mem_false in H. rewrite H. reflexivity.
Qed.

Lemma ca_specified_b e : negb (hk_ca_type e =? "")%string && (0 <? hk_ca_size e) = true <-> ca_specified e.
Proof.
  unfold ca_specified. rewrite andb_true_iff, negb_true_iff, String.eqb_neq, Z.ltb_lt. tauto.
Qed.

(* ------------------------------------------------------------------ sorting keeps the elements *)
Lemma insert_by_In {A} (key : A -> string) x y l : In y (insert_by key x l) <-> y = x \/ In y l.
Proof.
  induction l as [|z r IH]; cbn [insert_by In].
  - split; [intros [E|[]]; left; congruence|intros [E|[]]; left; congruence].
  - destruct (String.ltb (key x) (key z)); cbn [In]; [|rewrite IH]; split; intuition congruence.
Qed.

Lemma fold_insert_In {A} (key : A -> string) y l : In y (fold_right (insert_by key) [] l) <-> In y l.
Proof.
  induction l as [|x r IH]; cbn [fold_right In]; [tauto|].
  rewrite insert_by_In, IH. split; intuition congruence.
Qed.

Lemma sort_by_In {A} (key : A -> string) y l : In y (sort_by key l) <-> In y l.
Proof. unfold sort_by. rewrite fold_insert_In, <- in_rev. tauto. Qed.

Lemma insert_by_length {A} (key : A -> string) x l : List.length (insert_by key x l) = S (List.length l).
Proof.
  induction l as [|z r IH]; cbn [insert_by List.length]; [reflexivity|].
  destruct (String.ltb (key x) (key z)); cbn [List.length]; [reflexivity|]. rewrite IH. reflexivity.
Qed.

Lemma sort_by_length {A} (key : A -> string) l : List.length (sort_by key l) = List.length l.
Proof.
  unfold sort_by. rewrite <- (rev_length l). induction (rev l) as [|x r IH]; cbn [fold_right List.length]; [reflexivity|].
  rewrite insert_by_length, IH. reflexivity.
Qed.

(* ------------------------------------------------------------------ the accumulator: every block appends a list of errors *)
Definition nilb {A} (l : list A) : bool := match l with [] => true | _ => false end.
(* f behaves as "append es; ret = False iff es is not empty" on every state *)
Definition runs (f : st -> st) (es : list perr) : Prop := forall s, f s = (fst s && nilb es, snd s ++ es).

Lemma runs_id : runs (fun s => s) [].
Proof. intros [b l]. cbn. rewrite andb_true_r, app_nil_r. reflexivity. Qed.

Lemma runs_fail f req opt act : runs (fun s => fail s f req opt act) [PErr f (none_list req) (none_list opt) act].
Proof. intros [b l]. unfold fail. cbn. rewrite andb_false_r. reflexivity. Qed.

Lemma nilb_app {A} (a b : list A) : nilb (a ++ b) = nilb a && nilb b.
Proof. destruct a; reflexivity. Qed.

Lemma runs_comp f g es es' : runs f es -> runs g es' -> runs (fun s => g (f s)) (es ++ es').
Proof.
  intros Hf Hg s. rewrite Hf, Hg. cbn [fst snd]. rewrite nilb_app, andb_assoc, app_assoc. reflexivity.
Qed.

Lemma runs_ext f g es : (forall s, f s = g s) -> runs g es -> runs f es.
Proof. intros E H s. rewrite E. apply H. Qed.

Lemma runs_fold {A} (step : st -> A -> st) (errs : A -> list perr) l :
  (forall x, runs (fun s => step s x) (errs x)) -> runs (fun s => fold_left step l s) (flat_map errs l).
Proof.
  intros H. induction l as [|x r IH]; cbn [fold_left flat_map]; [apply runs_id|].
  exact (runs_comp _ _ _ _ (H x) IH).
Qed.

(* ------------------------------------------------------------------ the error list of each block, as a function *)
Definition E (f : string) (req opt : option (list string)) (act : list string) : perr := PErr f (none_list req) (none_list opt) act.

Definition banner_errs (p : policy) (banner : string) : list perr :=
  match p_banner p with
  | Some b => if negb (banner =? b)%string then [E "Banner" (Some [b]) None [banner]] else []
  | None => []
  end.
Definition compression_errs (p : policy) (pr : peer) : list perr :=
  match p_compressions p with
  | Some c => if negb (strs_eqb (pr_compression pr) c) then [E "Compression" (Some c) None (pr_compression pr)] else []
  | None => []
  end.
Definition host_keys_errs (p : policy) (pr : peer) : list perr :=
  match p_host_keys p with
  | Some h =>
      if (if p_subset p then not_all_in (pr_key pr) h else negb (strs_eqb (pruned_host_keys p pr) h))
      then [E "Host keys" (Some h) (p_optional_host_keys p) (pr_key pr)] else []
  | None => []
  end.
Definition hk_errs (larger : bool) (server : list (string * hk)) (te : string * hk) : list perr :=
  let (t, e) := te in
  match assoc t server with
  | None => []
  | Some a =>
      (if size_bad larger (hk_size a) (hk_size e)
       then [E ("Host key (" ^^ t ^^ ") sizes") (Some [z_dec (hk_size e)]) None [z_dec (hk_size a)]] else []) ++
      (if negb (hk_ca_type e =? "")%string && (0 <? hk_ca_size e) then
         if negb (hk_ca_type a =? hk_ca_type e)%string then [E "CA signature type" (Some [hk_ca_type e]) None [hk_ca_type a]]
         else if size_bad larger (hk_ca_size a) (hk_ca_size e)
              then [E ("CA signature size (" ^^ hk_ca_type a ^^ ")") (Some [z_dec (hk_ca_size e)]) None [z_dec (hk_ca_size a)]]
              else []
       else [])
  end.
Definition hostkey_sizes_errs (p : policy) (pr : peer) : list perr :=
  match p_hostkey_sizes p with
  | Some m => flat_map (hk_errs (p_larger p) (pr_host_keys pr)) (sort_by fst m)
  | None => []
  end.
Definition marker_bad (k actual : list string) : bool :=
  (mem kex_strict_s k && negb (mem kex_strict_s actual)) || (mem kex_strict_c k && negb (mem kex_strict_c actual)).
Definition kex_errs (p : policy) (pr : peer) : list perr :=
  match p_kex p with
  | Some k =>
      if p_subset p then
        (if not_all_in (pr_kex pr) k then [E "Key exchanges" (Some k) None (pr_kex pr)] else []) ++
        (if marker_bad k (pr_kex pr) then [E "Key exchanges" (Some k) None (pr_kex pr)] else [])
      else if negb (strs_eqb (pr_kex pr) k) then [E "Key exchanges" (Some k) None (pr_kex pr)] else []
  | None => []
  end.
Definition list_errs (subset : bool) (field : string) (pol : option (list string)) (actual : list string) : list perr :=
  match pol with
  | Some l => if (if subset then not_all_in actual l else negb (strs_eqb actual l)) then [E field (Some l) None actual] else []
  | None => []
  end.
Definition dh_errs (larger : bool) (server : list (string * Z)) (te : string * Z) : list perr :=
  let (t, e) := te in
  match assoc t server with
  | None => []
  | Some a => if size_bad larger a e then [E ("Group exchange (" ^^ t ^^ ") modulus sizes") (Some [z_dec e]) None [z_dec a]] else []
  end.
Definition dh_all_errs (p : policy) (pr : peer) : list perr :=
  match p_dh_modulus_sizes p with
  | Some m => flat_map (dh_errs (p_larger p) (pr_dh_modulus_sizes pr)) (sort_by fst m)
  | None => []
  end.

Definition all_errs (p : policy) (pr : peer) : list perr :=
  banner_errs p (pr_banner pr) ++ compression_errs p pr ++ host_keys_errs p pr ++ hostkey_sizes_errs p pr ++
  kex_errs p pr ++ list_errs (p_subset p) "Ciphers" (p_ciphers p) (pr_enc pr) ++ list_errs (p_subset p) "MACs" (p_macs p) (pr_mac pr) ++
  dh_all_errs p pr.

Ltac runs_cases :=
  repeat match goal with
         | |- runs (fun s => match ?x with _ => _ end) _ => destruct x
         | |- runs (fun s => if ?x then _ else _) _ => destruct x
         | |- runs (fun s => s) [] => apply runs_id
         | |- runs (fun s => fail s _ _ _ _) _ => apply runs_fail
         end.

Lemma chk_banner_runs p b : runs (chk_banner p b) (banner_errs p b).
Proof. unfold chk_banner, banner_errs. destruct (p_banner p); [destruct (negb _)|]; try apply runs_id; apply runs_fail. Qed.

Lemma chk_compression_runs p pr : runs (chk_compression p pr) (compression_errs p pr).
Proof. unfold chk_compression, compression_errs. destruct (p_compressions p); [destruct (negb _)|]; try apply runs_id; apply runs_fail. Qed.

Lemma chk_host_keys_runs p pr : runs (chk_host_keys p pr) (host_keys_errs p pr).
Proof.
  unfold chk_host_keys, host_keys_errs. destruct (p_host_keys p); [|apply runs_id].
  destruct (p_subset p); [destruct (not_all_in _ _)|destruct (negb _)]; try apply runs_id; apply runs_fail.
Qed.

Lemma chk_list_runs subset f pol act : runs (chk_list subset f pol act) (list_errs subset f pol act).
Proof.
  unfold chk_list, list_errs. destruct pol; [|apply runs_id].
  destruct subset; [destruct (not_all_in _ _)|destruct (negb _)]; try apply runs_id; apply runs_fail.
Qed.

Ltac runs_by_cases :=
  intros [b l]; unfold fail, E;
  repeat match goal with |- context [if ?c then _ else _] => destruct c end;
  cbn [fst snd app nilb]; rewrite ?andb_false_r, ?andb_true_r, ?app_nil_r, <- ?app_assoc; reflexivity.

Lemma hk_step_runs larger server te : runs (fun s => hk_step larger server s te) (hk_errs larger server te).
Proof.
  destruct te as [t e]. unfold hk_step, hk_errs. destruct (assoc t server) as [a|]; [|apply runs_id].
  runs_by_cases.
Qed.

Lemma chk_hostkey_sizes_runs p pr : runs (chk_hostkey_sizes p pr) (hostkey_sizes_errs p pr).
Proof.
  unfold chk_hostkey_sizes, hostkey_sizes_errs. destruct (p_hostkey_sizes p); [|apply runs_id].
  apply runs_fold. intros x. apply hk_step_runs.
Qed.

Lemma chk_kex_runs p pr : runs (chk_kex p pr) (kex_errs p pr).
Proof.
  unfold chk_kex, kex_errs, marker_bad. destruct (p_kex p) as [k|]; [|apply runs_id].
  destruct (p_subset p); runs_by_cases.
Qed.

Lemma dh_step_runs larger server te : runs (fun s => dh_step larger server s te) (dh_errs larger server te).
Proof.
  destruct te as [t e]. unfold dh_step, dh_errs. destruct (assoc t server) as [a|]; [|apply runs_id].
  destruct (size_bad _ _ _); [apply runs_fail|apply runs_id].
Qed.

Lemma chk_dh_runs p pr : runs (chk_dh p pr) (dh_all_errs p pr).
Proof.
  unfold chk_dh, dh_all_errs. destruct (p_dh_modulus_sizes p); [|apply runs_id].
  apply runs_fold. intros x. apply dh_step_runs.
Qed.

Lemma evaluate_from_eq acc p pr : evaluate_from acc p pr = (nilb (all_errs p pr), acc ++ all_errs p pr).
Proof.
  unfold evaluate_from, all_errs.
  pose proof (runs_comp _ _ _ _ (chk_banner_runs p (pr_banner pr))
             (runs_comp _ _ _ _ (chk_compression_runs p pr)
             (runs_comp _ _ _ _ (chk_host_keys_runs p pr)
             (runs_comp _ _ _ _ (chk_hostkey_sizes_runs p pr)
             (runs_comp _ _ _ _ (chk_kex_runs p pr)
             (runs_comp _ _ _ _ (chk_list_runs (p_subset p) "Ciphers" (p_ciphers p) (pr_enc pr))
             (runs_comp _ _ _ _ (chk_list_runs (p_subset p) "MACs" (p_macs p) (pr_mac pr)) (chk_dh_runs p pr)))))))) as H.
  specialize (H (true, acc)). cbn [fst snd andb] in H. unfold chk_ciphers, chk_macs. exact H.
Qed.

Lemma evaluate_eq p pr : evaluate p pr = (nilb (all_errs p pr), all_errs p pr).
Proof. unfold evaluate. rewrite evaluate_from_eq. reflexivity. Qed.

(* ------------------------------------------------------------------ passed <-> no errors; the accumulator only grows *)
Lemma nilb_true {A} (l : list A) : nilb l = true <-> l = [].
Proof. destruct l; cbn; split; congruence. Qed.

Theorem passed_iff_no_errors p pr : fst (evaluate p pr) = true <-> snd (evaluate p pr) = [].
Proof. rewrite evaluate_eq. cbn [fst snd]. apply nilb_true. Qed.

Theorem evaluate_from_acc acc p pr :
  evaluate_from acc p pr = (fst (evaluate p pr), acc ++ snd (evaluate p pr)).
Proof. rewrite evaluate_from_eq, evaluate_eq. reflexivity. Qed.

Theorem evaluate_nokex p banner acc :
  let r := evaluate_nokex_from acc p banner in
  (fst r = true <-> match p_banner p with Some b => banner = b | None => True end) /\
  (fst r = true <-> snd r = acc).
Proof.
  unfold evaluate_nokex_from. rewrite (chk_banner_runs p banner (true, acc)). cbn [fst snd andb].
  unfold banner_errs. destruct (p_banner p) as [b|].
  - destruct (String.eqb_spec banner b) as [->|N]; cbn [negb nilb].
    + rewrite app_nil_r. tauto.
    + split; [split; [discriminate|tauto]|]. split; [discriminate|].
      intros H. apply (f_equal (@List.length perr)) in H. rewrite app_length in H. cbn in H. lia.
  - cbn. rewrite app_nil_r. tauto.
Qed.

(* ------------------------------------------------------------------ each block: no error <-> its clause of the spec *)
Lemma banner_errs_nil p pr : banner_errs p (pr_banner pr) = [] <-> banner_sat p pr.
Proof.
  unfold banner_errs, banner_sat. destruct (p_banner p) as [b|]; [|tauto].
  destruct (String.eqb_spec (pr_banner pr) b); cbn [negb]; split; congruence.
Qed.

Lemma ite_nil {A} (b : bool) (x : A) : (if b then [x] else []) = [] <-> b = false.
Proof. destruct b; split; congruence. Qed.

Lemma compression_errs_nil p pr : compression_errs p pr = [] <-> compression_sat p pr.
Proof.
  unfold compression_errs, compression_sat, list_sat. destruct (p_compressions p) as [c|]; [|tauto].
  rewrite ite_nil, negb_false_iff, strs_eqb_eq. tauto.
Qed.

Lemma list_errs_nil subset f pol act : list_errs subset f pol act = [] <-> list_sat subset pol act.
Proof.
  unfold list_errs, list_sat. destruct pol as [l|]; [|tauto].
  rewrite ite_nil. destruct subset; [apply not_all_in_false|]. rewrite negb_false_iff. apply strs_eqb_eq.
Qed.

Lemma host_keys_errs_nil p pr : host_keys_errs p pr = [] <-> host_keys_sat p pr.
Proof.
  unfold host_keys_errs, host_keys_sat, list_sat. destruct (p_host_keys p) as [l|]; [|tauto].
  rewrite ite_nil. destruct (p_subset p); [apply not_all_in_false|].
  rewrite negb_false_iff, pruned_without. apply strs_eqb_eq.
Qed.

Lemma marker_bad_false k actual : marker_bad k actual = false <-> (forall m, In m strict_markers -> In m k -> In m actual).
Proof.
  unfold marker_bad, strict_markers. rewrite orb_false_iff, !andb_false_iff, !negb_false_iff, !mem_false, !mem_In. split.
  - intros [H1 H2] m [<-|[<-|[]]] Hk; tauto.
  - intros H. split.
    + destruct (in_dec string_dec kex_strict_s k) as [i|n]; [right; apply H; [left; reflexivity|exact i]|left; exact n].
    + destruct (in_dec string_dec kex_strict_c k) as [i|n]; [right; apply H; [right; left; reflexivity|exact i]|left; exact n].
Qed.

Lemma kex_errs_nil p pr : kex_errs p pr = [] <-> kex_sat p pr.
Proof.
  unfold kex_errs, kex_sat, list_sat. destruct (p_kex p) as [k|].
  - destruct (p_subset p).
    + split.
      * intros H. apply app_eq_nil in H. destruct H as [H1 H2]. rewrite ite_nil in H1, H2.
        split; [apply not_all_in_false; exact H1|]. intros _ l m El. injection El as <-. apply marker_bad_false. exact H2.
      * intros [H1 H2]. apply not_all_in_false in H1. rewrite H1.
        assert (M : marker_bad k (pr_kex pr) = false) by (apply marker_bad_false; intros m; apply (H2 eq_refl k m eq_refl)).
        rewrite M. reflexivity.
    + rewrite ite_nil, negb_false_iff, strs_eqb_eq. split; [intros ->; split; [reflexivity|discriminate]|tauto].
  - split; [intros _; split; [exact I|intros _ l m El; discriminate]|reflexivity].
Qed.

Lemma flat_map_nil {A B} (f : A -> list B) l : flat_map f l = [] <-> forall x, In x l -> f x = [].
Proof.
  induction l as [|x r IH]; cbn [flat_map In]; [split; [intros _ ? []|reflexivity]|].
  split.
  - intros H. apply app_eq_nil in H. destruct H as [H1 H2]. intros y [<-|Hy]; [exact H1|apply IH; assumption].
  - intros H. rewrite (H x (or_introl eq_refl)). apply IH. intros y Hy. apply H. right. exact Hy.
Qed.

Lemma hk_errs_nil larger server t e :
  hk_errs larger server (t, e) = [] <-> (forall a, assoc t server = Some a -> hostkey_entry_sat larger e a).
Proof.
  unfold hk_errs, hostkey_entry_sat. destruct (assoc t server) as [a|]; [|split; [intros _ a Ha; discriminate|reflexivity]].
  split.
  - intros H a' Ea. injection Ea as <-. apply app_eq_nil in H. destruct H as [H1 H2].
    rewrite ite_nil, size_bad_false in H1. split; [exact H1|]. intros C. apply ca_specified_b in C. rewrite C in H2.
    destruct (String.eqb_spec (hk_ca_type a) (hk_ca_type e)) as [Et|Nt]; cbn [negb] in H2; [|discriminate].
    rewrite ite_nil, size_bad_false in H2. tauto.
  - intros H. destruct (H a eq_refl) as [H1 H2]. apply size_bad_false in H1. rewrite H1. cbn [app].
    destruct (negb (hk_ca_type e =? "")%string && (0 <? hk_ca_size e)) eqn:C; [|reflexivity].
    apply ca_specified_b in C. destruct (H2 C) as [Et Es]. rewrite Et, String.eqb_refl. cbn [negb].
    apply size_bad_false in Es. rewrite <- Et, Es. reflexivity.
Qed.

Lemma hostkey_sizes_errs_nil p pr : hostkey_sizes_errs p pr = [] <-> hostkey_sizes_sat p pr.
Proof.
  unfold hostkey_sizes_errs, hostkey_sizes_sat. destruct (p_hostkey_sizes p) as [m|].
  - rewrite flat_map_nil. split.
    + intros H m' t e a Em Hin Ha. injection Em as <-.
      apply (proj1 (hk_errs_nil _ _ t e) (H (t, e) (proj2 (sort_by_In fst _ _) Hin)) a Ha).
    + intros H [t e] Hin. apply hk_errs_nil. intros a Ha. apply (H m t e a eq_refl); [apply (sort_by_In fst); exact Hin|exact Ha].
  - split; [intros _ m' t e a Em; discriminate|reflexivity].
Qed.

Lemma dh_errs_nil larger server t e :
  dh_errs larger server (t, e) = [] <-> (forall a, assoc t server = Some a -> size_ok larger e a).
Proof.
  unfold dh_errs. destruct (assoc t server) as [a|]; [|split; [intros _ a Ha; discriminate|reflexivity]].
  rewrite ite_nil, size_bad_false. split; [intros H a' Ea; injection Ea as <-; exact H|intros H; apply H; reflexivity].
Qed.

Lemma dh_all_errs_nil p pr : dh_all_errs p pr = [] <-> dh_sat p pr.
Proof.
  unfold dh_all_errs, dh_sat. destruct (p_dh_modulus_sizes p) as [m|].
  - rewrite flat_map_nil. split.
    + intros H m' t e a Em Hin Ha. injection Em as <-.
      apply (proj1 (dh_errs_nil _ _ t e) (H (t, e) (proj2 (sort_by_In fst _ _) Hin)) a Ha).
    + intros H [t e] Hin. apply dh_errs_nil. intros a Ha. apply (H m t e a eq_refl); [apply (sort_by_In fst); exact Hin|exact Ha].
  - split; [intros _ m' t e a Em; discriminate|reflexivity].
Qed.

Lemma all_errs_nil p pr : all_errs p pr = [] <-> satisfies p pr.
Proof.
  unfold all_errs, satisfies.
  rewrite <- banner_errs_nil, <- compression_errs_nil, <- host_keys_errs_nil, <- hostkey_sizes_errs_nil, <- kex_errs_nil,
          <- dh_all_errs_nil.
  unfold ciphers_sat, macs_sat.
  rewrite <- (list_errs_nil (p_subset p) "Ciphers"), <- (list_errs_nil (p_subset p) "MACs").
  split.
  - intros H. repeat (apply app_eq_nil in H; destruct H as [? H]). tauto.
  - intros (H1 & H2 & H3 & H4 & H5 & H6 & H7 & H8). rewrite H1, H2, H3, H4, H5, H6, H7, H8. reflexivity.
Qed.

Theorem evaluate_correct p pr : fst (evaluate p pr) = true <-> satisfies p pr.
Proof. rewrite evaluate_eq. cbn [fst]. rewrite nilb_true. apply all_errs_nil. Qed.

(* ------------------------------------------------------------------ the reported errors are exactly the spec's *)
Lemma In_ite {A} (b : bool) (x y : A) : In y (if b then [x] else []) <-> b = true /\ y = x.
Proof. destruct b; cbn [In]; split; intuition congruence. Qed.

Lemma banner_errs_In p pr e :
  In e (banner_errs p (pr_banner pr)) <-> exists b, p_banner p = Some b /\ pr_banner pr <> b /\ e = PErr "Banner" [b] [""] [pr_banner pr].
Proof.
  unfold banner_errs. destruct (p_banner p) as [b|].
  - rewrite In_ite, negb_true_iff, String.eqb_neq. unfold E. cbn [none_list]. split.
    + intros [N ->]. exists b. tauto.
    + intros (b' & Eb & N & ->). injection Eb as <-. tauto.
  - cbn [In]. split; [tauto|intros (b & Eb & _); discriminate].
Qed.

Lemma compression_errs_In p pr e :
  In e (compression_errs p pr) <-> exists l, p_compressions p = Some l /\ ~ compression_sat p pr /\ e = PErr "Compression" l [""] (pr_compression pr).
Proof.
  unfold compression_errs, compression_sat, list_sat. destruct (p_compressions p) as [c|].
  - rewrite In_ite, strs_eqb_neq. unfold E. cbn [none_list]. split.
    + intros [N ->]. exists c. tauto.
    + intros (l & El & N & ->). injection El as <-. tauto.
  - cbn [In]. split; [tauto|intros (b & Eb & _); discriminate].
Qed.

Lemma list_errs_In subset f pol act e :
  In e (list_errs subset f pol act) <-> exists l, pol = Some l /\ ~ list_sat subset pol act /\ e = PErr f l [""] act.
Proof.
  unfold list_errs, list_sat. destruct pol as [c|].
  - rewrite In_ite. unfold E. cbn [none_list].
    assert (B : (if subset then not_all_in act c else negb (strs_eqb act c)) = true <-> ~ (if subset then incl act c else act = c))
      by (destruct subset; [apply not_all_in_true|apply strs_eqb_neq]).
    rewrite B. split.
    + intros [N ->]. exists c. tauto.
    + intros (l & El & N & ->). injection El as <-. tauto.
  - cbn [In]. split; [tauto|intros (b & Eb & _); discriminate].
Qed.

Lemma host_keys_errs_In p pr e :
  In e (host_keys_errs p pr) <-> exists l, p_host_keys p = Some l /\ ~ host_keys_sat p pr /\
                                 e = PErr "Host keys" l (none_list (p_optional_host_keys p)) (pr_key pr).
Proof.
  pose proof (host_keys_errs_nil p pr) as Nil. revert Nil.
  unfold host_keys_errs. destruct (p_host_keys p) as [h|] eqn:Eh.
  - intros Nil. rewrite In_ite. unfold E. cbn [none_list]. split.
    + intros [B ->]. exists h. split; [reflexivity|]. split; [|reflexivity]. intros S. apply Nil in S. rewrite B in S. discriminate.
    + intros (l & El & N & ->). injection El as <-. split; [|reflexivity].
      destruct (if p_subset p then _ else _); [reflexivity|]. exfalso. apply N, Nil. reflexivity.
  - intros _. cbn [In]. split; [tauto|intros (b & Eb & _); discriminate].
Qed.

Lemma kex_errs_In p pr e :
  In e (kex_errs p pr) <-> exists l, p_kex p = Some l /\ ~ kex_sat p pr /\ e = PErr "Key exchanges" l [""] (pr_kex pr).
Proof.
  pose proof (kex_errs_nil p pr) as Nil. revert Nil.
  unfold kex_errs. destruct (p_kex p) as [k|] eqn:Ek.
  - intros Nil. unfold E in *. cbn [none_list] in *. split.
    + intros H. exists k. split; [reflexivity|]. split.
      * intros S. apply Nil in S. rewrite S in H. destruct H.
      * destruct (p_subset p); [apply in_app_or in H; destruct H as [H|H]|]; apply In_ite in H; tauto.
    + intros (l & El & N & ->). injection El as <-.
      destruct (p_subset p).
      * destruct (not_all_in (pr_kex pr) k); [left; reflexivity|].
        destruct (marker_bad k (pr_kex pr)); [left; reflexivity|]. exfalso. apply N, Nil. reflexivity.
      * destruct (negb _); [left; reflexivity|]. exfalso. apply N, Nil. reflexivity.
  - intros _. cbn [In]. split; [tauto|intros (b & Eb & _); discriminate].
Qed.

(* one host-key entry of the policy against the peer's entry *)
Inductive hk_error (larger : bool) (t : string) (e a : hk) : perr -> Prop :=
| HE_size : ~ size_ok larger (hk_size e) (hk_size a) ->
    hk_error larger t e a (PErr ("Host key (" ^^ t ^^ ") sizes") [z_dec (hk_size e)] [""] [z_dec (hk_size a)])
| HE_ca_type : ca_specified e -> hk_ca_type a <> hk_ca_type e ->
    hk_error larger t e a (PErr "CA signature type" [hk_ca_type e] [""] [hk_ca_type a])
| HE_ca_size : ca_specified e -> hk_ca_type a = hk_ca_type e -> ~ size_ok larger (hk_ca_size e) (hk_ca_size a) ->
    hk_error larger t e a (PErr ("CA signature size (" ^^ hk_ca_type a ^^ ")") [z_dec (hk_ca_size e)] [""] [z_dec (hk_ca_size a)]).

Lemma hk_errs_In larger server t e x :
  In x (hk_errs larger server (t, e)) <-> exists a, assoc t server = Some a /\ hk_error larger t e a x.
Proof.
  unfold hk_errs. destruct (assoc t server) as [a|]; [|cbn [In]; split; [tauto|intros (a & Ea & _); discriminate]].
  unfold E. cbn [none_list]. split.
  - intros H. exists a. split; [reflexivity|]. apply in_app_or in H. destruct H as [H|H].
    + apply In_ite in H. destruct H as [B ->]. apply size_bad_true in B. apply HE_size. exact B.
    + destruct (negb (hk_ca_type e =? "")%string && (0 <? hk_ca_size e)) eqn:C; [|destruct H].
      apply ca_specified_b in C.
      destruct (String.eqb_spec (hk_ca_type a) (hk_ca_type e)) as [Et|Nt]; cbn [negb] in H.
      * apply In_ite in H. destruct H as [B ->]. apply size_bad_true in B. apply HE_ca_size; assumption.
      * destruct H as [<-|[]]. apply HE_ca_type; assumption.
  - intros (a' & Ea & H). injection Ea as <-. apply in_or_app. destruct H as [N|C N|C Et N].
    + left. apply size_bad_true in N. rewrite N. left. reflexivity.
    + right. apply ca_specified_b in C. rewrite C. apply String.eqb_neq in N. rewrite N. left. reflexivity.
    + right. apply ca_specified_b in C. rewrite C, Et, String.eqb_refl. cbn [negb].
      apply size_bad_true in N. rewrite <- Et, N. left. reflexivity.
Qed.

Lemma hostkey_sizes_errs_In p pr x :
  In x (hostkey_sizes_errs p pr) <->
  exists m t e a, p_hostkey_sizes p = Some m /\ In (t, e) m /\ assoc t (pr_host_keys pr) = Some a /\ hk_error (p_larger p) t e a x.
Proof.
  unfold hostkey_sizes_errs. destruct (p_hostkey_sizes p) as [m|].
  - rewrite in_flat_map. split.
    + intros ([t e] & Hin & Hx). apply sort_by_In in Hin. apply hk_errs_In in Hx. destruct Hx as (a & Ha & He).
      exists m, t, e, a. tauto.
    + intros (m' & t & e & a & Em & Hin & Ha & He). injection Em as <-. exists (t, e).
      split; [apply sort_by_In; exact Hin|]. apply hk_errs_In. exists a. tauto.
  - cbn [In]. split; [tauto|intros (m & t & e & a & Em & _); discriminate].
Qed.

Lemma dh_all_errs_In p pr x :
  In x (dh_all_errs p pr) <->
  exists m t e a, p_dh_modulus_sizes p = Some m /\ In (t, e) m /\ assoc t (pr_dh_modulus_sizes pr) = Some a /\
                  ~ size_ok (p_larger p) e a /\ x = PErr ("Group exchange (" ^^ t ^^ ") modulus sizes") [z_dec e] [""] [z_dec a].
Proof.
  unfold dh_all_errs. destruct (p_dh_modulus_sizes p) as [m|].
  - rewrite in_flat_map. split.
    + intros ([t e] & Hin & Hx). apply sort_by_In in Hin. unfold dh_errs in Hx.
      destruct (assoc t (pr_dh_modulus_sizes pr)) as [a|] eqn:Ha; [|destruct Hx].
      apply In_ite in Hx. destruct Hx as [B ->]. apply size_bad_true in B. exists m, t, e, a. tauto.
    + intros (m' & t & e & a & Em & Hin & Ha & N & ->). injection Em as <-. exists (t, e).
      split; [apply sort_by_In; exact Hin|]. unfold dh_errs. rewrite Ha. apply size_bad_true in N. rewrite N. left. reflexivity.
  - cbn [In]. split; [tauto|intros (m & t & e & a & Em & _); discriminate].
Qed.

Theorem errors_exact p pr e : In e (snd (evaluate p pr)) <-> error_for p pr e.
Proof.
  rewrite evaluate_eq. cbn [snd]. unfold all_errs. rewrite !in_app_iff.
  rewrite banner_errs_In, compression_errs_In, host_keys_errs_In, hostkey_sizes_errs_In, kex_errs_In, !list_errs_In, dh_all_errs_In.
  split.
  - intros [H|[H|[H|[H|[H|[H|[H|H]]]]]]].
    + destruct H as (b & Eb & N & ->). apply EF_banner; assumption.
    + destruct H as (l & El & N & ->). apply EF_compression; assumption.
    + destruct H as (l & El & N & ->). apply EF_host_keys; assumption.
    + destruct H as (m & t & a & a' & Em & Hin & Ha & He). destruct He.
      * eapply EF_hostkey_size; eassumption.
      * eapply EF_ca_type; eassumption.
      * eapply EF_ca_size; eassumption.
    + destruct H as (l & El & N & ->). apply EF_kex; assumption.
    + destruct H as (l & El & N & ->). apply EF_ciphers; assumption.
    + destruct H as (l & El & N & ->). apply EF_macs; assumption.
    + destruct H as (m & t & a & a' & Em & Hin & Ha & N & ->). eapply EF_dh; eassumption.
  - intros H. destruct H.
    + left. eauto.
    + right; left. eauto.
    + right; right; left. eauto.
    + right; right; right; left. exists m, t, e, a. repeat split; try assumption. apply HE_size; assumption.
    + right; right; right; left. exists m, t, e, a. repeat split; try assumption. apply HE_ca_type; assumption.
    + right; right; right; left. exists m, t, e, a. repeat split; try assumption. apply HE_ca_size; assumption.
    + right; right; right; right; left. eauto.
    + right; right; right; right; right; left. eauto.
    + right; right; right; right; right; right; left. eauto.
    + right; right; right; right; right; right; right. exists m, t, e, a. tauto.
Qed.

(* the shape every reported error has: the field, the policy's value as `required`, the peer's value as `actual` *)
Theorem errors_name_fields p pr e : In e (snd (evaluate p pr)) -> error_for p pr e.
Proof. apply errors_exact. Qed.

Theorem errors_complete p pr e : error_for p pr e -> In e (snd (evaluate p pr)).
Proof. apply errors_exact. Qed.

(* ------------------------------------------------------------------ monotonicity *)
Lemma list_sat_shrink pol a a' : incl a' a -> list_sat true pol a -> list_sat true pol a'.
Proof. unfold list_sat. destruct pol as [l|]; [|tauto]. intros I H. exact (incl_tran I H). Qed.

Theorem subset_shrink_monotone p pr pr' :
  p_subset p = true -> shrinks pr pr' -> fst (evaluate p pr) = true -> fst (evaluate p pr') = true.
Proof.
  intros S (Eb & Ec & Ikex & Ikey & Ienc & Imac & Mhk & Mdh & Keep). rewrite !evaluate_correct.
  intros (H1 & H2 & H3 & H4 & H5 & H6 & H7 & H8). unfold satisfies.
  refine (conj _ (conj _ (conj _ (conj _ (conj _ (conj _ (conj _ _))))))).
  - unfold banner_sat in *. rewrite Eb. exact H1.
  - unfold compression_sat in *. rewrite Ec. exact H2.
  - unfold host_keys_sat in *. rewrite S in *. exact (list_sat_shrink _ _ _ Ikey H3).
  - intros m t e a Em Hin Ha. apply (H4 m t e a Em Hin). apply Mhk. exact Ha.
  - destruct H5 as [H5 H5m]. split.
    + rewrite S in *. exact (list_sat_shrink _ _ _ Ikex H5).
    + intros _ l m El Hm Hl. apply Keep; [exact Hm|]. exact (H5m S l m El Hm Hl).
  - unfold ciphers_sat in *. rewrite S in *. exact (list_sat_shrink _ _ _ Ienc H6).
  - unfold macs_sat in *. rewrite S in *. exact (list_sat_shrink _ _ _ Imac H7).
  - intros m t e a Em Hin Ha. apply (H8 m t e a Em Hin). apply Mdh. exact Ha.
Qed.

Lemma size_ok_grow e a a' : a <= a' -> size_ok true e a -> size_ok true e a'.
Proof. unfold size_ok. lia. Qed.

Theorem larger_keys_grow_monotone p pr pr' :
  p_larger p = true -> grows pr pr' -> fst (evaluate p pr) = true -> fst (evaluate p pr') = true.
Proof.
  intros L (Eb & Ec & Ekex & Ekey & Eenc & Emac & Ghk & Gdh). rewrite !evaluate_correct.
  intros (H1 & H2 & H3 & H4 & H5 & H6 & H7 & H8). unfold satisfies.
  refine (conj _ (conj _ (conj _ (conj _ (conj _ (conj _ (conj _ _))))))).
  - unfold banner_sat in *. rewrite Eb. exact H1.
  - unfold compression_sat in *. rewrite Ec. exact H2.
  - unfold host_keys_sat in *. rewrite Ekey. exact H3.
  - intros m t e a' Em Hin Ha. apply (Ghk _ _) in Ha. destruct Ha as (a0 & Ha0 & G1 & G2 & G3).
    destruct (H4 m t e a0 Em Hin Ha0) as [S1 S2]. rewrite L in *. split.
    + exact (size_ok_grow _ _ _ G1 S1).
    + intros C. destruct (S2 C) as [Et Es]. split; [congruence|exact (size_ok_grow _ _ _ G3 Es)].
  - unfold kex_sat in *. rewrite Ekex. exact H5.
  - unfold ciphers_sat in *. rewrite Eenc. exact H6.
  - unfold macs_sat in *. rewrite Emac. exact H7.
  - intros m t e a' Em Hin Ha. apply (Gdh _ _) in Ha. destruct Ha as (a0 & Ha0 & G).
    pose proof (H8 m t e a0 Em Hin Ha0) as S0. rewrite L in *. exact (size_ok_grow _ _ _ G S0).
Qed.

(* ------------------------------------------------------------------ rendering (_get_errors) *)
Lemma prefix_app a b : String.prefix a (a ^^ b) = true.
Proof. induction a as [|c a IH]; cbn; [destruct b; reflexivity|]. destruct (ascii_dec c c); [exact IH|congruence]. Qed.

(* every block of the error text is the rendering of one reported error and starts by naming its field *)
Theorem render_names_field subset errs s :
  In s (error_list subset errs) ->
  exists e, In e errs /\ s = render_error subset e /\ String.prefix ("  * " ^^ e_field e ^^ " did not match." ^^ nl) s = true.
Proof.
  unfold error_list, sort_strs. intros H. apply sort_by_In in H. apply in_map_iff in H. destruct H as (e & <- & He).
  exists e. split; [exact He|]. split; [reflexivity|]. unfold render_error, render_head.
  apply prefix_app.
Qed.

Theorem render_count subset errs : List.length (error_list subset errs) = List.length errs.
Proof. unfold error_list, sort_strs. rewrite sort_by_length, map_length. reflexivity. Qed.

Theorem render_none subset : error_str subset [] = "".
Proof. reflexivity. Qed.

(* recorded finding: a one-element value whose only name parses as an int is not shown verbatim *)
Theorem render_verbatim_refuted : exists l, normalize_error_field l <> join ", " l.
Proof. exists ["007"]. vm_compute. discriminate. Qed.

Theorem render_verbatim_partial l : (forall x, l = [x] -> py_int x = None) -> normalize_error_field l = join ", " l.
Proof.
  intros H. unfold normalize_error_field. destruct l as [|x [|y r]]; try reflexivity.
  rewrite (H x eq_refl). reflexivity.
Qed.

(* observation (follows the statement's wording): under subset mode the policy's optional host keys play no role in the verdict *)
Theorem subset_ignores_optional p pr opt :
  p_subset p = true ->
  fst (evaluate p pr) =
  fst (evaluate {| p_name := p_name p; p_version := p_version p; p_banner := p_banner p; p_compressions := p_compressions p;
                   p_host_keys := p_host_keys p; p_optional_host_keys := opt; p_kex := p_kex p; p_ciphers := p_ciphers p;
                   p_macs := p_macs p; p_hostkey_sizes := p_hostkey_sizes p; p_dh_modulus_sizes := p_dh_modulus_sizes p;
                   p_server_policy := p_server_policy p; p_subset := p_subset p; p_larger := p_larger p |} pr).
Proof.
  intros S. apply eq_true_iff_eq. rewrite !evaluate_correct. unfold satisfies, banner_sat, compression_sat, host_keys_sat, hostkey_sizes_sat,
    kex_sat, ciphers_sat, macs_sat, dh_sat. cbn [p_banner p_compressions p_host_keys p_optional_host_keys p_kex p_ciphers p_macs
    p_hostkey_sizes p_dh_modulus_sizes p_subset p_larger]. rewrite S. tauto.
Qed.
