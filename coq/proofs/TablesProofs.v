From VModel Require Import TablesSpec.
Open Scope string_scope. Open Scope list_scope.

Lemma flat_map_nil {A B} (f : A -> list B) l : flat_map f l = [] -> forall x, In x l -> f x = [].
Proof.
  induction l as [|a l IH]; cbn [flat_map]; intros H x Hx; [destruct Hx|].
  apply app_eq_nil in H. destruct H as [Ha Hl]. destruct Hx as [->|Hx]; [exact Ha|exact (IH Hl x Hx)].
Qed.

(* generic: an empty offender list means the pointwise statement *)
Lemma broken_without_failure_spec (d : rawdb) :
  broken_without_failure d = [] ->
  forall c cat n e, In (c, cat) d -> In (n, e) cat -> broken_matches n <> [] -> has_fail e = true.
Proof.
  intros H c cat n e Hc Hn Hm. unfold broken_without_failure in H.
  pose proof (flat_map_nil _ _ H (c, cat) Hc) as H1. cbn [fst snd] in H1.
  pose proof (flat_map_nil _ _ H1 (n, e) Hn) as H2. cbn [fst snd] in H2.
  destruct (broken_matches n) as [|m ms]; [congruence|].
  destruct (has_fail e); [reflexivity|discriminate].
Qed.

Lemma badly_shaped_spec (d : rawdb) :
  badly_shaped d = [] -> forall c cat n e, In (c, cat) d -> In (n, e) cat -> entry_shape_ok e = true.
Proof.
  intros H c cat n e Hc Hn. unfold badly_shaped in H.
  pose proof (flat_map_nil _ _ H (c, cat) Hc) as H1. cbn [fst snd] in H1.
  pose proof (flat_map_nil _ _ H1 (n, e) Hn) as H2. cbn [fst snd] in H2.
  destruct (entry_shape_ok e); [reflexivity|discriminate].
Qed.

Lemma unknown_in_spec d c names :
  unknown_in d c names = [] -> forall n, In n names -> exists e, db_get d c n = Some e.
Proof.
  intros H n Hn. unfold unknown_in in H. pose proof (flat_map_nil _ _ H n Hn) as H1. cbn beta in H1.
  destruct (db_get d c n) as [e|]; [eauto|discriminate].
Qed.

Lemma policies_unknown_spec :
  policies_unknown = [] ->
  forall p c n, In p builtin_policies -> In (c, n) (policy_refs p) -> exists e, db_get ssh2_db c n = Some e.
Proof.
  intros H p c n Hp Hr. unfold policies_unknown in H.
  pose proof (flat_map_nil _ _ H p Hp) as H1. cbn beta in H1.
  pose proof (flat_map_nil _ _ H1 (c, n) Hr) as H2. cbn [fst snd] in H2.
  destruct (db_get ssh2_db c n) as [e|]; [eauto|discriminate].
Qed.

Lemma policies_failed_spec :
  policies_failed = [] ->
  forall p c n e, In p builtin_policies -> In (c, n) (policy_refs p) -> db_get ssh2_db c n = Some e -> has_fail e = false.
Proof.
  intros H p c n e Hp Hr He. unfold policies_failed in H.
  pose proof (flat_map_nil _ _ H p Hp) as H1. cbn beta in H1.
  pose proof (flat_map_nil _ _ H1 (c, n) Hr) as H2. cbn [fst snd] in H2. rewrite He in H2.
  destruct (has_fail e); [discriminate|reflexivity].
Qed.

(* ---- the finite facts about the CURRENT generated tables (kernel-evaluated) ---- *)
Lemma policies_unknown_nil : policies_unknown = []. Proof. vm_compute. reflexivity. Qed.
Lemma policies_failed_nil : policies_failed = []. Proof. vm_compute. reflexivity. Qed.
Lemma hostkey_table_unknown_nil : hostkey_table_unknown = []. Proof. vm_compute. reflexivity. Qed.
Lemma dheat_tables_unknown_nil : dheat_tables_unknown = []. Proof. vm_compute. reflexivity. Qed.
Lemma ssh1_tables_unknown_nil : ssh1_tables_unknown = []. Proof. vm_compute. reflexivity. Qed.
Lemma ssh2_broken_nil : broken_without_failure ssh2_db = []. Proof. vm_compute. reflexivity. Qed.
Lemma ssh1_broken_unlisted_nil : ssh1_broken_unlisted = []. Proof. vm_compute. reflexivity. Qed.
Lemma ssh2_shape_nil : badly_shaped ssh2_db = []. Proof. vm_compute. reflexivity. Qed.
Lemma ssh1_shape_nil : badly_shaped ssh1_db = []. Proof. vm_compute. reflexivity. Qed.
Lemma ssh2_keys_nodup : duplicate_keys ssh2_db = []. Proof. vm_compute. reflexivity. Qed.
Lemma ssh1_keys_nodup : duplicate_keys ssh1_db = []. Proof. vm_compute. reflexivity. Qed.
Lemma builtin_nonempty : builtin_policies <> []. Proof. vm_compute. discriminate. Qed.

(* recorded finding, stated so that it cannot silently change: exactly these three SSH-1 entries *)
Lemma ssh1_broken_is_known_gaps :
  map fst (broken_without_failure ssh1_db) = ssh1_known_gaps.
Proof. vm_compute. reflexivity. Qed.

Lemma policies_known_thm :
  forall p c n, In p builtin_policies -> In (c, n) (policy_refs p) -> exists e, db_get ssh2_db c n = Some e.
Proof. exact (policies_unknown_spec policies_unknown_nil). Qed.
Lemma policies_no_fail_thm :
  forall p c n e, In p builtin_policies -> In (c, n) (policy_refs p) -> db_get ssh2_db c n = Some e -> has_fail e = false.
Proof. exact (policies_failed_spec policies_failed_nil). Qed.
Lemma hostkey_table_known_thm :
  forall n, In n (map (fun x => match x with (t, _, _) => t end) host_key_types ++ rsa_family) ->
  exists e, db_get ssh2_db "key" n = Some e.
Proof. exact (unknown_in_spec _ _ _ hostkey_table_unknown_nil). Qed.
Lemma dheat_tables_known_thm :
  forall n, In n (dheat_gex_algs ++ dheat_alg_priority ++ map fst dheat_alg_modulus_sizes ++ dheat_tested_algs
                  ++ gex_algs ++ map fst hk_kex_to_group) ->
  exists e, db_get ssh2_db "kex" n = Some e.
Proof. exact (unknown_in_spec _ _ _ dheat_tables_unknown_nil). Qed.
Lemma ssh2_broken_primitives_failed_thm :
  forall c cat n e, In (c, cat) ssh2_db -> In (n, e) cat -> broken_matches n <> [] -> has_fail e = true.
Proof. exact (broken_without_failure_spec _ ssh2_broken_nil). Qed.
Lemma ssh1_broken_primitives_failed_partial_thm :
  forall c cat n e, In (c, cat) ssh1_db -> In (n, e) cat -> broken_matches n <> [] ->
  pair_in (c, n) ssh1_known_gaps = false -> has_fail e = true.
Proof.
  intros c cat n e Hc Hn Hm Hk.
  assert (H: forall x, In x (broken_without_failure ssh1_db) -> pair_in (fst x) ssh1_known_gaps = true).
  { intros x Hx. pose proof ssh1_broken_unlisted_nil as Hnil. unfold ssh1_broken_unlisted in Hnil.
    destruct (pair_in (fst x) ssh1_known_gaps) eqn:E; [reflexivity|].
    assert (Hin: In x (filter (fun x => negb (pair_in (fst x) ssh1_known_gaps)) (broken_without_failure ssh1_db))).
    { apply filter_In. split; [exact Hx|]. rewrite E. reflexivity. }
    rewrite Hnil in Hin. destruct Hin. }
  destruct (has_fail e) eqn:Ef; [reflexivity|exfalso].
  assert (Hin: In (c, n, broken_matches n) (broken_without_failure ssh1_db)).
  { unfold broken_without_failure. apply in_flat_map. exists (c, cat). split; [exact Hc|].
    cbn [fst snd]. apply in_flat_map. exists (n, e). split; [exact Hn|]. cbn [fst snd].
    destruct (broken_matches n) as [|m ms] eqn:Em; [congruence|]. rewrite Ef. left. reflexivity. }
  specialize (H _ Hin). cbn [fst] in H. congruence.
Qed.
Lemma entries_shaped_thm :
  forall c cat n e, (In (c, cat) ssh2_db \/ In (c, cat) ssh1_db) -> In (n, e) cat -> entry_shape_ok e = true.
Proof.
  intros c cat n e [H|H] Hn; [exact (badly_shaped_spec _ ssh2_shape_nil c cat n e H Hn)|exact (badly_shaped_spec _ ssh1_shape_nil c cat n e H Hn)].
Qed.
