(* Proofs about the group-exchange probe loop and the rating-table edit (model/Gex.v). *)
From VModel Require Import Gex.
From VProofs Require Import TerrapinProofs.
From Coq Require Import Lia.
Open Scope string_scope. Open Scope list_scope. Open Scope Z_scope.

(* ------------------------------------------------------------------ number of probes *)
Lemma exact_loop_length sizes : forall o k sm rf,
  (List.length (snd (exact_loop o k sizes sm rf)) <= List.length sizes)%nat.
Proof.
  induction sizes as [|b rest IH]; intros; cbn [exact_loop].
  - cbn. lia.
  - destruct ((sm <=? b) && (0 <? sm)).
    + cbn. lia.
    + specialize (IH o (S k) (ans_val (o k (exact b))) (ans_rf (o k (exact b)))).
      destruct (exact_loop o (S k) rest (ans_val (o k (exact b))) (ans_rf (o k (exact b)))) as [[sm' rf'] t].
      cbn in *. lia.
Qed.

Lemma first_pass_length o : (List.length (snd (first_pass o)) <= 8)%nat.
Proof.
  unfold first_pass. destruct (ans_rf (o 0%nat gex_first_probe)).
  - cbn. lia.
  - pose proof (exact_loop_length gex_probe_sizes o 1%nat (ans_val (o 0%nat gex_first_probe)) false) as H.
    change (List.length gex_probe_sizes) with 7%nat in H.
    destruct (exact_loop o 1%nat gex_probe_sizes (ans_val (o 0%nat gex_first_probe)) false) as [[sm rf] t].
    cbn in *. lia.
Qed.

Theorem probes_le_9 o b : (List.length (g_trace (probe_loop o b)) <= 9)%nat.
Proof.
  unfold probe_loop. pose proof (first_pass_length o) as H.
  destruct (first_pass o) as [[sm rf] t]. cbn in H.
  destruct ((sm =? gex_openssh_trigger) && b); cbn [g_trace].
  - rewrite app_length. cbn. lia.
  - lia.
Qed.

(* ------------------------------------------------------------------ the trace is what the server answered *)
Definition faithful (o : oracle) (k : nat) (t : trace) : Prop :=
  forall i r a, nth_error t i = Some (r, a) -> a = o (k + i)%nat r.

Lemma exact_loop_faithful sizes : forall o k sm rf, faithful o k (snd (exact_loop o k sizes sm rf)).
Proof.
  induction sizes as [|b rest IH]; intros; cbn [exact_loop].
  - intros [|i] r a H; discriminate H.
  - destruct ((sm <=? b) && (0 <? sm)).
    + intros [|i] r a H; discriminate H.
    + specialize (IH o (S k) (ans_val (o k (exact b))) (ans_rf (o k (exact b)))).
      destruct (exact_loop o (S k) rest (ans_val (o k (exact b))) (ans_rf (o k (exact b)))) as [[sm' rf'] t].
      cbn [snd] in *. intros [|i] r a H.
      * cbn in H. inversion H; subst. rewrite Nat.add_0_r. reflexivity.
      * cbn in H. apply IH in H. rewrite Nat.add_succ_r. exact H.
Qed.

Lemma first_pass_faithful o : faithful o 0 (snd (first_pass o)).
Proof.
  unfold first_pass. destruct (ans_rf (o 0%nat gex_first_probe)).
  - intros [|[|i]] r a H; cbn in H; try discriminate H. inversion H; subst. reflexivity.
  - pose proof (exact_loop_faithful gex_probe_sizes o 1%nat (ans_val (o 0%nat gex_first_probe)) false) as F.
    destruct (exact_loop o 1%nat gex_probe_sizes (ans_val (o 0%nat gex_first_probe)) false) as [[sm rf] t].
    cbn [snd] in *. intros [|i] r a H.
    + cbn in H. inversion H; subst. reflexivity.
    + cbn in H. apply F in H. exact H.
Qed.

Theorem trace_faithful o b : faithful o 0 (g_trace (probe_loop o b)).
Proof.
  unfold probe_loop. pose proof (first_pass_faithful o) as F.
  destruct (first_pass o) as [[sm rf] t]. cbn [snd] in F.
  destruct ((sm =? gex_openssh_trigger) && b); cbn [g_trace]; [|exact F].
  intros i r a H. destruct (Nat.lt_ge_cases i (List.length t)) as [L|L].
  - rewrite nth_error_app1 in H by exact L. apply F. exact H.
  - rewrite nth_error_app2 in H by exact L.
    destruct (i - List.length t)%nat as [|j] eqn:E.
    + cbn in H. inversion H; subst. cbn. replace i with (List.length t) by lia. reflexivity.
    + cbn in H. destruct j; discriminate H.
Qed.

(* ------------------------------------------------------------------ the result is the answer to the LAST probe *)
Lemma last_cons_default {A} (t : list A) : forall y x, last (y :: t) x = last t y.
Proof.
  induction t as [|a t IH]; intros; [reflexivity|].
  change (last (y :: a :: t) x) with (last (a :: t) x). rewrite IH. symmetry. apply IH.
Qed.

Lemma exact_loop_last sizes : forall o k (x : request * answer),
  match exact_loop o k sizes (ans_val (snd x)) (ans_rf (snd x)) with
  | (sm', rf', t) => sm' = ans_val (snd (last t x)) /\ rf' = ans_rf (snd (last t x))
  end.
Proof.
  induction sizes as [|b rest IH]; intros; cbn [exact_loop].
  - cbn. auto.
  - destruct ((ans_val (snd x) <=? b) && (0 <? ans_val (snd x))).
    + cbn. auto.
    + specialize (IH o (S k) (exact b, o k (exact b))). cbn [snd] in IH.
      destruct (exact_loop o (S k) rest (ans_val (o k (exact b))) (ans_rf (o k (exact b)))) as [[sm' rf'] t].
      rewrite last_cons_default. exact IH.
Qed.

Lemma first_pass_last o d :
  match first_pass o with
  | (sm, rf, t) => t <> [] /\ sm = ans_val (snd (last t d)) /\ rf = ans_rf (snd (last t d))
  end.
Proof.
  unfold first_pass. destruct (ans_rf (o 0%nat gex_first_probe)) eqn:R.
  - cbn. rewrite R. repeat split; auto. discriminate.
  - pose proof (exact_loop_last gex_probe_sizes o 1%nat (gex_first_probe, o 0%nat gex_first_probe)) as L.
    cbn [snd] in L. rewrite R in L.
    destruct (exact_loop o 1%nat gex_probe_sizes (ans_val (o 0%nat gex_first_probe)) false) as [[sm rf] t].
    rewrite last_cons_default. split; [discriminate|exact L].
Qed.

Theorem reported_is_last_answer o b d :
  g_size (probe_loop o b) = pos_size (ans_val (snd (last (g_trace (probe_loop o b)) d))).
Proof.
  unfold probe_loop. pose proof (first_pass_last o d) as L.
  destruct (first_pass o) as [[sm rf] t]. destruct L as (_ & L & _).
  destruct ((sm =? gex_openssh_trigger) && b); cbn [g_size g_trace].
  - rewrite last_last. reflexivity.
  - rewrite L. reflexivity.
Qed.

(* leaving the loop over the algorithms: exactly when the last first-pass probe could not reconnect *)
Theorem stop_is_last_first_pass_reconnect o b d :
  g_stop (probe_loop o b) = ans_rf (snd (last (snd (first_pass o)) d)).
Proof.
  unfold probe_loop. pose proof (first_pass_last o d) as L.
  destruct (first_pass o) as [[sm rf] t]. destruct L as (_ & _ & L). cbn [snd].
  destruct ((sm =? gex_openssh_trigger) && b); cbn [g_stop]; exact L.
Qed.

Lemma trace_nonempty o b : g_trace (probe_loop o b) <> [].
Proof.
  unfold probe_loop. pose proof (first_pass_last o (gex_first_probe, NoSize)) as L.
  destruct (first_pass o) as [[sm rf] t]. destruct L as (N & _).
  destruct ((sm =? gex_openssh_trigger) && b); cbn [g_trace]; [|exact N].
  destruct t; discriminate.
Qed.

Lemma last_In {A} (t : list A) d : t <> [] -> In (last t d) t.
Proof.
  induction t as [|a t IH]; intros N; [contradiction|].
  destruct t as [|a' t]; [left; reflexivity|].
  right. change (last (a :: a' :: t) d) with (last (a' :: t) d). apply IH. discriminate.
Qed.

Lemma pos_size_ans a s : pos_size (ans_val a) = Some s -> a = Bits s /\ 0 < s.
Proof.
  unfold pos_size. destruct a as [n| |]; cbn [ans_val].
  - destruct (0 <? n) eqn:E; intros H; inversion H; subst. apply Z.ltb_lt in E. auto.
  - cbn. discriminate.
  - cbn. discriminate.
Qed.

Theorem reported_was_handed_out o b s :
  g_size (probe_loop o b) = Some s ->
  0 < s /\ exists k r, nth_error (g_trace (probe_loop o b)) k = Some (r, Bits s) /\ o k r = Bits s.
Proof.
  intros H. rewrite (reported_is_last_answer o b (gex_first_probe, NoSize)) in H.
  apply pos_size_ans in H. destruct H as [H P]. split; [exact P|].
  pose proof (last_In (g_trace (probe_loop o b)) (gex_first_probe, NoSize) (trace_nonempty o b)) as I.
  destruct (last (g_trace (probe_loop o b)) (gex_first_probe, NoSize)) as [r a]. cbn [snd] in H. subst a.
  apply In_nth_error in I. destruct I as [k I]. exists k, r. split; [exact I|].
  symmetry. apply (trace_faithful o b k r (Bits s)) in I. exact I.
Qed.

Theorem no_answer_no_size o b :
  (forall k r n, o k r <> Bits n) -> g_size (probe_loop o b) = None.
Proof.
  intros H. destruct (g_size (probe_loop o b)) as [s|] eqn:E; [|reflexivity].
  apply reported_was_handed_out in E. destruct E as (_ & k & r & _ & E). exfalso. exact (H k r s E).
Qed.

(* a trace without any handed-out group yields no size (refuse / stall / garbage / reconnect failure) *)
Theorem no_bits_in_trace_no_size o b :
  (forall r a, In (r, a) (g_trace (probe_loop o b)) -> forall n, a <> Bits n) -> g_size (probe_loop o b) = None.
Proof.
  intros H. destruct (g_size (probe_loop o b)) as [s|] eqn:E; [|reflexivity].
  apply reported_was_handed_out in E. destruct E as (_ & k & r & I & _).
  apply nth_error_In in I. exfalso. exact (H r (Bits s) I s eq_refl).
Qed.

(* ------------------------------------------------------------------ OpenSSH second pass *)
Theorem openssh_second_pass o sm rf t :
  first_pass o = (sm, rf, t) ->
  (sm = 2048 ->
     let a := o (List.length t) gex_second_pass in
     g_trace (probe_loop o true) = t ++ [(gex_second_pass, a)]
     /\ g_size (probe_loop o true) = pos_size (ans_val a)
     /\ g_updated (probe_loop o true) = (0 <? ans_val a) && negb (ans_val a =? 2048))
  /\ (sm <> 2048 ->
     g_trace (probe_loop o true) = t /\ g_size (probe_loop o true) = pos_size sm /\ g_updated (probe_loop o true) = false)
  /\ (g_trace (probe_loop o false) = t /\ g_size (probe_loop o false) = pos_size sm /\ g_updated (probe_loop o false) = false).
Proof.
  intros F. unfold probe_loop. rewrite F. change gex_openssh_trigger with 2048. split; [|split].
  - intros E. subst sm. cbn [Z.eqb Pos.eqb andb g_trace g_size g_updated]. repeat split.
  - intros E. destruct (sm =? 2048) eqn:Q; [apply Z.eqb_eq in Q; contradiction|]. cbn [andb g_trace g_size g_updated]. repeat split.
  - rewrite andb_false_r. cbn [g_trace g_size g_updated]. repeat split.
Qed.

(* the explanatory note is only claimed for a size that differs from 2048 and was really handed out *)
Theorem updated_implies_other_size o b :
  g_updated (probe_loop o b) = true ->
  b = true /\ exists n, g_size (probe_loop o b) = Some n /\ n <> 2048 /\ fst (fst (first_pass o)) = 2048.
Proof.
  unfold probe_loop. destruct (first_pass o) as [[sm rf] t]. cbn [fst].
  destruct ((sm =? gex_openssh_trigger) && b) eqn:E; cbn [g_updated g_size]; [|discriminate].
  apply andb_prop in E. destruct E as [E1 E2]. apply Z.eqb_eq in E1. intros U. apply andb_prop in U. destruct U as [U1 U2].
  split; [exact E2|]. exists (ans_val (o (List.length t) gex_second_pass)). unfold pos_size. rewrite U1.
  split; [reflexivity|]. split; [|exact E1].
  apply negb_true_iff in U2. apply Z.eqb_neq in U2. exact U2.
Qed.

(* when the tool finally reports 2048 bits for a server whose banner says OpenSSH, the 2048-4096 probe itself
   was answered with 2048 (this is the value post_process_findings' OpenSSH note is attached to) *)
Theorem openssh_final_2048_confirmed o :
  g_size (probe_loop o true) = Some 2048 ->
  g_updated (probe_loop o true) = false
  /\ exists t, g_trace (probe_loop o true) = t ++ [(gex_second_pass, Bits 2048)].
Proof.
  unfold probe_loop. pose proof (first_pass_last o (gex_first_probe, NoSize)) as L.
  destruct (first_pass o) as [[sm rf] t].
  destruct ((sm =? gex_openssh_trigger) && true) eqn:E; cbn [g_updated g_size g_trace].
  - intros H. apply pos_size_ans in H. destruct H as [H _]. rewrite H. cbn. split; [reflexivity|]. exists t. reflexivity.
  - intros H. rewrite andb_true_r in E. apply Z.eqb_neq in E. unfold pos_size in H.
    destruct (0 <? sm); inversion H. subst. contradiction.
Qed.

Lemma openssh_2048_split sw k dh :
  openssh_2048 sw k dh
  = mem gex256 (kl_kex k) && (match assoc gex256 dh with Some sz => sz =? 2048 | None => false end) && is_openssh sw.
Proof. unfold is_openssh, openssh_2048. cbn. destruct sw as [s|]; reflexivity. Qed.

(* ------------------------------------------------------------------ the table edit *)
Lemma has_text_mem t l : has_text t l = mem t (somes l).
Proof.
  induction l as [|[s|] l IH]; cbn; [reflexivity| |exact IH].
  rewrite String.eqb_sym. destruct (String.eqb t s); [reflexivity|exact IH].
Qed.

Lemma nth_nil_desc i : nth i (@nil (list (option string))) [] = [].
Proof. destruct i; reflexivity. Qed.

Lemma nth_pad_to n : forall (e : desc) i, nth i (pad_to n e) [] = nth i e [].
Proof.
  induction n as [|n IH]; intros; [reflexivity|].
  destruct e as [|x r]; cbn [pad_to].
  - destruct i as [|i]; [reflexivity|]. cbn [nth]. rewrite IH. rewrite !nth_nil_desc. reflexivity.
  - destruct i as [|i]; [reflexivity|]. cbn [nth]. apply IH.
Qed.

Lemma nth_append_once_other i j t e : i <> j -> nth j (append_once i t e) [] = nth j e [].
Proof.
  intros N. unfold append_once. destruct (has_text t (nth i e [])).
  - apply nth_pad_to.
  - apply nth_append_at_other. exact N.
Qed.

Lemma comp_append_once_other i j t e : i <> j -> comp (append_once i t e) j = comp e j.
Proof. intros N. unfold comp. rewrite nth_append_once_other by exact N. reflexivity. Qed.

Lemma comp_append_once_same i t e :
  comp (append_once i t e) i = if mem t (comp e i) then comp e i else comp e i ++ [t].
Proof.
  unfold append_once. rewrite has_text_mem. fold (comp e i). destruct (mem t (comp e i)).
  - unfold comp. rewrite nth_pad_to. reflexivity.
  - apply comp_append_at_same.
Qed.

Lemma set_fail_spec t e : e <> [] ->
  exists e', set_fail t e = Ok e' /\ e' <> [] /\ versions e' = versions e /\ fails e' = [t]
             /\ warns e' = warns e /\ infos e' = infos e.
Proof.
  intros N. destruct e as [|v [|f r]]; [contradiction| |].
  - eexists. split; [reflexivity|]. repeat split; discriminate.
  - eexists. split; [reflexivity|]. repeat split; discriminate.
Qed.

Lemma append_once_nonempty i t e : e <> [] -> append_once i t e <> [].
Proof.
  intros N. destruct e as [|x r]; [contradiction|]. unfold append_once.
  destruct (has_text t (nth i (x :: r) [])); destruct i; discriminate.
Qed.

Theorem gex_thresholds n upd e : e <> [] ->
  exists e', db_edit n upd e = Ok e'
    /\ versions e' = versions e
    /\ fails e' = (if n <? 2048 then [gex_small_text n] else fails e)
    /\ warns e' = (if (2048 <=? n) && (n <? 3072) && negb (mem gex_warn_text (warns e)) then warns e ++ [gex_warn_text] else warns e)
    /\ infos e' = (if upd && negb (mem (gex_fallback_text n) (infos e)) then infos e ++ [gex_fallback_text n] else infos e).
Proof.
  intros N. unfold db_edit. change gex_fail_below with 2048. change gex_warn_below with 3072.
  assert (Fin : forall e1, e1 <> [] ->
     let e' := if upd then append_once 3 (gex_fallback_text n) e1 else e1 in
     versions e' = versions e1 /\ fails e' = fails e1 /\ warns e' = warns e1
     /\ infos e' = (if upd && negb (mem (gex_fallback_text n) (infos e1)) then infos e1 ++ [gex_fallback_text n] else infos e1)).
  { intros e1 N1. destruct upd; cbn [andb]; [|auto].
    unfold versions, fails, warns, infos. rewrite nth_append_once_other by discriminate.
    rewrite (comp_append_once_other 3 1), (comp_append_once_other 3 2) by discriminate. rewrite comp_append_once_same.
    repeat split. destruct (mem (gex_fallback_text n) (comp e1 3)); reflexivity. }
  destruct (n <? 2048) eqn:A.
  - destruct (set_fail_spec (gex_small_text n) e N) as (e1 & S & N1 & V & Fl & W & I).
    rewrite S. cbn [bind]. eexists. split; [reflexivity|].
    destruct (Fin e1 N1) as (V' & F' & W' & I'). rewrite V', F', W', I', V, Fl, W, I.
    assert (B : (2048 <=? n) = false) by (apply Z.ltb_lt in A; apply Z.leb_gt; exact A).
    rewrite B. cbn [andb]. auto.
  - assert (B : (2048 <=? n) = true) by (apply Z.ltb_ge in A; apply Z.leb_le; exact A). rewrite B. cbn [andb].
    destruct (n <? 3072) eqn:C; cbn [bind andb].
    + eexists. split; [reflexivity|].
      destruct (Fin (append_once 2 gex_warn_text e) (append_once_nonempty 2 gex_warn_text e N)) as (V' & F' & W' & I').
      rewrite V', F', W', I'. unfold versions, fails, warns, infos.
      rewrite nth_append_once_other by discriminate.
      rewrite (comp_append_once_other 2 1), !(comp_append_once_other 2 3) by discriminate.
      rewrite comp_append_once_same. repeat split. destruct (mem gex_warn_text (comp e 2)); reflexivity.
    + eexists. split; [reflexivity|]. destruct (Fin e N) as (V' & F' & W' & I'). rewrite V', F', W', I'. auto.
Qed.

(* the fallback note is really in the entry whenever the probe loop claims it *)
Theorem fallback_note_present n e e' : e <> [] -> db_edit n true e = Ok e' -> In (gex_fallback_text n) (infos e').
Proof.
  intros N H. destruct (gex_thresholds n true e N) as (e1 & E & _ & _ & _ & I). rewrite E in H. inversion H; subst e1.
  rewrite I. cbn [andb]. destruct (mem (gex_fallback_text n) (infos e)) eqn:M; cbn [negb].
  - apply mem_In. exact M.
  - apply in_or_app. right. left. reflexivity.
Qed.

Theorem gex_level_spec n :
  (gex_level n = 2 <-> n < 2048) /\ (gex_level n = 1 <-> 2048 <= n < 3072) /\ (gex_level n = 0 <-> 3072 <= n).
Proof.
  unfold gex_level, gex_fail_below, gex_warn_below.
  destruct (Z.ltb_spec n 2048); destruct (Z.ltb_spec n 3072); repeat split; intros; try lia.
Qed.

Theorem gex_rating_monotone n m : n <= m -> gex_level m <= gex_level n.
Proof.
  unfold gex_level, gex_fail_below, gex_warn_below. intros.
  destruct (Z.ltb_spec n 2048); destruct (Z.ltb_spec n 3072); destruct (Z.ltb_spec m 2048); destruct (Z.ltb_spec m 3072); lia.
Qed.

(* the level is what the edit writes: a size failure iff level 2, the 2048-bit warning added iff level 1 *)
Theorem gex_level_edit n upd e : e <> [] ->
  exists e', db_edit n upd e = Ok e'
    /\ (gex_level n = 2 -> fails e' = [gex_small_text n] /\ warns e' = warns e)
    /\ (gex_level n = 1 -> fails e' = fails e /\ In gex_warn_text (warns e'))
    /\ (gex_level n = 0 -> fails e' = fails e /\ warns e' = warns e).
Proof.
  intros N. destruct (gex_thresholds n upd e N) as (e' & E & _ & F & W & _). exists e'. split; [exact E|].
  destruct (gex_level_spec n) as (L2 & L1 & L0). split; [|split]; intros L.
  - apply L2 in L. split.
    + apply Z.ltb_lt in L. rewrite F, L. reflexivity.
    + rewrite W. assert (B : (2048 <=? n) = false) by (apply Z.leb_gt; exact L). rewrite B. reflexivity.
  - apply L1 in L. split.
    + rewrite F. assert (B : (n <? 2048) = false) by (apply Z.ltb_ge; lia). rewrite B. reflexivity.
    + rewrite W.
      assert (B : (2048 <=? n) = true) by (apply Z.leb_le; lia). assert (C : (n <? 3072) = true) by (apply Z.ltb_lt; lia).
      rewrite B, C. cbn [andb]. destruct (mem gex_warn_text (warns e)) eqn:M; cbn [negb].
      * apply mem_In. exact M.
      * apply in_or_app. right. left. reflexivity.
  - apply L0 in L. split.
    + rewrite F. assert (B : (n <? 2048) = false) by (apply Z.ltb_ge; lia). rewrite B. reflexivity.
    + rewrite W. assert (C : (n <? 3072) = false) by (apply Z.ltb_ge; lia). rewrite C, andb_false_r. reflexivity.
Qed.

(* ------------------------------------------------------------------ the loop over the algorithms *)
Lemma dh_set_In a n dh a' n' : In (a', n') (dh_set a n dh) -> (a' = a /\ n' = n) \/ In (a', n') dh.
Proof.
  induction dh as [|[b m] r IH]; cbn [dh_set]; intros H.
  - destruct H as [H|[]]. inversion H. auto.
  - destruct (String.eqb a b) eqn:E.
    + apply String.eqb_eq in E. subst b. destruct H as [H|H]; [inversion H; auto|right; right; exact H].
    + destruct H as [H|H]; [right; left; exact H|]. apply IH in H. destruct H; [auto|right; right; assumption].
Qed.

Lemma apply_result_dh alg r d dh d' dh' :
  apply_result alg r d dh = Ok (d', dh') ->
  forall a n, In (a, n) dh' -> In (a, n) dh \/ (a = alg /\ g_size r = Some n).
Proof.
  unfold apply_result. destruct (g_size r) as [s|].
  - destruct (db_get d "kex" alg) as [e|]; [|discriminate]. destruct (db_edit s (g_updated r) e) as [e'|]; [|discriminate].
    cbn [bind]. intros H a n I. inversion H; subst. apply dh_set_In in I. destruct I as [[A B]|I]; [right; subst; auto|left; exact I].
  - intros H a n I. inversion H; subst. left. exact I.
Qed.

Theorem run_algs_sound os b offered algs : forall d dh d' dh' ts,
  run_algs os b offered algs d dh = Ok (d', dh', ts) ->
  (forall a t, In (a, t) ts ->
     In a algs /\ mem a offered = true /\ t = g_trace (probe_loop (os a) b) /\ (List.length t <= 9)%nat)
  /\ (forall a n, In (a, n) dh' ->
     In (a, n) dh \/ (In a algs /\ g_size (probe_loop (os a) b) = Some n /\ In (a, g_trace (probe_loop (os a) b)) ts)).
Proof.
  induction algs as [|x rest IH]; intros d dh d' dh' ts H; cbn [run_algs] in H.
  - inversion H; subst. split; [intros a t []|]. intros a n I. left. exact I.
  - destruct (mem x offered) eqn:M.
    + destruct (apply_result x (probe_loop (os x) b) d dh) as [[d1 dh1]|] eqn:A; [|discriminate]. cbn [bind fst snd] in H.
      pose proof (apply_result_dh _ _ _ _ _ _ A) as AD.
      destruct (g_stop (probe_loop (os x) b)).
      * inversion H; subst. split.
        -- intros a t [I|[]]. inversion I; subst. repeat split; [left; reflexivity|exact M|apply probes_le_9].
        -- intros a n I. apply AD in I. destruct I as [I|[I1 I2]]; [left; exact I|]. subst a.
           right. repeat split; [left; reflexivity|exact I2|left; reflexivity].
      * destruct (run_algs os b offered rest d1 dh1) as [[[d2 dh2] ts2]|] eqn:R; [|discriminate]. cbn [bind fst snd] in H.
        inversion H; subst. destruct (IH _ _ _ _ _ R) as [T D]. split.
        -- intros a t [I|I].
           ++ inversion I; subst. repeat split; [left; reflexivity|exact M|apply probes_le_9].
           ++ destruct (T a t I) as (T1 & T2 & T3 & T4). repeat split; [right; exact T1|exact T2|exact T3|exact T4].
        -- intros a n I. apply D in I. destruct I as [I|(I1 & I2 & I3)].
           ++ apply AD in I. destruct I as [I|[I1 I2]]; [left; exact I|]. subst a.
              right. repeat split; [left; reflexivity|exact I2|left; reflexivity].
           ++ right. repeat split; [right; exact I1|exact I2|right; exact I3].
    + destruct (IH _ _ _ _ _ H) as [T D]. split.
      * intros a t I. destruct (T a t I) as (T1 & T2 & T3 & T4). repeat split; [right; exact T1|exact T2|exact T3|exact T4].
      * intros a n I. apply D in I. destruct I as [I|(I1 & I2 & I3)]; [left; exact I|].
        right. repeat split; [right; exact I1|exact I2|exact I3].
Qed.

(* whole run: every recorded size was handed out to this algorithm's probes in this run; <= 9 probes per algorithm *)
Theorem gex_run_sound os b offered d d' dh ts :
  gex_run os b offered d = Ok (d', dh, ts) ->
  (forall a t, In (a, t) ts -> In a gex_algs /\ mem a offered = true /\ (List.length t <= 9)%nat)
  /\ (forall a n, In (a, n) dh -> 0 < n /\ exists t k r, In (a, t) ts /\ nth_error t k = Some (r, Bits n) /\ os a k r = Bits n).
Proof.
  unfold gex_run. intros H. destruct (run_algs_sound _ _ _ _ _ _ _ _ _ H) as [T D]. split.
  - intros a t I. destruct (T a t I) as (T1 & T2 & _ & T4). auto.
  - intros a n I. apply D in I. destruct I as [[]|(I1 & I2 & I3)].
    apply reported_was_handed_out in I2. destruct I2 as (P & k & r & N & O). split; [exact P|].
    exists (g_trace (probe_loop (os a) b)), k, r. auto.
Qed.

(* ------------------------------------------------------------------ the family of the quantifier *)
Inductive subseq {A} : list A -> list A -> Prop :=
| sub_nil : subseq [] []
| sub_skip x s l : subseq s l -> subseq s (x :: l)
| sub_take x s l : subseq s l -> subseq (x :: s) (x :: l).

Lemma subsets_complete {A} (l : list A) : forall s, subseq s l -> In s (subsets l).
Proof.
  intros s H. induction H; cbn [subsets].
  - left. reflexivity.
  - apply in_or_app. left. exact IHsubseq.
  - apply in_or_app. right. apply in_map. exact IHsubseq.
Qed.

Lemma subsets_sound {A} (l : list A) : forall s, In s (subsets l) -> subseq s l.
Proof.
  induction l as [|x r IH]; intros s H; cbn [subsets] in H.
  - destruct H as [H|[]]. subst. constructor.
  - apply in_app_or in H. destruct H as [H|H].
    + apply sub_skip. apply IH. exact H.
    + apply in_map_iff in H. destruct H as (s' & E & H). subst. apply sub_take. apply IH. exact H.
Qed.

Lemma subsets_spec {A} (l s : list A) : subseq s l <-> In s (subsets l).
Proof. split; [apply subsets_complete|apply subsets_sound]. Qed.

Lemma family_In st s b alg : subseq s nine_sizes -> In alg gex_algs -> In (st, s, b, alg) family.
Proof.
  intros S A. unfold family. apply in_flat_map. exists st. split; [destruct st; cbn; tauto|].
  apply in_flat_map. exists s. split; [apply subsets_complete; exact S|].
  apply in_flat_map. exists b. split; [destruct b; cbn; tauto|].
  apply in_map_iff. exists alg. auto.
Qed.

Lemma family_size : List.length family = (3 * 512 * 2 * 2)%nat.
Proof. vm_compute. reflexivity. Qed.

Lemma family_all_ok : forallb family_ok family = true.
Proof. vm_compute. reflexivity. Qed.

Lemma family_member_ok st s b alg : subseq s nine_sizes -> In alg gex_algs -> family_ok (st, s, b, alg) = true.
Proof. intros S A. exact (proj1 (forallb_forall family_ok family) family_all_ok _ (family_In st s b alg S A)). Qed.

Lemma optz_eqb_eq a b : optz_eqb a b = true <-> a = b.
Proof.
  unfold optz_eqb, opt_eqb. destruct a as [x|], b as [y|]; split; intros H; try discriminate; try reflexivity.
  - apply Z.eqb_eq in H. subst. reflexivity.
  - inversion H. apply Z.eqb_refl.
Qed.

Lemma result_eqb_eq a b : result_eqb a b = true <-> a = b.
Proof.
  unfold result_eqb. destruct a as [a1 a2], b as [b1 b2]. cbn [fst snd]. split; intros H.
  - apply andb_prop in H. destruct H as [H1 H2]. apply optz_eqb_eq in H1. apply eqb_prop in H2. subst. reflexivity.
  - inversion H; subst. apply andb_true_intro. split; [apply optz_eqb_eq; reflexivity|apply eqb_reflx].
Qed.

Lemma family_result st s b :
  subseq s nine_sizes -> result_eqb (model_result st s b) (expected st s b) = negb (deviates st s b).
Proof.
  intros S. pose proof (family_member_ok st s b "diffie-hellman-group-exchange-sha256" S) as H.
  assert (A : In "diffie-hellman-group-exchange-sha256" gex_algs) by (cbn; tauto).
  specialize (H A). unfold family_ok in H. apply andb_prop in H. destruct H as [H _]. apply eqb_prop in H. exact H.
Qed.

(* the statement as written holds on every behaviour of the family outside the recorded deviation ... *)
Theorem gex_family_correct_partial st s b :
  subseq s nine_sizes -> deviates st s b = false -> model_result st s b = expected st s b.
Proof. intros S D. apply result_eqb_eq. rewrite (family_result st s b S), D. reflexivity. Qed.

(* ... and on every deviating behaviour it fails: the side condition is exact *)
Theorem gex_family_deviation_exact st s b :
  subseq s nine_sizes -> deviates st s b = true -> model_result st s b <> expected st s b.
Proof.
  intros S D E. apply result_eqb_eq in E. rewrite (family_result st s b S), D in E. discriminate E.
Qed.

Lemma subseq_2048_3072 : subseq [2048; 3072] nine_sizes.
Proof. unfold nine_sizes. repeat (first [apply sub_nil | apply sub_take | apply sub_skip]). Qed.

Theorem gex_family_correct_refuted :
  exists st s b, subseq s nine_sizes /\ model_result st s b <> expected st s b
                 /\ model_result st s b = (Some 3072, true) /\ expected st s b = (Some 2048, false).
Proof.
  exists Strict, [2048; 3072], true. split; [exact subseq_2048_3072|].
  split; [|split; vm_compute; reflexivity]. vm_compute. discriminate.
Qed.

(* without an OpenSSH banner the statement holds on the whole family *)
Theorem gex_family_correct_other_banner st s :
  subseq s nine_sizes -> model_result st s false = expected st s false.
Proof. intros S. apply gex_family_correct_partial; [exact S|reflexivity]. Qed.

Lemma dh_list_eqb_eq (dh : list (string * Z)) a n : list_eqb (pair_eqb String.eqb Z.eqb) dh [(a, n)] = true -> dh = [(a, n)].
Proof.
  destruct dh as [|[a' n'] [|y r]]; cbn; try discriminate.
  - unfold pair_eqb. cbn [fst snd]. rewrite andb_true_r. intros H. apply andb_prop in H. destruct H as [H1 H2].
    apply String.eqb_eq in H1. apply Z.eqb_eq in H2. subst. reflexivity.
  - rewrite andb_false_r. discriminate.
Qed.

(* end to end on the shipped table, per algorithm: the size is recorded for the algorithm, the entry is rated by the
   thresholds of the statement, the fallback note is present exactly when the loop claims it; no answer, no size *)
Theorem gex_family_rated st s b alg :
  subseq s nine_sizes -> In alg gex_algs ->
  exists d dh ts, gex_run (fun _ _ => serve st s) b [alg] ssh2_db = Ok (d, dh, ts)
    /\ match fst (model_result st s b) with
       | Some n => dh = [(alg, n)] /\ rated_ok alg n d = true
                   /\ snd (model_result st s b)
                      = match db_get d "kex" alg with Some e => mem (gex_fallback_text n) (infos e) | None => false end
       | None => dh = []
       end.
Proof.
  intros S A. pose proof (family_member_ok st s b alg S A) as H. unfold family_ok in H.
  apply andb_prop in H. destruct H as [_ H].
  destruct (gex_run (fun _ _ => serve st s) b [alg] ssh2_db) as [[[d dh] ts]|]; [|discriminate H].
  exists d, dh, ts. split; [reflexivity|].
  destruct (fst (model_result st s b)) as [n|].
  - apply andb_prop in H. destruct H as [H H3]. apply andb_prop in H. destruct H as [H1 H2].
    apply dh_list_eqb_eq in H1. apply eqb_prop in H3. auto.
  - destruct dh; [reflexivity|discriminate H].
Qed.
