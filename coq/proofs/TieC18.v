(* C18: every literal / integer kernel that the hand-written model repeats from the Python source is proved equal to the copy the
   translator extracts from the current source on every run (gen/Tables.v, definitions whose names start with src_).  When the source changes there, the generated
   definition changes (or is left out when the shape is no longer recognised) and this file stops compiling: the model cannot go stale silently,
   and only this property's check is affected. *)
From Coq Require Import ZArith List String Bool Lia ZifyBool.
From VGen Require Import Tables.
From VModel Require Import Target.
Open Scope list_scope. Open Scope Z_scope.

(* every port-range test in the source (AuditConf setter, -p, targets file lines, SSH_Socket) rejects exactly the ports outside 1..65535 *)
Lemma tie_port_tests : forall p, Forall (fun b => b = negb (port_ok p)) (src_port_invalid_all p).
Proof.
  intros p. unfold src_port_invalid_all, src_port_invalid_0, src_port_invalid_1, src_port_invalid_2, src_port_invalid_3, port_ok.
  repeat constructor; lia.
Qed.

(* SSH_Socket._resolve as it reads now (T1c translation): the address family asked of getaddrinfo() and the direction of the sort for two preferences *)
Lemma tie_resolve_family : forall pref, gai_family pref = src_resolve_family pref.
Proof.
  intros pref. unfold gai_family, src_resolve_family, src_znth, AF_INET, AF_INET6. cbv zeta.
  destruct pref as [|v [|w r]]; cbn [List.length nth Z.to_nat]; try reflexivity.
  assert (H: (Z.of_nat (S (S (List.length r))) =? 1) = false) by (apply Z.eqb_neq; lia). rewrite H. reflexivity.
Qed.
Lemma tie_resolve_reverse : forall a b, (a =? 6) = src_resolve_reverse [a; b].
Proof. reflexivity. Qed.
