From Coq Require Import Lia ZifyBool.
From VModel Require Import Version.
Open Scope string_scope. Open Scope list_scope. Open Scope Z_scope.

(* ================= lex_cmp: the lexicographic order on number lists ================= *)
(* component-wise numeric "older than": first differing component is smaller, or a proper prefix *)
Inductive lex_lt : list Z -> list Z -> Prop :=
| lex_lt_prefix y b : lex_lt [] (y :: b)
| lex_lt_head x y a b : x < y -> lex_lt (x :: a) (y :: b)
| lex_lt_tail x a b : lex_lt a b -> lex_lt (x :: a) (x :: b).

Lemma lex_cmp_refl a : lex_cmp a a = 0.
Proof. induction a as [|x a IH]; cbn [lex_cmp]; [reflexivity|]. rewrite Z.ltb_irrefl. exact IH. Qed.

Lemma lex_cmp_range a b : lex_cmp a b = -1 \/ lex_cmp a b = 0 \/ lex_cmp a b = 1.
Proof.
  revert b; induction a as [|x a IH]; intros [|y b]; cbn [lex_cmp]; auto.
  destruct (x <? y); auto. destruct (y <? x); auto.
Qed.

Lemma lex_cmp_antisym a b : lex_cmp b a = - lex_cmp a b.
Proof.
  revert b; induction a as [|x a IH]; intros [|y b]; cbn [lex_cmp]; try reflexivity.
  destruct (x <? y) eqn:E1, (y <? x) eqn:E2; try reflexivity; try lia. apply IH.
Qed.

Lemma lex_cmp_eq a b : lex_cmp a b = 0 <-> a = b.
Proof.
  split; [|intros ->; apply lex_cmp_refl].
  revert b; induction a as [|x a IH]; intros [|y b]; cbn [lex_cmp]; try reflexivity; try discriminate.
  destruct (x <? y) eqn:E1; [discriminate|]. destruct (y <? x) eqn:E2; [discriminate|].
  intros H. assert (x = y) by lia. subst. f_equal. apply IH, H.
Qed.

Lemma lex_cmp_lt a b : lex_cmp a b = -1 <-> lex_lt a b.
Proof.
  split.
  - revert b; induction a as [|x a IH]; intros [|y b]; cbn [lex_cmp]; try discriminate.
    + intros _. constructor.
    + destruct (x <? y) eqn:E1; [intros _; apply lex_lt_head; lia|].
      destruct (y <? x) eqn:E2; [discriminate|]. intros H. assert (x = y) by lia. subst.
      apply lex_lt_tail, IH, H.
  - induction 1 as [y b|x y a b H|x a b H IH]; cbn [lex_cmp]; [reflexivity| |].
    + destruct (x <? y) eqn:E; [reflexivity|lia].
    + rewrite Z.ltb_irrefl. exact IH.
Qed.

Lemma lex_cmp_gt a b : lex_cmp a b = 1 <-> lex_lt b a.
Proof. rewrite <- lex_cmp_lt, (lex_cmp_antisym a b). lia. Qed.

(* transitivity in all its forms: with le := (cmp <= 0), lt := (cmp < 0) *)
Lemma lex_cmp_trans a b c :
  lex_cmp a b <= 0 -> lex_cmp b c <= 0 ->
  lex_cmp a c <= 0 /\ (lex_cmp a b < 0 \/ lex_cmp b c < 0 -> lex_cmp a c < 0).
Proof.
  revert b c; induction a as [|x a IH]; intros [|y b] [|z c]; cbn [lex_cmp]; try lia.
  destruct (x <? y) eqn:E1, (y <? x) eqn:E2, (y <? z) eqn:E3, (z <? y) eqn:E4, (x <? z) eqn:E5, (z <? x) eqn:E6; try lia.
  apply IH.
Qed.

Lemma lex_cmp_nil_r a : 0 <= lex_cmp a [].
Proof. destruct a; cbn [lex_cmp]; lia. Qed.

(* two-level key: version numbers first, then a rank for the patch suffix *)
Definition zcmp (x y : Z) : Z := if x <? y then -1 else if y <? x then 1 else 0.
Definition key_cmp (v1 : list Z) (r1 : Z) (v2 : list Z) (r2 : Z) : Z :=
  if lex_cmp v1 v2 =? 0 then zcmp r1 r2 else lex_cmp v1 v2.

Lemma key_cmp_antisym v1 r1 v2 r2 : key_cmp v2 r2 v1 r1 = - key_cmp v1 r1 v2 r2.
Proof.
  unfold key_cmp. rewrite (lex_cmp_antisym v1 v2).
  destruct (lex_cmp v1 v2 =? 0) eqn:E.
  - replace (- lex_cmp v1 v2 =? 0) with true by lia. unfold zcmp.
    destruct (r1 <? r2) eqn:E1, (r2 <? r1) eqn:E2; lia.
  - replace (- lex_cmp v1 v2 =? 0) with false by lia. reflexivity.
Qed.

Lemma key_cmp_trans v1 r1 v2 r2 v3 r3 :
  key_cmp v1 r1 v2 r2 <= 0 -> key_cmp v2 r2 v3 r3 <= 0 ->
  key_cmp v1 r1 v3 r3 <= 0 /\ (key_cmp v1 r1 v2 r2 < 0 \/ key_cmp v2 r2 v3 r3 < 0 -> key_cmp v1 r1 v3 r3 < 0).
Proof.
  unfold key_cmp.
  destruct (lex_cmp v1 v2 =? 0) eqn:E12; destruct (lex_cmp v2 v3 =? 0) eqn:E23.
  - apply Z.eqb_eq, lex_cmp_eq in E12. apply Z.eqb_eq, lex_cmp_eq in E23. subst v2 v3.
    rewrite lex_cmp_refl. cbn [Z.eqb]. unfold zcmp.
    destruct (r1 <? r2) eqn:A, (r2 <? r1) eqn:B, (r2 <? r3) eqn:C, (r3 <? r2) eqn:D, (r1 <? r3) eqn:F, (r3 <? r1) eqn:G; lia.
  - apply Z.eqb_eq, lex_cmp_eq in E12. subst v2. rewrite E23. intros _ H. lia.
  - apply Z.eqb_eq, lex_cmp_eq in E23. subst v3. rewrite E12. intros H _. lia.
  - intros H1 H2. destruct (lex_cmp_trans v1 v2 v3 H1 H2) as [Ha Hb].
    assert (lex_cmp v1 v3 < 0) by (apply Hb; lia).
    replace (lex_cmp v1 v3 =? 0) with false by lia. lia.
Qed.

(* ================= strings ================= *)
Lemma of_chars_chars s : of_chars (chars s) = s.
Proof. induction s as [|c s IH]; cbn [chars of_chars]; [reflexivity|]. rewrite IH. reflexivity. Qed.
Lemma chars_of_chars l : chars (of_chars l) = l.
Proof. induction l as [|c l IH]; cbn [chars of_chars]; [reflexivity|]. rewrite IH. reflexivity. Qed.
Lemma chars_app a b : chars (a ++ b)%string = chars a ++ chars b.
Proof. induction a as [|c a IH]; cbn [chars String.append app]; [reflexivity|]. rewrite IH. reflexivity. Qed.
Lemma of_chars_app a b : of_chars (a ++ b) = (of_chars a ++ of_chars b)%string.
Proof. induction a as [|c a IH]; cbn [of_chars String.append app]; [reflexivity|]. rewrite IH. reflexivity. Qed.
Lemma chars_inj a b : chars a = chars b -> a = b.
Proof. intros H. rewrite <- (of_chars_chars a), <- (of_chars_chars b), H. reflexivity. Qed.
Lemma append_nil_r s : (s ++ "")%string = s.
Proof. induction s as [|c s IH]; cbn [String.append]; [reflexivity|]. rewrite IH. reflexivity. Qed.
Lemma append_assoc a b c : ((a ++ b) ++ c)%string = (a ++ (b ++ c))%string.
Proof. induction a as [|x a IH]; cbn [String.append]; [reflexivity|]. rewrite IH. reflexivity. Qed.
Lemma length_chars s : List.length (chars s) = String.length s.
Proof. induction s as [|c s IH]; cbn [chars List.length String.length]; [reflexivity|]. rewrite IH. reflexivity. Qed.

Lemma list_eqb_ascii a b : list_eqb Ascii.eqb a b = true -> a = b.
Proof.
  revert b; induction a as [|x a IH]; intros [|y b]; cbn [list_eqb]; try reflexivity; try discriminate.
  intros H. apply andb_true_iff in H. destruct H as [H1 H2]. apply Ascii.eqb_eq in H1. subst. f_equal. apply IH, H2.
Qed.

(* ---- split_on / join ---- *)
Definition nosep (sep : ascii) (x : string) : Prop := Forall (fun c => Ascii.eqb c sep = false) (chars x).

Lemma split_aux_prefix sep x rest cur :
  nosep sep x -> split_on_aux sep (x ++ rest)%string cur = split_on_aux sep rest (rev (chars x) ++ cur).
Proof.
  unfold nosep. revert cur. induction x as [|c x IH]; intros cur H; [reflexivity|].
  cbn [chars] in H. inversion H as [|? ? Hc Hx]; subst. cbn [String.append split_on_aux chars rev].
  rewrite Hc. rewrite IH by assumption. rewrite <- app_assoc. reflexivity.
Qed.
Lemma split_aux_nonempty sep s cur : split_on_aux sep s cur <> [].
Proof. revert cur. induction s as [|c s IH]; intros cur; cbn [split_on_aux]; [discriminate|].
  destruct (Ascii.eqb c sep); [discriminate|apply IH]. Qed.
Lemma join_cons2 sep x y l : join sep (x :: y :: l) = (x ++ sep ++ join sep (y :: l))%string.
Proof. reflexivity. Qed.
Lemma split_on_join sep l :
  l <> [] -> Forall (nosep sep) l -> split_on sep (join (String sep "") l) = l.
Proof.
  unfold split_on. induction l as [|x l IH]; [congruence|]. intros _ H.
  inversion H as [|? ? Hx Hl]; subst. destruct l as [|y l].
  - cbn [join]. rewrite <- (append_nil_r x) at 1. rewrite split_aux_prefix by assumption.
    cbn [split_on_aux]. rewrite app_nil_r, rev_involutive, of_chars_chars. reflexivity.
  - rewrite join_cons2. rewrite split_aux_prefix by assumption. cbn [String.append split_on_aux].
    rewrite Ascii.eqb_refl. rewrite app_nil_r, rev_involutive, of_chars_chars. f_equal.
    apply IH; [discriminate|assumption].
Qed.
Lemma join_split_aux sep s cur :
  join (String sep "") (split_on_aux sep s cur) = (of_chars (rev cur) ++ s)%string.
Proof.
  revert cur. induction s as [|c s IH]; intros cur; cbn [split_on_aux].
  - cbn [join]. rewrite append_nil_r. reflexivity.
  - destruct (Ascii.eqb c sep) eqn:E.
    + apply Ascii.eqb_eq in E. subst c.
      destruct (split_on_aux sep s []) as [|y ys] eqn:Es.
      * exfalso. exact (split_aux_nonempty _ _ _ Es).
      * rewrite join_cons2. rewrite <- Es, IH. reflexivity.
    + rewrite IH. cbn [rev]. rewrite of_chars_app. cbn [of_chars].
      rewrite append_assoc. reflexivity.
Qed.
Lemma join_split_on sep s : join (String sep "") (split_on sep s) = s.
Proof. unfold split_on. rewrite join_split_aux. reflexivity. Qed.

(* ================= well-formed versions ================= *)
Definition vstr (c : list string) : string := join "." c.
Definition wf_comps (c : list string) : Prop := c <> [] /\ Forall (fun s => numeral s = true) c.
Definition wfv (s : string) : Prop := wfvb s = true.

Lemma digit_not_dot c : is_digit c = true -> is_dot c = false.
Proof. unfold is_digit, is_dot. lia. Qed.
Lemma digit_not_nl c : is_digit c = true -> is_nl c = false.
Proof. unfold is_digit, is_nl. lia. Qed.
Lemma digit_verch c : is_digit c = true -> is_verch c = true.
Proof. unfold is_verch. intros ->. reflexivity. Qed.
Lemma is_dot_eqb c : is_dot c = Ascii.eqb c ".".
Proof.
  unfold is_dot, zcode. destruct (Ascii.eqb_spec c ".") as [->|N]; [reflexivity|].
  apply Z.eqb_neq. intros H. apply N. rewrite <- (ascii_N_embedding c).
  replace (N_of_ascii c) with 46%N by lia. reflexivity.
Qed.

Lemma numeral_spec s : numeral s = true <-> s <> "" /\ Forall (fun c => is_digit c = true) (chars s).
Proof.
  unfold numeral. destruct s as [|c s]; [split; [discriminate|intros [H _]; congruence]|].
  rewrite forallb_forall, Forall_forall. split; [intros H; split; [discriminate|exact H]|intros [_ H]; exact H].
Qed.
Lemma numeral_nosep s : numeral s = true -> nosep "." s.
Proof.
  intros H. apply numeral_spec in H. destruct H as [_ H]. unfold nosep.
  eapply Forall_impl; [|exact H]. intros c Hc. rewrite <- is_dot_eqb. apply digit_not_dot, Hc.
Qed.

(* the characters of a well-formed version: [\d.]* then a digit *)
Lemma vstr_chars c : wf_comps c ->
  exists body d, chars (vstr c) = body ++ [d] /\ is_digit d = true /\ Forall (fun x => is_verch x = true) body.
Proof.
  intros [Hne H]. unfold vstr. induction c as [|x c IH]; [congruence|].
  inversion H as [|? ? Hx Hc]; subst. apply numeral_spec in Hx. destruct Hx as [Hx0 Hxd].
  destruct c as [|y c].
  - cbn [join]. destruct (exists_last (l := chars x)) as [body [d E]].
    { intros E. apply Hx0. apply chars_inj. exact E. }
    exists body, d. rewrite E in Hxd. apply Forall_app in Hxd. destruct Hxd as [Hb Hd].
    inversion Hd; subst. repeat split; [exact E|assumption|].
    eapply Forall_impl; [|exact Hb]. intros ? ?. apply digit_verch. assumption.
  - destruct (IH ltac:(discriminate) Hc) as [body [d [E [Hd Hb]]]].
    rewrite join_cons2, !chars_app, E. cbn [chars app].
    exists (chars x ++ "."%char :: body), d. rewrite <- app_assoc. cbn [app]. repeat split; [assumption|].
    apply Forall_app. split; [eapply Forall_impl; [|exact Hxd]; intros ? ?; apply digit_verch; assumption|].
    constructor; [reflexivity|exact Hb].
Qed.

Lemma chomp_last_digit body d : is_digit d = true -> chomp (body ++ [d]) = body ++ [d].
Proof. intros H. unfold chomp. rewrite rev_app_distr. cbn [rev app]. rewrite (digit_not_nl _ H). reflexivity. Qed.

Lemma components_vstr c : wf_comps c -> components (vstr c) = c.
Proof.
  intros H. destruct (vstr_chars c H) as [body [d [E [Hd _]]]].
  unfold components. rewrite E, chomp_last_digit by assumption. rewrite <- E, of_chars_chars.
  destruct H as [Hne H]. apply split_on_join; [assumption|].
  eapply Forall_impl; [|exact H]. intros s Hs. apply numeral_nosep, Hs.
Qed.

Lemma list_eqb_ascii_refl l : list_eqb Ascii.eqb l l = true.
Proof. induction l as [|x l IH]; cbn [list_eqb]; [reflexivity|]. rewrite Ascii.eqb_refl, IH. reflexivity. Qed.

(* parsing a version text = reading its dot-separated decimal numbers *)
Lemma wfv_vstr c : wf_comps c -> wfv (vstr c) /\ ints (vstr c) = map int_of_digits c.
Proof.
  intros H. unfold wfv, wfvb, is_ver, ints. rewrite (components_vstr c H). split; [|reflexivity].
  destruct (vstr_chars c H) as [body [d [E [Hd _]]]]. rewrite E, chomp_last_digit by assumption.
  rewrite list_eqb_ascii_refl, andb_true_r. destruct H as [_ H]. apply forallb_forall. rewrite Forall_forall in H. exact H.
Qed.
Lemma wfv_comps s : wfv s -> wf_comps (components s) /\ s = vstr (components s).
Proof.
  unfold wfv, wfvb. intros H. apply andb_true_iff in H. destruct H as [Hv Hc].
  apply list_eqb_ascii in Hc. unfold components. rewrite Hc, of_chars_chars.
  split; [split|].
  - apply split_aux_nonempty.
  - unfold is_ver, components in Hv. rewrite Hc, of_chars_chars in Hv.
    apply Forall_forall. apply forallb_forall. exact Hv.
  - unfold vstr. symmetry. apply (join_split_on "."%char).
Qed.
Lemma wfv_iff s : wfv s <-> exists c, wf_comps c /\ s = vstr c.
Proof.
  split; [intros H; exists (components s); apply wfv_comps, H|].
  intros [c [Hc ->]]. apply wfv_vstr, Hc.
Qed.
Lemma wfv_is_ver s : wfv s -> is_ver s = true.
Proof. unfold wfv, wfvb. intros H. apply andb_true_iff in H. tauto. Qed.

(* positional decimal value *)
Lemma int_of_digits_nil : int_of_digits "" = 0.
Proof. reflexivity. Qed.
Lemma int_of_digits_snoc s d : int_of_digits (s ++ String d "") = 10 * int_of_digits s + digit_val d.
Proof. unfold int_of_digits. rewrite chars_app, fold_left_app. reflexivity. Qed.

Lemma cmp_numeric a b : wfv a -> wfv b -> compare_versions a b = lex_cmp (ints a) (ints b).
Proof. intros Ha Hb. unfold compare_versions. rewrite (wfv_is_ver a Ha), (wfv_is_ver b Hb). reflexivity. Qed.

(* ================= the regex split of the other side ================= *)
Lemma span_verch_app a b :
  Forall (fun x => is_verch x = true) a ->
  match b with [] => True | c :: _ => is_verch c = false end ->
  span_verch (a ++ b) = (a, b).
Proof.
  intros Ha Hb. induction a as [|x a IH]; cbn [app span_verch].
  - destruct b as [|c b]; [reflexivity|]. cbn [span_verch]. rewrite Hb. reflexivity.
  - inversion Ha as [|? ? Hx Ha']; subst. rewrite Hx, (IH Ha'). reflexivity.
Qed.

(* a patch suffix that the split gives back unchanged: does not start with [\d.], single line, no outer blanks *)
Definition clean_patchb (p : string) : bool :=
  match chars p with [] => true | c :: _ => negb (is_verch c) end
  && tail_ok (chars p) && list_eqb Ascii.eqb (py_strip (chomp (chars p))) (chars p).

Lemma split_other_wf c p :
  wf_comps c -> (2 <= String.length (vstr c))%nat -> clean_patchb p = true ->
  split_other (vstr c ++ p) = (vstr c, p).
Proof.
  intros Hc Hlen Hp. destruct (vstr_chars c Hc) as [body [d [E [Hd Hb]]]].
  unfold clean_patchb in Hp. apply andb_true_iff in Hp. destruct Hp as [Hp Hp3].
  apply andb_true_iff in Hp. destruct Hp as [Hp1 Hp2]. apply list_eqb_ascii in Hp3.
  unfold split_other. rewrite chars_app, span_verch_app.
  - rewrite E, rev_app_distr. cbn [rev app dropwhile takewhile]. rewrite (digit_not_dot _ Hd). cbn [app].
    rewrite Hp2, andb_true_r.
    replace (2 <=? Z.of_nat (List.length (d :: rev body))) with true.
    + rewrite Hp3, of_chars_chars. change (d :: rev body) with ([d] ++ rev body).
      rewrite rev_app_distr, rev_involutive. cbn [rev app]. rewrite <- E, of_chars_chars. reflexivity.
    + symmetry. apply Z.leb_le. rewrite <- length_chars, E, app_length in Hlen. cbn [List.length] in *.
      rewrite rev_length. lia.
  - rewrite E. apply Forall_app. split; [exact Hb|]. constructor; [apply digit_verch, Hd|constructor].
  - destruct (chars p) as [|x r]; [exact I|]. apply negb_true_iff in Hp1. exact Hp1.
Qed.

(* without a suffix the split is the identity even when the regex does not match (one-character version) *)
Lemma split_other_nopatch c : wf_comps c -> split_other (vstr c) = (vstr c, "").
Proof.
  intros Hc. destruct (vstr_chars c Hc) as [body [d [E [Hd Hb]]]].
  unfold split_other. rewrite <- (app_nil_r (chars (vstr c))), span_verch_app.
  - rewrite E, rev_app_distr. cbn [rev app dropwhile takewhile]. rewrite (digit_not_dot _ Hd). cbn [app].
    destruct ((2 <=? Z.of_nat (List.length (d :: rev body))) && tail_ok []); [|reflexivity].
    change (d :: rev body) with ([d] ++ rev body).
    rewrite rev_app_distr, rev_involutive. cbn [rev app]. rewrite <- E, of_chars_chars. reflexivity.
  - rewrite E. apply Forall_app. split; [exact Hb|]. constructor; [apply digit_verch, Hd|constructor].
  - exact I.
Qed.

(* ================= patch suffix domains ================= *)
Definition openssh_patches : list string := [""; "p0"; "p1"; "p2"; "p3"; "p4"; "p5"; "p6"; "p7"; "p8"; "p9"].
Definition dropbear_patches : list string := [""; "test0"; "test1"; "test2"; "test3"; "test4"; "test5"; "test6"; "test7"; "test8"; "test9"].
(* the suffixes of the property's quantifier, per product *)
Definition patch_domain (prod : string) : list string :=
  if str_eqb prod P_OpenSSH then openssh_patches else if str_eqb prod P_Dropbear then dropbear_patches else [""].
(* the same without OpenSSH "p0" (never released; see trans_p0_refuted) *)
Definition patch_domain1 (prod : string) : list string :=
  if str_eqb prod P_OpenSSH then "" :: tl (tl openssh_patches) else patch_domain prod.
(* Software.patch: _fix_patch turns '' into None *)
Definition popt (p : string) : option string := if str_eqb p "" then None else Some p.
(* rank of a suffix inside one version: OpenSSH x = x p1 < x p2 ...; Dropbear x test0 < ... < x test9 < x *)
Definition rank (prod p : string) : Z :=
  if str_eqb prod P_Dropbear then
    match p with String "t" (String "e" (String "s" (String "t" (String d _)))) => digit_val d | _ => 10 end
  else match p with String "p" (String d _) => digit_val d | _ => 1 end.

Lemma or_empty_popt p : or_empty (popt p) = p.
Proof. unfold popt. destruct (str_eqb p "") eqn:E; [apply String.eqb_eq in E; subst|]; reflexivity. Qed.

Lemma domain_cases (P : string -> list string -> Prop) :
  P P_OpenSSH openssh_patches -> P P_Dropbear dropbear_patches ->
  (forall prod, str_eqb prod P_OpenSSH = false -> str_eqb prod P_Dropbear = false -> P prod [""]) ->
  forall prod, P prod (patch_domain prod).
Proof.
  intros H1 H2 H3 prod. unfold patch_domain.
  destruct (str_eqb prod P_OpenSSH) eqn:E1; [apply String.eqb_eq in E1; subst; exact H1|].
  destruct (str_eqb prod P_Dropbear) eqn:E2; [apply String.eqb_eq in E2; subst; exact H2|].
  apply H3; assumption.
Qed.

Lemma mem_In s l : mem s l = true <-> In s l.
Proof.
  induction l as [|x l IH]; cbn [mem In]; [split; [discriminate|tauto]|].
  destruct (String.eqb_spec s x) as [->|N]; [tauto|]. rewrite IH. split; [tauto|intros [H|H]; congruence].
Qed.

Lemma domain_clean prod p : In p (patch_domain prod) -> clean_patchb p = true.
Proof.
  revert p. apply (domain_cases (fun _ D => forall p, In p D -> clean_patchb p = true)); [| |intros prod' _ _];
    intros p H; cbn in H; repeat (destruct H as [<-|H]; [vm_compute; reflexivity|]); destruct H.
Qed.
Lemma domain1_sub prod p : In p (patch_domain1 prod) -> In p (patch_domain prod).
Proof.
  unfold patch_domain1, patch_domain. destruct (str_eqb prod P_OpenSSH); [|tauto].
  cbn. intros H. intuition.
Qed.

(* the patch rules on the suffix domains, by complete enumeration (the domains are finite) *)
Lemma patch_cmp_antisym_dom prod p1 p2 :
  In p1 (patch_domain prod) -> In p2 (patch_domain prod) -> patch_cmp prod p2 p1 = - patch_cmp prod p1 p2.
Proof.
  revert p1 p2.
  apply (domain_cases (fun prod D => forall p1 p2, In p1 D -> In p2 D -> patch_cmp prod p2 p1 = - patch_cmp prod p1 p2)).
  - assert (H: forallb (fun p1 => forallb (fun p2 => patch_cmp P_OpenSSH p2 p1 =? - patch_cmp P_OpenSSH p1 p2) openssh_patches) openssh_patches = true)
      by (vm_compute; reflexivity).
    intros p1 p2 H1 H2. rewrite forallb_forall in H. specialize (H p1 H1). rewrite forallb_forall in H. specialize (H p2 H2). lia.
  - assert (H: forallb (fun p1 => forallb (fun p2 => patch_cmp P_Dropbear p2 p1 =? - patch_cmp P_Dropbear p1 p2) dropbear_patches) dropbear_patches = true)
      by (vm_compute; reflexivity).
    intros p1 p2 H1 H2. rewrite forallb_forall in H. specialize (H p1 H1). rewrite forallb_forall in H. specialize (H p2 H2). lia.
  - intros prod' E1 E2 p1 p2 [<-|[]] [<-|[]]. unfold patch_cmp. rewrite E1, E2. reflexivity.
Qed.

Lemma patch_cmp_rank_dom prod p1 p2 :
  In p1 (patch_domain1 prod) -> In p2 (patch_domain1 prod) -> patch_cmp prod p1 p2 = zcmp (rank prod p1) (rank prod p2).
Proof.
  unfold patch_domain1, patch_domain.
  destruct (str_eqb prod P_OpenSSH) eqn:E1; [apply String.eqb_eq in E1; subst|].
  - set (D := "" :: tl (tl openssh_patches)).
    assert (H: forallb (fun p1 => forallb (fun p2 => patch_cmp P_OpenSSH p1 p2 =? zcmp (rank P_OpenSSH p1) (rank P_OpenSSH p2)) D) D = true)
      by (vm_compute; reflexivity).
    intros H1 H2. rewrite forallb_forall in H. specialize (H p1 H1). rewrite forallb_forall in H. specialize (H p2 H2). lia.
  - destruct (str_eqb prod P_Dropbear) eqn:E2; [apply String.eqb_eq in E2; subst|].
    + assert (H: forallb (fun p1 => forallb (fun p2 => patch_cmp P_Dropbear p1 p2 =? zcmp (rank P_Dropbear p1) (rank P_Dropbear p2)) dropbear_patches) dropbear_patches = true)
        by (vm_compute; reflexivity).
      intros H1 H2. rewrite forallb_forall in H. specialize (H p1 H1). rewrite forallb_forall in H. specialize (H p2 H2). lia.
    + intros [<-|[]] [<-|[]]. unfold patch_cmp, rank. rewrite E1, E2. reflexivity.
Qed.

(* ================= Software.compare_version ================= *)
Lemma wfv_len2 s : wfv s -> (2 <= String.length s)%nat -> exists c, wf_comps c /\ s = vstr c /\ (2 <= String.length (vstr c))%nat.
Proof. intros H L. destruct (wfv_comps s H) as [Hc E]. exists (components s). rewrite <- E. auto. Qed.

(* shape of the result on well-formed versions: numbers first, then the patch rule *)
Lemma compare_version_wf prod a pa b pb :
  wfv a -> wfv b -> (2 <= String.length b)%nat -> clean_patchb pb = true ->
  compare_version prod a pa (b ++ pb) =
  if lex_cmp (ints a) (ints b) =? 0 then patch_cmp prod (or_empty pa) pb else lex_cmp (ints a) (ints b).
Proof.
  intros Ha Hb L Hp. destruct (wfv_len2 b Hb L) as [c [Hc [-> L']]].
  unfold compare_version. rewrite (split_other_wf c pb Hc L' Hp). rewrite (cmp_numeric _ _ Ha Hb). reflexivity.
Qed.
Lemma compare_version_wf_nopatch prod a pa b :
  wfv a -> wfv b ->
  compare_version prod a pa b =
  if lex_cmp (ints a) (ints b) =? 0 then patch_cmp prod (or_empty pa) "" else lex_cmp (ints a) (ints b).
Proof.
  intros Ha Hb. destruct (wfv_comps b Hb) as [Hc E].
  unfold compare_version. rewrite E at 1. rewrite (split_other_nopatch _ Hc), <- E. rewrite (cmp_numeric _ _ Ha Hb). reflexivity.
Qed.

(* numeric agreement whenever the numbers differ - any patch on our side, any clean patch on the other *)
Lemma cmp_version_numeric prod a pa b pb :
  wfv a -> wfv b -> (2 <= String.length b)%nat -> clean_patchb pb = true -> ints a <> ints b ->
  compare_version prod a pa (b ++ pb) = lex_cmp (ints a) (ints b).
Proof.
  intros Ha Hb L Hp N. rewrite compare_version_wf by assumption.
  destruct (lex_cmp (ints a) (ints b) =? 0) eqn:E; [|reflexivity].
  apply Z.eqb_eq, lex_cmp_eq in E. contradiction.
Qed.

Lemma cmp_version_antisym prod a pa b pb :
  wfv a -> wfv b -> (2 <= String.length a)%nat -> (2 <= String.length b)%nat ->
  In pa (patch_domain prod) -> In pb (patch_domain prod) ->
  compare_version prod b (popt pb) (a ++ pa) = - compare_version prod a (popt pa) (b ++ pb).
Proof.
  intros Ha Hb La Lb Da Db.
  rewrite !compare_version_wf by (try assumption; eapply domain_clean; eassumption).
  rewrite !or_empty_popt. rewrite (lex_cmp_antisym (ints a) (ints b)).
  destruct (lex_cmp (ints a) (ints b) =? 0) eqn:E.
  - replace (- lex_cmp (ints a) (ints b) =? 0) with true by lia. apply patch_cmp_antisym_dom; assumption.
  - replace (- lex_cmp (ints a) (ints b) =? 0) with false by lia. reflexivity.
Qed.

Lemma cmp_version_key prod a pa b pb :
  wfv a -> wfv b -> (2 <= String.length b)%nat ->
  In pa (patch_domain1 prod) -> In pb (patch_domain1 prod) ->
  compare_version prod a (popt pa) (b ++ pb) = key_cmp (ints a) (rank prod pa) (ints b) (rank prod pb).
Proof.
  intros Ha Hb Lb Da Db.
  rewrite compare_version_wf by (try assumption; eapply domain_clean, domain1_sub; eassumption).
  rewrite or_empty_popt. unfold key_cmp. rewrite (patch_cmp_rank_dom prod pa pb Da Db). reflexivity.
Qed.

Lemma cmp_version_trans prod a pa b pb c pc :
  wfv a -> wfv b -> wfv c -> (2 <= String.length b)%nat -> (2 <= String.length c)%nat ->
  In pa (patch_domain1 prod) -> In pb (patch_domain1 prod) -> In pc (patch_domain1 prod) ->
  compare_version prod a (popt pa) (b ++ pb) <= 0 -> compare_version prod b (popt pb) (c ++ pc) <= 0 ->
  compare_version prod a (popt pa) (c ++ pc) <= 0 /\
  (compare_version prod a (popt pa) (b ++ pb) < 0 \/ compare_version prod b (popt pb) (c ++ pc) < 0 ->
   compare_version prod a (popt pa) (c ++ pc) < 0).
Proof.
  intros Ha Hb Hc Lb Lc Da Db Dc. rewrite !cmp_version_key by assumption. apply key_cmp_trans.
Qed.

(* recorded findings *)
Lemma trans_p0_refuted : exists v,
  wfv v /\ compare_version P_OpenSSH v None (v ++ "p0") < 0 /\ compare_version P_OpenSSH v (Some "p0") (v ++ "p1") < 0
  /\ compare_version P_OpenSSH v None (v ++ "p1") = 0.
Proof. exists "7.4". vm_compute. repeat split; congruence. Qed.
Lemma single_digit_refuted : exists a b p q,
  wfv a /\ wfv b /\ In p (patch_domain P_OpenSSH) /\ In q (patch_domain P_OpenSSH) /\
  compare_version P_OpenSSH a None (b ++ p) <> lex_cmp (ints a) (ints b) /\ ints a <> ints b /\
  compare_version P_OpenSSH b (popt p) (b ++ q) = -1 /\ compare_version P_OpenSSH b (popt q) (b ++ p) = -1.
Proof. exists "10.0", "7", "p1", "p2". vm_compute. repeat split; try congruence; tauto. Qed.

(* ================= availability ================= *)
Lemma str_cmp_nil_r s : 0 <= str_cmp s "".
Proof. unfold str_cmp. apply lex_cmp_nil_r. Qed.
Lemma str_cmp_refl s : str_cmp s s = 0.
Proof. apply lex_cmp_refl. Qed.

(* a release (not a Dropbear test build) is never older than the bare version it carries *)
Definition released (prod p : string) : bool := negb (str_eqb prod P_Dropbear && is_test p).
Lemma patch_cmp_bare prod p : released prod p = true -> 0 <= patch_cmp prod p "".
Proof.
  unfold released, patch_cmp. destruct (str_eqb prod P_Dropbear) eqn:E1.
  - cbn [andb]. intros H. apply negb_true_iff in H. rewrite H. cbn [is_test].
    unfold str_cmp, codes. cbn [chars map lex_cmp]. rewrite Z.ltb_irrefl. apply lex_cmp_nil_r.
  - intros _. destruct (str_eqb prod P_OpenSSH) eqn:E2; [|apply str_cmp_nil_r].
    cbn [p_digit]. destruct (p_digit p) as [d|].
    + destruct (str_eqb d "" && str_eqb "" "1" || str_eqb d "1" && str_eqb "" ""); [lia|apply str_cmp_nil_r].
    + destruct (str_eqb p "" && str_eqb "" "1" || str_eqb p "1" && str_eqb "" ""); [lia|apply str_cmp_nil_r].
Qed.

Lemma available_iff_numeric_ge prod a pa w :
  wfv a -> wfv w -> released prod (or_empty pa) = true ->
  (compare_version prod a pa w <? 0) = (lex_cmp (ints a) (ints w) <? 0).
Proof.
  intros Ha Hw R. rewrite compare_version_wf_nopatch by assumption.
  destruct (lex_cmp (ints a) (ints w) =? 0) eqn:E; [|reflexivity].
  pose proof (patch_cmp_bare prod (or_empty pa) R). lia.
Qed.

Lemma patch_cmp_none prod : patch_cmp prod "" "" = 0.
Proof.
  unfold patch_cmp. destruct (str_eqb prod P_Dropbear); [reflexivity|]. destruct (str_eqb prod P_OpenSSH); reflexivity.
Qed.
Lemma compare_version_bare prod a w : wfv a -> wfv w -> compare_version prod a None w = lex_cmp (ints a) (ints w).
Proof.
  intros Ha Hw. rewrite compare_version_wf_nopatch by assumption. cbn [or_empty]. rewrite patch_cmp_none.
  destruct (lex_cmp (ints a) (ints w) =? 0) eqn:E; lia.
Qed.
Lemma between_numeric prod a f t : wfv a -> wfv f -> wfv t ->
  between prod a None f t = (0 <=? lex_cmp (ints a) (ints f)) && (lex_cmp (ints a) (ints t) <=? 0).
Proof.
  intros Ha Hf Ht. unfold between. rewrite !compare_version_bare by assumption.
  assert (Nf: str_eqb f "" = false).
  { unfold str_eqb. destruct (String.eqb_spec f ""); [subst; discriminate Hf|reflexivity]. }
  assert (Nt: str_eqb t "" = false).
  { unfold str_eqb. destruct (String.eqb_spec t ""); [subst; discriminate Ht|reflexivity]. }
  rewrite Nf, Nt. cbn [negb andb].
  destruct (lex_cmp (ints a) (ints f) <? 0) eqn:E1, (0 <? lex_cmp (ints a) (ints t)) eqn:E2;
    destruct (0 <=? lex_cmp (ints a) (ints f)) eqn:E3, (lex_cmp (ints a) (ints t) <=? 0) eqn:E4; try reflexivity; lia.
Qed.

(* the filter of get_recommendations: an entry matches iff one of its tokens names this product, in a usable
   role, with a first-seen version numerically not newer than the software's *)
Definition token_ok (t : string) : Prop := token_version t = "" \/ wfv (token_version t).
Definition token_available (prod : string) (nums : list Z) (for_server : bool) (t : string) : bool :=
  let '(p, v, cli) := get_ssh_version t in
  negb (str_eqb v "") && str_eqb p prod && negb (cli && for_server) && (0 <=? lex_cmp nums (ints v)).
Lemma rec_matches_spec prod a pa fs toks :
  wfv a -> released prod (or_empty pa) = true -> Forall token_ok toks ->
  rec_matches_tokens prod a pa fs toks = existsb (token_available prod (ints a) fs) toks.
Proof.
  intros Ha R H. induction H as [|t toks Ht Hts IH]; [reflexivity|].
  cbn [rec_matches_tokens existsb]. unfold token_available at 1. unfold token_ok, token_version in Ht.
  destruct (get_ssh_version t) as [[p v] cli]. cbn [fst snd] in Ht.
  destruct (str_eqb v "") eqn:Ev; [exact IH|]. cbn [negb andb].
  destruct (str_eqb p prod) eqn:Ep; [|exact IH]. cbn [negb andb].
  destruct (cli && fs); [exact IH|]. cbn [negb andb].
  destruct Ht as [Ht|Ht]; [subst v; discriminate Ev|].
  rewrite (available_iff_numeric_ge prod a pa v Ha Ht R).
  destruct (lex_cmp (ints a) (ints v) <? 0) eqn:E.
  - replace (0 <=? lex_cmp (ints a) (ints v)) with false by lia. exact IH.
  - replace (0 <=? lex_cmp (ints a) (ints v)) with true by lia. reflexivity.
Qed.

(* ================= Timeframe: the slot decision keeps the numeric maximum / minimum ================= *)
Lemma slot_step_even pos p v : Nat.even pos = true ->
  slot_step pos (Some p) v = if compare_versions p v <? 0 then Some v else Some p.
Proof.
  intros E. unfold slot_step. unfold Nat.odd. rewrite E. cbn [negb]. rewrite andb_true_r, andb_false_r, orb_false_r.
  reflexivity.
Qed.
Lemma slot_step_odd pos p v : Nat.even pos = false ->
  slot_step pos (Some p) v = if 0 <? compare_versions p v then Some v else Some p.
Proof.
  intros E. unfold slot_step. unfold Nat.odd. rewrite E. cbn [negb]. rewrite andb_true_r, andb_false_r.
  reflexivity.
Qed.

Lemma slot_fold_max pos vs p : Nat.even pos = true -> wfv p -> Forall wfv vs ->
  exists m, fold_left (slot_step pos) vs (Some p) = Some m /\ In m (p :: vs) /\
            forall v, In v (p :: vs) -> lex_cmp (ints v) (ints m) <= 0.
Proof.
  intros E Hp H. revert p Hp. induction H as [|x vs Hx Hvs IH]; intros p Hp.
  - exists p. cbn [fold_left]. split; [reflexivity|]. split; [left; reflexivity|].
    intros v [<-|[]]. rewrite lex_cmp_refl. lia.
  - cbn [fold_left]. rewrite (slot_step_even pos p x E), (cmp_numeric p x Hp Hx).
    destruct (lex_cmp (ints p) (ints x) <? 0) eqn:C.
    + destruct (IH x Hx) as [m [Hm [Hin Hmax]]]. exists m. split; [exact Hm|]. split; [right; exact Hin|].
      intros v [<-|Hv]; [|apply Hmax, Hv].
      assert (lex_cmp (ints x) (ints m) <= 0) by (apply Hmax; left; reflexivity).
      apply (lex_cmp_trans (ints p) (ints x) (ints m)); lia.
    + destruct (IH p Hp) as [m [Hm [Hin Hmax]]]. exists m. split; [exact Hm|].
      split; [destruct Hin as [<-|Hin]; [left; reflexivity|right; right; exact Hin]|].
      intros v [<-|[<-|Hv]]; [apply Hmax; left; reflexivity| |apply Hmax; right; exact Hv].
      assert (lex_cmp (ints p) (ints m) <= 0) by (apply Hmax; left; reflexivity).
      assert (lex_cmp (ints x) (ints p) <= 0) by (rewrite (lex_cmp_antisym (ints p) (ints x)); lia).
      apply (lex_cmp_trans (ints x) (ints p) (ints m)); lia.
Qed.
Lemma slot_fold_min pos vs p : Nat.even pos = false -> wfv p -> Forall wfv vs ->
  exists m, fold_left (slot_step pos) vs (Some p) = Some m /\ In m (p :: vs) /\
            forall v, In v (p :: vs) -> lex_cmp (ints m) (ints v) <= 0.
Proof.
  intros E Hp H. revert p Hp. induction H as [|x vs Hx Hvs IH]; intros p Hp.
  - exists p. cbn [fold_left]. split; [reflexivity|]. split; [left; reflexivity|].
    intros v [<-|[]]. rewrite lex_cmp_refl. lia.
  - cbn [fold_left]. rewrite (slot_step_odd pos p x E), (cmp_numeric p x Hp Hx).
    destruct (0 <? lex_cmp (ints p) (ints x)) eqn:C.
    + destruct (IH x Hx) as [m [Hm [Hin Hmin]]]. exists m. split; [exact Hm|]. split; [right; exact Hin|].
      intros v [<-|Hv]; [|apply Hmin, Hv].
      assert (lex_cmp (ints m) (ints x) <= 0) by (apply Hmin; left; reflexivity).
      assert (lex_cmp (ints x) (ints p) <= 0) by (rewrite (lex_cmp_antisym (ints p) (ints x)); lia).
      apply (lex_cmp_trans (ints m) (ints x) (ints p)); lia.
    + destruct (IH p Hp) as [m [Hm [Hin Hmin]]]. exists m. split; [exact Hm|].
      split; [destruct Hin as [<-|Hin]; [left; reflexivity|right; right; exact Hin]|].
      intros v [<-|[<-|Hv]]; [apply Hmin; left; reflexivity| |apply Hmin; right; exact Hv].
      assert (lex_cmp (ints m) (ints p) <= 0) by (apply Hmin; left; reflexivity).
      apply (lex_cmp_trans (ints m) (ints p) (ints x)); lia.
Qed.
Lemma timeframe_from_max pos vs : Nat.even pos = true -> vs <> [] -> Forall wfv vs ->
  exists m, fold_left (slot_step pos) vs None = Some m /\ In m vs /\ forall v, In v vs -> lex_cmp (ints v) (ints m) <= 0.
Proof.
  intros E N H. destruct vs as [|x vs]; [congruence|]. inversion H; subst.
  cbn [fold_left slot_step]. apply slot_fold_max; assumption.
Qed.
Lemma timeframe_till_min pos vs : Nat.even pos = false -> vs <> [] -> Forall wfv vs ->
  exists m, fold_left (slot_step pos) vs None = Some m /\ In m vs /\ forall v, In v vs -> lex_cmp (ints m) (ints v) <= 0.
Proof.
  intros E N H. destruct vs as [|x vs]; [congruence|]. inversion H; subst.
  cbn [fold_left slot_step]. apply slot_fold_min; assumption.
Qed.

(* ================= the generated tables: every version token is well-formed ================= *)
Definition token_okb (t : string) : bool := str_eqb (token_version t) "" || wfvb (token_version t).
Lemma token_okb_ok t : token_okb t = true -> token_ok t.
Proof.
  unfold token_okb, token_ok, wfv. intros H. apply orb_true_iff in H. destruct H as [H|H]; [left|right; exact H].
  apply String.eqb_eq, H.
Qed.
Definition table_tokens : list string := db_version_tokens ssh2_db ++ db_version_tokens ssh1_db.
Lemma table_tokens_wf : forall t, In t table_tokens -> token_ok t.
Proof.
  assert (H: forallb token_okb table_tokens = true) by (vm_compute; reflexivity).
  intros t Ht. apply token_okb_ok. rewrite forallb_forall in H. apply H, Ht.
Qed.
(* first-seen texts (versions[0]) of a table *)
Definition first_seen_texts (d : rawdb) : list string :=
  flat_map (fun cat => flat_map (fun e => match nth 0 (nth 0 (snd e) []) None with Some s => [s] | None => [] end) (snd cat)) d.
Lemma first_seen_tokens_wf : forall s, In s (first_seen_texts ssh2_db ++ first_seen_texts ssh1_db) -> Forall token_ok (split_on "," s).
Proof.
  assert (H: forallb (fun s => forallb token_okb (split_on "," s)) (first_seen_texts ssh2_db ++ first_seen_texts ssh1_db) = true)
    by (vm_compute; reflexivity).
  intros s Hs. rewrite forallb_forall in H. specialize (H s Hs). rewrite forallb_forall in H.
  apply Forall_forall. intros t Ht. apply token_okb_ok, H, Ht.
Qed.
Lemma rec_matches_table prod a pa fs s :
  In s (first_seen_texts ssh2_db ++ first_seen_texts ssh1_db) -> wfv a -> released prod (or_empty pa) = true ->
  rec_matches prod a pa fs s = existsb (token_available prod (ints a) fs) (split_on "," s).
Proof. intros Hs Ha R. unfold rec_matches. apply rec_matches_spec; [assumption|assumption|apply first_seen_tokens_wf, Hs]. Qed.
