(* C15: the level filter and the colouring decision of OutputBuffer._print / get_level, translated statement by statement from the current source
   (T1c, gen/Tables.v), are the model's `passes` and the condition of `colourise`; the colour numbers are the table of the source.
   When the source changes there the generated definitions change (or are left out) and this file stops compiling. *)
From Coq Require Import ZArith List String Bool Lia ZifyBool.
From VGen Require Import Tables.
From VModel Require Import OutBuf.
Open Scope string_scope. Open Scope list_scope. Open Scope Z_scope.

(* the name under which each call reaches _print: head() -> 'head', good() -> 'good', info()/sep()/v()/d() -> 'info', warn() -> 'warn', fail() -> 'fail' *)
Definition olevel_text (l : olevel) : string :=
  match l with OHead => "head" | OGood => "good" | OInfo => "info" | OWarn => "warn" | OFail => "fail" end.

Lemma tie_get_level : forall l,
  src_get_level (olevel_text l) = match lvl_num l with Some k => Z.of_nat k | None => src_maxsize end.
Proof. intros [| | | |]; reflexivity. Qed.

(* the minimum level is one of the three the setter can store (get_level of 'info' / 'warn' / 'fail') *)
Lemma tie_passes : forall c l always, (c_level c <= 2)%nat ->
  passes c l always = negb (src_print_filtered always (c_json c) (src_get_level (olevel_text l)) (Z.of_nat (c_level c))).
Proof.
  intros c l always Hl. unfold passes, src_print_filtered. rewrite tie_get_level.
  destruct always; cbn [Bool.eqb orb andb negb]; [reflexivity|].
  destruct (c_json c); cbn [Bool.eqb orb andb negb]; [reflexivity|].
  destruct (lvl_num l) as [k|].
  - destruct (Nat.leb (c_level c) k) eqn:E; [apply Nat.leb_le in E|apply Nat.leb_gt in E];
      destruct (Z.of_nat k <? Z.of_nat (c_level c)) eqn:F; cbn [negb]; try reflexivity; lia.
  - unfold src_maxsize. destruct (9223372036854775807 <? Z.of_nat (c_level c)) eqn:F; cbn [negb]; [lia|reflexivity].
Qed.

Lemma tie_coloured : forall c l s,
  (c_colors c && negb (String.eqb s "") && (match l with OInfo => false | _ => true end)) = src_print_coloured (c_colors c) s (olevel_text l).
Proof.
  intros c l s. unfold src_print_coloured. rewrite andb_true_r.
  assert (H: negb (String.eqb s "") = (Z.of_nat (String.length s) >? 0)).
  { destruct s as [|a r]; [reflexivity|]. cbn [String.eqb String.length negb]. rewrite Z.gtb_ltb. symmetry. apply Z.ltb_lt. lia. }
  rewrite H. destruct l; reflexivity.
Qed.

(* COLORS[level] of the source = the model's colour code *)
Lemma tie_colour_codes : forall l, l <> OInfo ->
  option_map z_to_string (assoc (olevel_text l) src_outbuf_colors) = Some (colour_code l).
Proof. intros [| | | |] H; try reflexivity. contradiction. Qed.
