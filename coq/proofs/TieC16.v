(* C16: every literal / integer kernel that the hand-written model repeats from the Python source is proved equal to the copy the
   translator extracts from the current source on every run (gen/Tables.v, definitions whose names start with src_).  When the source changes there, the generated
   definition changes (or is left out when the shape is no longer recognised) and this file stops compiling: the model cannot go stale silently,
   and only this property's check is affected. *)
From Coq Require Import ZArith List String Bool Lia ZifyBool.
From VGen Require Import Tables.
From VModel Require Import BannerM.
Open Scope string_scope. Open Scope list_scope.

Lemma tie_banner_products : forall v,
  sw_parse_str (String.append "tinyssh_" v) = Some (mkS None product_TinySSH v None)
  /\ sw_parse_str (String.append "PuTTY_Release_" v) = Some (mkS None product_PuTTY v None).
Proof. intros v. split; reflexivity. Qed.

(* utils.py: the character filters of is_print_ascii / to_print_ascii as they read now (T1c translation of the two lambda bodies) and the replacement character *)
Lemma tie_printable : forall z, printable z = src_is_print_ascii_filter z /\ printable z = src_to_print_ascii_filter z.
Proof.
  intros z. unfold printable, src_is_print_ascii_filter, src_to_print_ascii_filter. rewrite !Z.geb_leb. split; apply andb_comm.
Qed.
Lemma tie_replacement : forall z, printable z = false -> pchar z = ascii_of_nat (Z.to_nat src_to_ascii_replacement).
Proof. intros z H. unfold pchar. rewrite H. reflexivity. Qed.
