(* C10: every literal / integer kernel that the hand-written model repeats from the Python source is proved equal to the copy the
   translator extracts from the current source on every run (gen/Tables.v, definitions whose names start with src_).  When the source changes there, the generated
   definition changes (or is left out when the shape is no longer recognised) and this file stops compiling: the model cannot go stale silently,
   and only this property's check is affected. *)
From Coq Require Import ZArith List String Bool Lia ZifyBool.
From VGen Require Import Tables.
From VModel Require Import Net.
Open Scope list_scope. Open Scope Z_scope.

Lemma tie_send_packet_padding : forall n, pad_len n = src_send_packet_padding n.
Proof. intros n. unfold pad_len, src_send_packet_padding. cbv zeta. destruct (- (n + 5) mod 8 <? 4); reflexivity. Qed.
Lemma tie_send_packet_length : forall n, n + pad_len n + 1 = src_send_packet_length n.
Proof. intros n. unfold pad_len, src_send_packet_length. cbv zeta. destruct (- (n + 5) mod 8 <? 4); reflexivity. Qed.
Lemma tie_ssh1_padding_length : forall plen, 8 - plen mod 8 = src_ssh1_padding_length plen.
Proof. reflexivity. Qed.
(* the SSH-2 reader's payload length and block-size test, the SSH-1 reader's block-size test: the expressions written in Net.read_packet2/1 *)
Lemma tie_ssh2_payload_length : forall plen padlen, plen - padlen - 1 = src_ssh2_payload_length plen padlen.
Proof. reflexivity. Qed.
Lemma tie_ssh2_block_test : forall paylen padlen, (4 + 1 + paylen + padlen) mod 8 = src_ssh2_check_size paylen padlen mod src_block_size.
Proof. reflexivity. Qed.
Lemma tie_ssh1_block_test : forall padlen plen, (padlen + plen) mod 8 = src_ssh1_check_size padlen plen mod src_block_size.
Proof. reflexivity. Qed.

(* SSH1_CRC32, translated from the current source (T1c): the statement block of calc()'s loop is the model's byte step over the table the
   constructor builds, and the body of the constructor's inner loop is one step of the model's bit-serial register.  With CrcProofs (table = 8 bit
   steps per entry, byte step = 8 bit steps) the checksum theorems are about these statements. *)
From VModel Require Import Wire.
Lemma tie_crc_step : forall crc b, src_crc_step crc_table crc b = crc_step crc b.
Proof. reflexivity. Qed.
Lemma tie_crc_bit_step : forall k crc n,
  crc_bits (S k) crc n = crc_bits k (fst (src_crc_bit_step crc n)) (snd (src_crc_bit_step crc n)).
Proof. reflexivity. Qed.

(* T1d: the message codecs as they read now.  SSH2_Kex.parse / write and SSH1_PublicKeyMessage.parse / write are translated statement by statement
   (harness/codectrans.py -> gen/Codecs.v): which fields, in which order, with which ReadBuf / WriteBuf primitive, and - by symbolic evaluation of the
   constructors and properties - which decoded value reaches which property of the object.  The hand-written message codecs of Wire.v are those functions,
   for every payload and every message. *)
From VGen Require Import Codecs.
Lemma tie_parse_kexinit : forall p, parse_kexinit p = src_parse_kexinit p.
Proof. reflexivity. Qed.
Lemma tie_write_kexinit : forall k, write_kexinit k = src_write_kexinit k.
Proof. reflexivity. Qed.
Lemma tie_parse_pkm : forall p, parse_pkm p = src_parse_pkm p.
Proof. reflexivity. Qed.
Lemma tie_write_pkm : forall m, write_pkm m = src_write_pkm m.
Proof. reflexivity. Qed.

(* the checksum theorems for the loop as it reads in the current source, over the table the running code builds: for every byte string the fold of the translated
   loop body over the translated constructor's table is bit-serial division by the polynomial, and fits 32 bits *)
From VProofs Require Import CrcProofs.
Lemma src_crc_calc_bitserial : forall v, Forall (fun b => 0 <= b < 256) v ->
  fold_left (src_crc_step py_crc_table) v 0 = fold_left (crc_bits 8) v 0 /\ 0 <= fold_left (src_crc_step py_crc_table) v 0 < 2 ^ 32.
Proof.
  intros v Hv. rewrite py_crc_table_is_model_table.
  assert (E: fold_left (src_crc_step crc_table) v 0 = crc_calc v) by reflexivity.
  rewrite E. split; [apply crc_calc_is_bitserial; exact Hv|apply crc_calc_u32; exact Hv].
Qed.
(* the constructor's loop: entry i of the table is eight translated bit steps from (0, i) *)
Fixpoint iter_bit_step (k : nat) (cn : Z * Z) : Z * Z := match k with O => cn | S k' => iter_bit_step k' (src_crc_bit_step (fst cn) (snd cn)) end.
Lemma iter_bit_step_crc_bits k : forall crc n, fst (iter_bit_step k (crc, n)) = crc_bits k crc n.
Proof.
  induction k as [|k IH]; intros crc n; [reflexivity|].
  cbn [iter_bit_step fst snd]. rewrite (surjective_pairing (src_crc_bit_step crc n)), IH. symmetry. apply tie_crc_bit_step.
Qed.
Lemma src_crc_table_built : py_crc_table = map (fun i => fst (iter_bit_step 8 (0, Z.of_nat i))) (seq 0 256).
Proof.
  rewrite py_crc_table_is_model_table. unfold crc_table. apply map_ext. intros i. symmetry. apply iter_bit_step_crc_bits.
Qed.

(* dheat.py builds its packets itself: its padding rule, translated from the current source (T1b), is the model's pad_len - so the framing theorems cover those packets too *)
Lemma tie_dheat_padding : forall n, pad_len n = src_dheat_padding n.
Proof. intros n. unfold pad_len, src_dheat_padding. cbv zeta. destruct (- (n + 5) mod 8 <? 4); reflexivity. Qed.
