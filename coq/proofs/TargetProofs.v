(* C18 lemmas about coq/model/Target.v *)
From VModel Require Import Target.
From Coq Require Import Lia.
Open Scope string_scope. Open Scope list_scope. Open Scope Z_scope.

(* ------------------------------------------------------------------ strings *)
Lemma app_assoc_s : forall a b c : string, ((a ++ b) ++ c)%string = (a ++ (b ++ c))%string.
Proof. induction a; intros; cbn; [reflexivity | now rewrite IHa]. Qed.
Lemma app_nil_r_s : forall a : string, (a ++ "")%string = a.
Proof. induction a; cbn; [reflexivity | now rewrite IHa]. Qed.
Lemma forall_s_app : forall p a b, forall_s p (a ++ b)%string = forall_s p a && forall_s p b.
Proof. induction a; intros; cbn; [reflexivity | rewrite IHa; now rewrite andb_assoc]. Qed.
Lemma count_c_app : forall c a b, count_c c (a ++ b)%string = (count_c c a + count_c c b)%nat.
Proof. induction a; intros; cbn; [reflexivity | destruct (Ascii.eqb a c); rewrite IHa; reflexivity]. Qed.
Lemma forall_s_impl : forall (p q : ascii -> bool) s, (forall c, p c = true -> q c = true) -> forall_s p s = true -> forall_s q s = true.
Proof.
  induction s; intros Hpq H; cbn in *; [reflexivity|].
  apply andb_true_iff in H as [H1 H2]. rewrite (Hpq _ H1), (IHs Hpq H2). reflexivity.
Qed.
Lemma count_zero_forall : forall c s, count_c c s = O -> forall_s (fun d => negb (Ascii.eqb d c)) s = true.
Proof.
  induction s; intros H; cbn in *; [reflexivity|].
  destruct (Ascii.eqb a c); [discriminate | cbn; auto].
Qed.
Lemma of_chars_chars : forall s, of_chars (chars s) = s.
Proof. induction s; cbn; [reflexivity | now rewrite IHs]. Qed.
Lemma of_chars_app : forall a b, of_chars (a ++ b) = (of_chars a ++ of_chars b)%string.
Proof. induction a; intros; cbn; [reflexivity | now rewrite IHa]. Qed.
Lemma is_empty_true : forall s, is_empty s = true -> s = "".
Proof. destruct s; cbn; [reflexivity | discriminate]. Qed.
Lemma is_empty_app : forall a b, is_empty (a ++ b)%string = is_empty a && is_empty b.
Proof. destruct a; reflexivity. Qed.

(* ------------------------------------------------------------------ split_on *)
Lemma split_aux_skip : forall sep a r cur,
  forall_s (fun d => negb (Ascii.eqb d sep)) a = true ->
  split_on_aux sep (a ++ r)%string cur = split_on_aux sep r (rev (chars a) ++ cur).
Proof.
  induction a; intros r cur H; cbn in *; [reflexivity|].
  apply andb_true_iff in H as [H1 H2]. apply negb_true_iff in H1. rewrite H1.
  rewrite IHa by assumption. now rewrite <- app_assoc.
Qed.
Lemma split_on_none : forall sep a, forall_s (fun d => negb (Ascii.eqb d sep)) a = true -> split_on sep a = [a].
Proof.
  intros. unfold split_on. rewrite <- (app_nil_r_s a) at 1. rewrite split_aux_skip by assumption.
  cbn. rewrite app_nil_r, rev_involutive, of_chars_chars. reflexivity.
Qed.
Lemma split_on_one : forall sep a b,
  forall_s (fun d => negb (Ascii.eqb d sep)) a = true -> forall_s (fun d => negb (Ascii.eqb d sep)) b = true ->
  split_on sep (a ++ String sep b)%string = [a; b].
Proof.
  intros. unfold split_on. rewrite split_aux_skip by assumption. cbn. rewrite Ascii.eqb_refl.
  rewrite app_nil_r, rev_involutive, of_chars_chars. f_equal. now apply split_on_none.
Qed.
Lemma split_aux_length : forall sep s cur, List.length (split_on_aux sep s cur) = S (count_c sep s).
Proof.
  induction s; intros; cbn; [reflexivity|]. destruct (Ascii.eqb a sep); cbn; now rewrite IHs.
Qed.
Lemma split_on_length : forall sep s, List.length (split_on sep s) = S (count_c sep s).
Proof. intros. apply split_aux_length. Qed.

(* ------------------------------------------------------------------ digits *)
Lemma dig_char_cases : forall d, 0 <= d <= 9 ->
  d = 0 \/ d = 1 \/ d = 2 \/ d = 3 \/ d = 4 \/ d = 5 \/ d = 6 \/ d = 7 \/ d = 8 \/ d = 9.
Proof. intros; lia. Qed.
Ltac digit_cases H := apply dig_char_cases in H; repeat (destruct H as [H | H]); subst.
Lemma dig_char_dig : forall d, 0 <= d <= 9 -> is_dig (dig_char d) = true.
Proof. intros d H; digit_cases H; reflexivity. Qed.
Lemma dig_char_val : forall d, 0 <= d <= 9 -> dig_val (dig_char d) = d.
Proof. intros d H; digit_cases H; reflexivity. Qed.
Lemma dig_char_not : forall d c, 0 <= d <= 9 -> is_dig c = false -> Ascii.eqb (dig_char d) c = false.
Proof.
  intros d c H Hc. apply Ascii.eqb_neq. intros E. subst c. rewrite dig_char_dig in Hc by assumption. discriminate.
Qed.

Definition is_d09 (d : Z) : Prop := 0 <= d <= 9.
Lemma digits_le_range : forall fuel n, 0 <= n -> Forall is_d09 (digits_le fuel n).
Proof.
  induction fuel; intros n Hn; cbn; [constructor|].
  constructor.
  - unfold is_d09. pose proof (Z.mod_pos_bound n 10). lia.
  - destruct (n <? 10); [constructor|]. apply IHfuel. apply Z.div_pos; lia.
Qed.
Definition val_le (l : list Z) : Z := fold_right (fun d v => d + 10 * v) 0 l.
Lemma digits_le_value : forall fuel n, 0 <= n < 2 ^ Z.of_nat fuel -> val_le (digits_le fuel n) = n.
Proof.
  induction fuel; intros n Hn.
  - cbn in *. lia.
  - cbn [digits_le]. destruct (Z.ltb_spec n 10).
    + cbn. rewrite Z.mod_small by lia. lia.
    + cbn [val_le fold_right]. fold (val_le (digits_le fuel (n / 10))). rewrite IHfuel.
      * pose proof (Z.div_mod n 10). lia.
      * rewrite Nat2Z.inj_succ, Z.pow_succ_r in Hn by lia. split; [apply Z.div_pos; lia|].
        apply Z.div_lt_upper_bound; lia.
Qed.
Lemma digits_le_nonempty : forall fuel n, digits_le (S fuel) n <> [].
Proof. intros; cbn; discriminate. Qed.

Lemma fuel_enough : forall n, 0 <= n -> 0 <= n < 2 ^ Z.of_nat (S (Z.to_nat (Z.log2 n))).
Proof.
  intros n Hn. rewrite Nat2Z.inj_succ, Z2Nat.id by apply Z.log2_nonneg.
  destruct (Z.eq_dec n 0); [subst; cbn; lia|].
  pose proof (Z.log2_spec n). lia.
Qed.

Definition val_be (l : list Z) (acc : Z) : Z := fold_left (fun a d => 10 * a + d) l acc.
Lemma val_be_rev : forall l, val_be (rev l) 0 = val_le l.
Proof.
  induction l; [reflexivity|]. cbn [rev]. unfold val_be in *. rewrite fold_left_app. cbn [fold_left]. rewrite IHl. unfold val_le. cbn [fold_right]. lia.
Qed.

Lemma parse_digits_digits : forall l acc prev, Forall is_d09 l -> (l <> [] \/ prev = true) ->
  parse_digits (of_chars (map dig_char l)) acc prev = Some (val_be l acc).
Proof.
  induction l; intros acc prev Hl Hne.
  - destruct Hne as [Hne | ->]; [contradiction | reflexivity].
  - inversion Hl as [|? ? H1 H2]; subst. unfold is_d09 in H1. cbn [map of_chars parse_digits]. rewrite (dig_char_dig a H1), (dig_char_val a H1). unfold val_be. cbn [fold_left]. fold (val_be l (10 * acc + a)). rewrite IHl; auto.
Qed.
Lemma digits_string_all : forall l, Forall is_d09 l -> forall_s is_dig (of_chars (map dig_char l)) = true.
Proof.
  induction l; intros H; [reflexivity|]. cbn [map of_chars forall_s]. inversion H as [|? ? H1 H2]; subst. unfold is_d09 in H1. rewrite (dig_char_dig a H1). cbn [andb]. auto.
Qed.

Lemma dec_nonneg_shape : forall n, 0 <= n ->
  exists l, l <> [] /\ Forall is_d09 l /\ dec_nonneg n = of_chars (map dig_char l) /\ val_be l 0 = n.
Proof.
  intros n Hn. unfold dec_nonneg.
  exists (rev (digits_le (S (Z.to_nat (Z.log2 n))) n)). repeat split.
  - intros E. apply (f_equal (@rev Z)) in E. rewrite rev_involutive in E. cbn [rev] in E. now apply digits_le_nonempty in E.
  - apply Forall_rev. now apply digits_le_range.
  - rewrite val_be_rev. apply digits_le_value. now apply fuel_enough.
Qed.
Lemma dec_digits : forall n, 0 <= n -> forall_s is_dig (dec n) = true /\ is_empty (dec n) = false.
Proof.
  intros n Hn. unfold dec. destruct (Z.ltb_spec n 0); [lia|].
  destruct (dec_nonneg_shape n Hn) as (l & Hne & Hl & -> & _). split; [now apply digits_string_all|].
  destruct l; [contradiction | reflexivity].
Qed.

Lemma lstrip_c_id : forall s, forall_s (fun c => negb (is_cspace c)) s = true -> lstrip_c s = s.
Proof. destruct s; cbn; [reflexivity|]. intros H. apply andb_true_iff in H as [H _]. apply negb_true_iff in H. now rewrite H. Qed.
Lemma rstrip_c_id : forall s, forall_s (fun c => negb (is_cspace c)) s = true -> rstrip_c s = s.
Proof.
  induction s; cbn; [reflexivity|]. intros H. apply andb_true_iff in H as [H1 H2]. apply negb_true_iff in H1.
  rewrite IHs by assumption. rewrite H1, andb_false_r. reflexivity.
Qed.
Lemma dig_not_cspace : forall c, is_dig c = true -> is_cspace c = false.
Proof.
  intros c. unfold is_dig, is_cspace. intros H. apply andb_true_iff in H as [H1 H2].
  apply Nat.leb_le in H1, H2.
  destruct (Nat.leb_spec 9 (nat_of_ascii c)), (Nat.leb_spec (nat_of_ascii c) 13), (Nat.eqb_spec (nat_of_ascii c) 32); cbn; try reflexivity; lia.
Qed.

Lemma int_of_digits : forall ds, forall_s is_dig ds = true -> is_empty ds = false ->
  int_of_string ds = match parse_digits ds 0 false with Some v => Ok v | None => Raise ValueError end.
Proof.
  intros ds Hd Hne. unfold int_of_string.
  assert (Hs : forall_s (fun c => negb (is_cspace c)) ds = true).
  { eapply forall_s_impl; [|exact Hd]. intros c Hc. now rewrite dig_not_cspace. }
  rewrite lstrip_c_id, rstrip_c_id by assumption.
  destruct ds as [|c r]; [discriminate|]. cbn in Hd. apply andb_true_iff in Hd as [Hc _].
  assert (E1 : Ascii.eqb c "-" = false). { apply Ascii.eqb_neq. intros ->. discriminate. }
  assert (E2 : Ascii.eqb c "+" = false). { apply Ascii.eqb_neq. intros ->. discriminate. }
  rewrite E1, E2. destruct (parse_digits (String c r) 0 false); reflexivity.
Qed.

Lemma int_of_string_dec : forall n, 0 <= n -> int_of_string (dec n) = Ok n.
Proof.
  intros n Hn. destruct (dec_digits n Hn) as [Hd Hne]. rewrite int_of_digits by assumption.
  unfold dec in *. destruct (Z.ltb_spec n 0); [lia|].
  destruct (dec_nonneg_shape n Hn) as (l & Hl0 & Hl & E & Hv). rewrite E.
  rewrite parse_digits_digits by auto. now rewrite Hv.
Qed.

(* ------------------------------------------------------------------ parse_host_and_port on the documented spellings *)
Lemma break_at_skip : forall c a t, forall_s (fun d => negb (Ascii.eqb d c)) a = true ->
  break_at c (a ++ String c t)%string = (a, String c t).
Proof.
  induction a; intros t H; cbn in *; [now rewrite Ascii.eqb_refl|].
  apply andb_true_iff in H as [H1 H2]. apply negb_true_iff in H1. rewrite H1, IHa by assumption. reflexivity.
Qed.
Lemma chomp1_id : forall t, forall_s (fun d => negb (Ascii.eqb d c_nl)) t = true -> chomp1 t = t.
Proof.
  induction t; intros H; cbn in *; [reflexivity|].
  apply andb_true_iff in H as [H1 H2]. apply negb_true_iff in H1. rewrite H1, IHt by assumption. reflexivity.
Qed.
Lemma bracket_none : forall c r, Ascii.eqb c c_lbr = false -> bracket_match (String c r) = None.
Proof. intros c r H. cbn. now rewrite H. Qed.

Lemma host_char_not : forall c d, host_char c = true -> host_char d = false -> Ascii.eqb c d = false.
Proof. intros c d H1 H2. apply Ascii.eqb_neq. intros ->. congruence. Qed.
Lemma host_chars_not : forall s d, forall_s host_char s = true -> host_char d = false ->
  forall_s (fun c => negb (Ascii.eqb c d)) s = true.
Proof.
  intros s d H Hd. eapply forall_s_impl; [|exact H]. intros c Hc. cbn. now rewrite (host_char_not c d).
Qed.
Lemma dig_props : forall c, is_dig c = true ->
  host_char c = true /\ Ascii.eqb c c_colon = false /\ Ascii.eqb c c_nl = false /\ is_space c = false.
Proof.
  intros c H. unfold is_dig in H. apply andb_true_iff in H as [H1 H2]. apply Nat.leb_le in H1, H2.
  assert (Hs : is_space c = false).
  { unfold is_space. destruct (Nat.leb_spec 9 (nat_of_ascii c)), (Nat.leb_spec (nat_of_ascii c) 13),
      (Nat.leb_spec 28 (nat_of_ascii c)), (Nat.leb_spec (nat_of_ascii c) 32); cbn; try reflexivity; lia. }
  assert (Hne : forall d, (nat_of_ascii d < 48 \/ 57 < nat_of_ascii d)%nat -> Ascii.eqb c d = false).
  { intros d Hd. apply Ascii.eqb_neq. intros ->. lia. }
  repeat split; try assumption.
  - unfold host_char. rewrite Hs. cbn. rewrite (Hne c_lbr), (Hne c_rbr) by (cbn; lia). reflexivity.
  - apply Hne. cbn. lia.
  - apply Hne. cbn. lia.
Qed.
Lemma digs_no : forall s (q : ascii -> bool), (forall c, is_dig c = true -> q c = true) -> forall_s is_dig s = true -> forall_s q s = true.
Proof. intros. eapply forall_s_impl; eauto. Qed.
Lemma digs_no_colon : forall s, forall_s is_dig s = true -> forall_s (fun c => negb (Ascii.eqb c c_colon)) s = true.
Proof. intros s. apply digs_no. intros c H. destruct (dig_props c H) as (_ & -> & _). reflexivity. Qed.
Lemma digs_no_nl : forall s, forall_s is_dig s = true -> forall_s (fun c => negb (Ascii.eqb c c_nl)) s = true.
Proof. intros s. apply digs_no. intros c H. destruct (dig_props c H) as (_ & _ & -> & _). reflexivity. Qed.
Lemma digs_host : forall s, forall_s is_dig s = true -> forall_s host_char s = true.
Proof. intros s. apply digs_no. intros c H. now destruct (dig_props c H). Qed.

Lemma name_ok_parts : forall h, name_ok h = true ->
  exists c r, h = String c r /\ host_char c = true /\ forall_s host_char h = true
              /\ forall_s (fun d => negb (Ascii.eqb d c_colon)) h = true.
Proof.
  intros h H. unfold name_ok in H. apply andb_true_iff in H as [H H3]. apply andb_true_iff in H as [H1 H2].
  destruct h as [|c r]; [discriminate|]. exists c, r. repeat split; try assumption.
  - cbn in H2. now apply andb_true_iff in H2 as [? _].
  - apply count_zero_forall. now apply Nat.eqb_eq in H3.
Qed.
Lemma host_first_not_lbr : forall c, host_char c = true -> Ascii.eqb c c_lbr = false.
Proof. intros c H. apply host_char_not; [assumption | reflexivity]. Qed.

Lemma v6_ok_parts : forall a, v6_ok a = true ->
  exists c r, a = String c r /\ host_char c = true /\ forall_s host_char a = true /\ (2 <= count_c c_colon a)%nat.
Proof.
  intros a H. unfold v6_ok in H. apply andb_true_iff in H as [H1 H2]. apply Nat.leb_le in H2.
  destruct a as [|c r]; [cbn in H2; lia|]. exists c, r. repeat split; try assumption.
  cbn in H1. now apply andb_true_iff in H1 as [? _].
Qed.

Lemma parse_plain : forall s d c r, s = String c r -> Ascii.eqb c c_lbr = false -> count_c c_colon s <> 1%nat ->
  parse_host_and_port s d = Ok (s, d).
Proof.
  intros s d c r -> Hc Hn. unfold parse_host_and_port. rewrite bracket_none by assumption.
  pose proof (split_on_length c_colon (String c r)) as HL.
  destruct (split_on c_colon (String c r)) as [|x [|y [|z t]]]; try reflexivity.
  cbn [List.length] in HL. exfalso. apply Hn. lia.
Qed.

Lemma parse_host_port : forall h p d, name_ok h = true -> 0 <= p ->
  parse_host_and_port (h ++ ":" ++ dec p)%string d = Ok (h, p).
Proof.
  intros h p d Hh Hp. destruct (name_ok_parts h Hh) as (c & r & -> & Hc & _ & Hnc).
  destruct (dec_digits p Hp) as [Hd Hne].
  unfold parse_host_and_port. change ((String c r ++ ":" ++ dec p)%string) with (String c (r ++ ":" ++ dec p)%string).
  rewrite bracket_none by now apply host_first_not_lbr.
  change (String c (r ++ ":" ++ dec p)%string) with ((String c r ++ String c_colon (dec p))%string).
  rewrite split_on_one by (try assumption; now apply digs_no_colon).
  rewrite Hne. rewrite int_of_string_dec by assumption. reflexivity.
Qed.

Lemma parse_bracket : forall a d, v6_ok a = true -> parse_host_and_port ("[" ++ a ++ "]")%string d = Ok (a, d).
Proof.
  intros a d Ha. destruct (v6_ok_parts a Ha) as (c & r & E & Hc & Hall & _).
  unfold parse_host_and_port, bracket_match.
  change (("[" ++ a ++ "]")%string) with (String c_lbr (a ++ String c_rbr "")%string).
  cbv beta iota. rewrite Ascii.eqb_refl. rewrite break_at_skip by (apply host_chars_not; [assumption | reflexivity]).
  rewrite E. cbn. reflexivity.
Qed.

Lemma parse_bracket_port : forall a p d, v6_ok a = true -> 0 <= p ->
  parse_host_and_port ("[" ++ a ++ "]:" ++ dec p)%string d = Ok (a, p).
Proof.
  intros a p d Ha Hp. destruct (v6_ok_parts a Ha) as (c & r & E & Hc & Hall & _).
  destruct (dec_digits p Hp) as [Hd Hne].
  unfold parse_host_and_port, bracket_match.
  change (("[" ++ a ++ "]:" ++ dec p)%string) with (String c_lbr (a ++ String c_rbr (String c_colon (dec p)))%string).
  cbv beta iota. rewrite Ascii.eqb_refl. rewrite break_at_skip by (apply host_chars_not; [assumption | reflexivity]).
  assert (Hemp : is_empty a = false) by (rewrite E; reflexivity). rewrite Hemp.
  rewrite chomp1_id by (cbn; now apply digs_no_nl).
  rewrite Ascii.eqb_refl, Hne, Hd. cbn [negb andb bind].
  rewrite int_of_string_dec by assumption. reflexivity.
Qed.

Lemma forms_parse : forall f d, form_ok f = true -> parse_host_and_port (spell f) d = Ok (endpoint f d).
Proof.
  intros [h | h p | a | a | a p] d H; cbn [form_ok spell endpoint form_host form_port] in *.
  - destruct (name_ok_parts h H) as (c & r & E & Hc & _ & Hnc).
    eapply parse_plain; [exact E | now apply host_first_not_lbr |].
    unfold name_ok in H. apply andb_true_iff in H as [_ H]. apply Nat.eqb_eq in H. lia.
  - apply andb_true_iff in H as [H1 H2]. apply parse_host_port; [assumption | lia].
  - destruct (v6_ok_parts a H) as (c & r & E & Hc & _ & Hn).
    eapply parse_plain; [exact E | now apply host_first_not_lbr | lia].
  - now apply parse_bracket.
  - apply andb_true_iff in H as [H1 H2]. apply parse_bracket_port; [assumption | lia].
Qed.

(* ------------------------------------------------------------------ command line, single target *)
Lemma form_host_nonempty : forall f, form_ok f = true -> is_empty (form_host f) = false.
Proof.
  intros [h | h p | a | a | a p] H; cbn [form_ok form_host] in *.
  - destruct (name_ok_parts _ H) as (c & r & -> & _). reflexivity.
  - apply andb_true_iff in H as [H _]. destruct (name_ok_parts _ H) as (c & r & -> & _). reflexivity.
  - destruct (v6_ok_parts _ H) as (c & r & -> & _). reflexivity.
  - destruct (v6_ok_parts _ H) as (c & r & -> & _). reflexivity.
  - apply andb_true_iff in H as [H _]. destruct (v6_ok_parts _ H) as (c & r & -> & _). reflexivity.
Qed.
Lemma spell_nonempty : forall f, form_ok f = true -> is_empty (spell f) = false.
Proof.
  intros f H. pose proof (form_host_nonempty f H) as Hh.
  destruct f; cbn [spell form_host] in *; try assumption; try reflexivity.
  rewrite is_empty_app, Hh. reflexivity.
Qed.

(* -p is only the default: every documented spelling, with or without -p *)
Lemma cli_forms : forall f oport, form_ok f = true -> oport_ok oport = true -> port_ok (form_port f (default_port oport)) = true ->
  cli_single (spell f) oport = COk (form_host f) (form_port f (default_port oport)).
Proof.
  intros f oport H Ho Hp. unfold cli_single. rewrite spell_nonempty, forms_parse by assumption.
  unfold endpoint. rewrite form_host_nonempty, Ho, Hp by assumption. reflexivity.
Qed.
Lemma cli_forms_no_port_option : forall f, form_ok f = true -> port_ok (form_port f 22) = true ->
  cli_single (spell f) None = COk (form_host f) (form_port f 22).
Proof. intros f H Hp. now apply (cli_forms f None). Qed.
Lemma cli_port_option : forall f P, form_ok f = true -> port_ok P = true -> port_ok (form_port f P) = true ->
  cli_single (spell f) (Some P) = COk (form_host f) (form_port f P).
Proof. intros f P H HP Hp. now apply (cli_forms f (Some P)). Qed.

(* every accepted command line carries a port in 1..65535 *)
Lemma cli_single_port_ok : forall arg oport h p, cli_single arg oport = COk h p -> port_ok p = true.
Proof.
  intros arg oport h p. unfold cli_single. destruct (is_empty arg); [discriminate|].
  destruct (parse_host_and_port arg (default_port oport)) as [[h' p']|]; [|discriminate].
  destruct (is_empty h'); [discriminate|]. destruct (negb (oport_ok oport)); [discriminate|].
  destruct (port_ok p') eqn:E; [|discriminate]. intros [= _ <-]. assumption.
Qed.
(* a bad -p never leads to an accepted target *)
Lemma cli_bad_port_option : forall arg P h p, port_ok P = false -> cli_single arg (Some P) <> COk h p.
Proof.
  intros arg P h p H. unfold cli_single. destruct (is_empty arg); [discriminate|].
  destruct (parse_host_and_port arg (default_port (Some P))) as [[h' p']|]; [|discriminate].
  destruct (is_empty h'); [discriminate|]. cbn [oport_ok]. rewrite H. discriminate.
Qed.
Lemma cli_bad_port_option_form : forall f P, form_ok f = true -> port_ok P = false -> cli_single (spell f) (Some P) = CExit.
Proof.
  intros f P H HP. unfold cli_single. rewrite spell_nonempty, forms_parse by assumption.
  unfold endpoint. rewrite form_host_nonempty by assumption. cbn [oport_ok]. rewrite HP. reflexivity.
Qed.
Lemma cli_bad_port_named : forall f oport, form_ok f = true -> oport_ok oport = true -> port_ok (form_port f (default_port oport)) = false ->
  cli_single (spell f) oport = CRaise ValueError.
Proof.
  intros f oport H Ho Hp. unfold cli_single. rewrite spell_nonempty, forms_parse by assumption.
  unfold endpoint. rewrite form_host_nonempty, Ho, Hp by assumption. reflexivity.
Qed.

(* ------------------------------------------------------------------ strip, readlines, targets file *)
Definition nosp (c : ascii) : bool := negb (is_space c).
Lemma lstrip_pad : forall pad s, forall_s is_space pad = true -> lstrip (pad ++ s)%string = lstrip s.
Proof.
  induction pad; intros s H; cbn in *; [reflexivity|]. apply andb_true_iff in H as [H1 H2]. rewrite H1. auto.
Qed.
Lemma lstrip_id : forall c r, is_space c = false -> lstrip (String c r) = String c r.
Proof. intros c r H. cbn. now rewrite H. Qed.
Lemma rstrip_spaces : forall pad, forall_s is_space pad = true -> rstrip pad = "".
Proof.
  induction pad; intros H; cbn in *; [reflexivity|]. apply andb_true_iff in H as [H1 H2]. rewrite IHpad, H1 by assumption. reflexivity.
Qed.
Lemma rstrip_nosp_pad : forall s pad, forall_s nosp s = true -> forall_s is_space pad = true -> rstrip (s ++ pad)%string = s.
Proof.
  induction s; intros pad Hs Hp; cbn in *; [now apply rstrip_spaces|].
  apply andb_true_iff in Hs as [H1 H2]. unfold nosp in H1. apply negb_true_iff in H1.
  rewrite IHs, H1, andb_false_r by assumption. reflexivity.
Qed.
Lemma strip_padded : forall a s b, forall_s is_space a = true -> forall_s is_space b = true ->
  forall_s nosp s = true -> strip (a ++ s ++ b)%string = s.
Proof.
  intros a s b Ha Hb Hs. unfold strip. rewrite lstrip_pad by assumption.
  destruct s as [|c r].
  - cbn. destruct b as [|cb rb]; [reflexivity|]. cbn in Hb. apply andb_true_iff in Hb as [H1 H2].
    assert (E : lstrip (String cb rb) = lstrip rb) by (cbn; now rewrite H1).
    rewrite E. clear E H1 cb. induction rb as [|x rb IH]; [reflexivity|]. cbn in H2. apply andb_true_iff in H2 as [H1 H2].
    cbn. rewrite H1. auto.
  - cbn in Hs. apply andb_true_iff in Hs as [H1 H2]. unfold nosp in H1. apply negb_true_iff in H1.
    change ((String c r ++ b)%string) with (String c (r ++ b)%string). rewrite lstrip_id by assumption.
    change (String c (r ++ b)%string) with ((String c r ++ b)%string). apply rstrip_nosp_pad; [|assumption].
    cbn. unfold nosp at 1. rewrite H1. assumption.
Qed.

Lemma host_char_nosp : forall c, host_char c = true -> nosp c = true.
Proof. intros c H. unfold host_char in H. apply andb_true_iff in H as [H _]. now apply andb_true_iff in H as [H _]. Qed.
Lemma hosts_nosp : forall s, forall_s host_char s = true -> forall_s nosp s = true.
Proof. intros s. apply forall_s_impl. exact host_char_nosp. Qed.
Lemma digs_nosp : forall s, forall_s is_dig s = true -> forall_s nosp s = true.
Proof. intros s. apply digs_no. intros c H. destruct (dig_props c H) as (_ & _ & _ & E). unfold nosp. now rewrite E. Qed.

Lemma spell_nosp : forall f, form_ok f = true -> forall_s nosp (spell f) = true.
Proof.
  intros [h | h p | a | a | a p] H; cbn [form_ok spell] in *.
  - destruct (name_ok_parts _ H) as (_ & _ & _ & _ & Hh & _). now apply hosts_nosp.
  - apply andb_true_iff in H as [H Hp]. destruct (name_ok_parts _ H) as (_ & _ & _ & _ & Hh & _).
    destruct (dec_digits p ltac:(lia)) as [Hd _].
    rewrite forall_s_app, hosts_nosp by assumption. cbn. now apply digs_nosp.
  - destruct (v6_ok_parts _ H) as (_ & _ & _ & _ & Hh & _). now apply hosts_nosp.
  - destruct (v6_ok_parts _ H) as (_ & _ & _ & _ & Hh & _). cbn. rewrite forall_s_app, hosts_nosp by assumption. reflexivity.
  - apply andb_true_iff in H as [H Hp]. destruct (v6_ok_parts _ H) as (_ & _ & _ & _ & Hh & _).
    destruct (dec_digits p ltac:(lia)) as [Hd _].
    cbn. rewrite forall_s_app, hosts_nosp by assumption. cbn. now apply digs_nosp.
Qed.

Lemma lines_line : forall l rest, forall_s (fun c => negb (Ascii.eqb c c_nl)) l = true ->
  lines (l ++ String c_nl rest)%string = (l ++ String c_nl "")%string :: lines rest.
Proof.
  induction l; intros rest H; cbn [append lines].
  - rewrite Ascii.eqb_refl. reflexivity.
  - cbn in H. apply andb_true_iff in H as [H1 H2]. apply negb_true_iff in H1. rewrite H1, IHl by assumption. reflexivity.
Qed.
Lemma univ_nl_id : forall s, forall_s (fun c => negb (Ascii.eqb c c_cr)) s = true -> univ_nl s = s.
Proof.
  induction s; intros H; cbn in *; [reflexivity|]. apply andb_true_iff in H as [H1 H2]. apply negb_true_iff in H1.
  rewrite H1, IHs by assumption. reflexivity.
Qed.

Definition item_body (i : item) : string := match i with Blank a => a | Tgt a f b => (a ++ spell f ++ b)%string end.
Lemma render_item_body : forall i, render_item i = (item_body i ++ String c_nl "")%string.
Proof. destruct i; cbn; [reflexivity|]. now rewrite !app_assoc_s. Qed.
Lemma lstrip_spaces : forall s, forall_s is_space s = true -> lstrip s = "".
Proof. induction s; intros H; cbn in *; [reflexivity|]. apply andb_true_iff in H as [H1 H2]. rewrite H1. auto. Qed.
Lemma strip_spaces : forall s, forall_s is_space s = true -> strip s = "".
Proof. intros s H. unfold strip. now rewrite lstrip_spaces. Qed.

Lemma pad_props : forall s, forall_s pad_char s = true ->
  forall_s is_space s = true /\ forall_s (fun c => negb (Ascii.eqb c c_nl)) s = true /\ forall_s (fun c => negb (Ascii.eqb c c_cr)) s = true.
Proof.
  intros s H. repeat split; (eapply forall_s_impl; [|exact H]); intros c Hc; unfold pad_char in Hc;
    apply andb_true_iff in Hc as [Hc H3]; apply andb_true_iff in Hc as [H1 H2]; assumption.
Qed.
Lemma nosp_props : forall s, forall_s nosp s = true ->
  forall_s (fun c => negb (Ascii.eqb c c_nl)) s = true /\ forall_s (fun c => negb (Ascii.eqb c c_cr)) s = true.
Proof.
  intros s H. split; (eapply forall_s_impl; [|exact H]); intros c Hc; unfold nosp in Hc; apply negb_true_iff in Hc;
    apply negb_true_iff; apply Ascii.eqb_neq; intros ->; discriminate.
Qed.

Lemma item_body_props : forall i, item_ok i = true ->
  forall_s (fun c => negb (Ascii.eqb c c_nl)) (item_body i) = true /\ forall_s (fun c => negb (Ascii.eqb c c_cr)) (item_body i) = true.
Proof.
  intros [a|a f b] H; cbn [item_body item_ok] in *; [destruct (pad_props a H) as (_ & A1 & A2); now split|].
  apply andb_true_iff in H as [H Hf]. apply andb_true_iff in H as [Ha Hb].
  destruct (pad_props a Ha) as (_ & A1 & A2). destruct (pad_props b Hb) as (_ & B1 & B2).
  destruct (nosp_props _ (spell_nosp f Hf)) as [S1 S2].
  rewrite !forall_s_app, A1, A2, B1, B2, S1, S2. split; reflexivity.
Qed.

Lemma render_no_cr : forall items, forallb item_ok items = true -> forall_s (fun c => negb (Ascii.eqb c c_cr)) (render items) = true.
Proof.
  induction items as [|i r IH]; intros H; cbn [render forallb] in *; [reflexivity|].
  apply andb_true_iff in H as [H1 H2]. rewrite render_item_body, !forall_s_app.
  destruct (item_body_props i H1) as [_ ->]. rewrite IH by assumption. reflexivity.
Qed.

Lemma strip_tgt_line : forall a f b, forall_s pad_char a = true -> forall_s pad_char b = true -> form_ok f = true ->
  strip ((a ++ spell f ++ b) ++ String c_nl "")%string = spell f.
Proof.
  intros a f b Ha Hb Hf. rewrite !app_assoc_s. apply strip_padded.
  - now destruct (pad_props a Ha).
  - rewrite forall_s_app. destruct (pad_props b Hb) as (-> & _). reflexivity.
  - now apply spell_nosp.
Qed.
Lemma keep_blank_line : forall a, forall_s pad_char a = true -> keep_line (a ++ String c_nl "")%string = false.
Proof.
  intros a Ha. unfold keep_line. rewrite strip_spaces; [reflexivity|].
  rewrite forall_s_app. destruct (pad_props a Ha) as (-> & _). reflexivity.
Qed.

Lemma file_lines_render_tail : forall items tail, forallb item_ok items = true ->
  map strip (filter keep_line (lines (render items ++ tail)%string)) = map spell (forms_of items) ++ map strip (filter keep_line (lines tail)).
Proof.
  induction items as [|i r IH]; intros tail H; cbn [render forallb forms_of] in *; [reflexivity|].
  apply andb_true_iff in H as [H1 H2]. rewrite render_item_body, !app_assoc_s. cbn [append].
  destruct (item_body_props i H1) as [Hnl _]. rewrite lines_line by assumption. cbn [filter].
  destruct i as [a|a f b]; cbn [item_body item_ok] in *.
  - rewrite keep_blank_line by assumption. now apply IH.
  - apply andb_true_iff in H1 as [H1 Hf]. apply andb_true_iff in H1 as [Ha Hb].
    unfold keep_line at 1. rewrite strip_tgt_line, (spell_nonempty f Hf) by assumption. cbn [negb map app].
    rewrite strip_tgt_line by assumption. f_equal. now apply IH.
Qed.
Lemma file_lines_render : forall items, forallb item_ok items = true ->
  map strip (filter keep_line (lines (render items))) = map spell (forms_of items).
Proof.
  intros items H. rewrite <- (app_nil_r_s (render items)). rewrite file_lines_render_tail by assumption. cbn. apply app_nil_r.
Qed.

Lemma map_res_forms : forall fs d, forallb form_ok fs = true ->
  map_res (fun t => parse_host_and_port t d) (map spell fs) = Ok (map (fun f => endpoint f d) fs).
Proof.
  induction fs as [|f r IH]; intros d H; cbn [map map_res forallb] in *; [reflexivity|].
  apply andb_true_iff in H as [H1 H2]. rewrite forms_parse, IH by assumption. reflexivity.
Qed.
Lemma forms_of_ok : forall items, forallb item_ok items = true -> forallb form_ok (forms_of items) = true.
Proof.
  induction items as [|i r IH]; intros H; cbn [forallb forms_of] in *; [reflexivity|].
  apply andb_true_iff in H as [H1 H2]. destruct i as [|a f b]; [now apply IH|].
  cbn [item_ok] in H1. apply andb_true_iff in H1 as [_ Hf]. cbn. rewrite Hf. now apply IH.
Qed.

Lemma file_lines_items : forall items, forallb item_ok items = true -> file_lines (render items) = map spell (forms_of items).
Proof.
  intros items H. unfold file_lines. rewrite univ_nl_id by now apply render_no_cr. now apply file_lines_render.
Qed.
Lemma file_forms : forall items d, forallb item_ok items = true ->
  file_targets (render items) d = Ok (map (fun f => endpoint f d) (forms_of items)).
Proof.
  intros items d H. unfold file_targets. rewrite file_lines_items by assumption.
  apply map_res_forms. now apply forms_of_ok.
Qed.

(* the same with a last line that has no newline *)
Lemma lines_cons : forall c r, Ascii.eqb c c_nl = false ->
  lines (String c r) = match lines r with [] => [String c ""] | l :: ls => String c l :: ls end.
Proof. intros c r H. cbn [lines]. now rewrite H. Qed.
Lemma lines_single : forall r c, forall_s (fun d => negb (Ascii.eqb d c_nl)) (String c r) = true -> lines (String c r) = [String c r].
Proof.
  induction r as [|x r IH]; intros c H; cbn [forall_s] in H; apply andb_true_iff in H as [H1 H2]; apply negb_true_iff in H1;
    rewrite lines_cons by assumption.
  - reflexivity.
  - rewrite (IH x) by exact H2. reflexivity.
Qed.
Lemma file_forms_no_final_newline : forall items a f b d, forallb item_ok items = true -> item_ok (Tgt a f b) = true ->
  file_targets (render items ++ a ++ spell f ++ b)%string d = Ok (map (fun g => endpoint g d) (forms_of items ++ [f])).
Proof.
  intros items a f b d H Hi. pose proof Hi as Hi'. cbn [item_ok] in Hi. apply andb_true_iff in Hi as [Hi Hf]. apply andb_true_iff in Hi as [Ha Hb].
  destruct (item_body_props _ Hi') as [Tnl Tcr]. cbn [item_body] in Tnl, Tcr.
  unfold file_targets, file_lines. rewrite univ_nl_id by (rewrite forall_s_app, render_no_cr, Tcr by assumption; reflexivity).
  rewrite file_lines_render_tail by assumption.
  assert (Hs : strip (a ++ spell f ++ b)%string = spell f).
  { apply strip_padded; [now destruct (pad_props _ Ha) | now destruct (pad_props _ Hb) | now apply spell_nosp]. }
  assert (Hne : is_empty (a ++ spell f ++ b)%string = false) by (rewrite !is_empty_app, (spell_nonempty f Hf), andb_false_r; destruct (is_empty a); reflexivity).
  destruct (a ++ spell f ++ b)%string as [|c r] eqn:E; [discriminate|].
  rewrite lines_single by assumption. cbn [filter]. unfold keep_line. rewrite Hs, (spell_nonempty f Hf). cbn [negb map]. rewrite Hs.
  replace (map spell (forms_of items) ++ [spell f]) with (map spell (forms_of items ++ [f])) by (rewrite map_app; reflexivity).
  apply map_res_forms. rewrite forallb_app, forms_of_ok by assumption. cbn. now rewrite Hf.
Qed.

(* whitespace-only lines are skipped like blank lines: they are `Blank pad` items of file_forms; e.g. *)
Lemma file_whitespace_line_skipped : forall pad, forall_s pad_char pad = true -> file_lines (pad ++ String c_nl "")%string = [].
Proof.
  intros pad H. change ((pad ++ String c_nl "")%string) with (render_item (Blank pad)).
  rewrite <- (app_nil_r_s (render_item (Blank pad))). change ((render_item (Blank pad) ++ "")%string) with (render [Blank pad]).
  rewrite file_lines_items; [reflexivity|]. cbn. now rewrite H.
Qed.

(* ------------------------------------------------------------------ family preference *)
Lemma insert_fam_front : forall before x l, (forall y, In y l -> before (e_fam y) (e_fam x) = false) -> insert_fam before x l = x :: l.
Proof. intros before x [|y l] H; cbn; [reflexivity|]. rewrite H by now left. reflexivity. Qed.
Lemma insert_fam_skip : forall before x a b, (forall y, In y a -> before (e_fam y) (e_fam x) = true) ->
  insert_fam before x (a ++ b) = a ++ insert_fam before x b.
Proof.
  induction a as [|y a IH]; intros b H; cbn; [reflexivity|]. rewrite H by now left. rewrite IH; [reflexivity|].
  intros z Hz. apply H. now right.
Qed.
Lemma sort_two_families : forall (before : Z -> Z -> bool) lo hi l,
  before lo hi = true -> before lo lo = false -> before hi hi = false -> before hi lo = false -> lo <> hi ->
  Forall (fun e => e_fam e = lo \/ e_fam e = hi) l ->
  fold_right (insert_fam before) [] l = filter (fam_is lo) l ++ filter (fam_is hi) l.
Proof.
  intros before lo hi l B1 B2 B3 B4 Hne. induction l as [|x l IH]; intros H; [reflexivity|].
  inversion H as [|? ? Hx Hl]; subst. cbn [fold_right filter]. rewrite IH by assumption.
  destruct Hx as [Hx | Hx].
  - assert (E1 : fam_is lo x = true) by (unfold fam_is; rewrite Hx; apply Z.eqb_refl).
    assert (E2 : fam_is hi x = false) by (unfold fam_is; rewrite Hx; now apply Z.eqb_neq).
    rewrite E1, E2. cbn [app].
    apply insert_fam_front. intros y Hy. apply in_app_or in Hy. rewrite Hx.
    destruct Hy as [Hy | Hy]; apply filter_In in Hy as [_ Hy]; unfold fam_is in Hy; apply Z.eqb_eq in Hy; rewrite Hy; assumption.
  - assert (E1 : fam_is lo x = false) by (unfold fam_is; rewrite Hx; apply Z.eqb_neq; congruence).
    assert (E2 : fam_is hi x = true) by (unfold fam_is; rewrite Hx; apply Z.eqb_refl).
    rewrite E1, E2. rewrite insert_fam_skip.
    + f_equal. apply insert_fam_front. intros y Hy. apply filter_In in Hy as [_ Hy]. unfold fam_is in Hy. apply Z.eqb_eq in Hy. rewrite Hy, Hx. assumption.
    + intros y Hy. apply filter_In in Hy as [_ Hy]. unfold fam_is in Hy. apply Z.eqb_eq in Hy. rewrite Hy, Hx. assumption.
Qed.

Lemma family_order : forall l, dual l ->
  order_pref [4; 6] l = filter (fam_is AF_INET) l ++ filter (fam_is AF_INET6) l
  /\ order_pref [6; 4] l = filter (fam_is AF_INET6) l ++ filter (fam_is AF_INET) l.
Proof.
  intros l H. split; cbn [order_pref]; unfold sort_fam.
  - apply sort_two_families; try reflexivity; [discriminate | assumption].
  - apply sort_two_families; try reflexivity; [discriminate|]. eapply Forall_impl; [|exact H]. cbn. tauto.
Qed.

Lemma insert_fam_in : forall before x l e, In e (insert_fam before x l) <-> e = x \/ In e l.
Proof.
  induction l as [|y l IH]; intros e; cbn; [intuition congruence|].
  destruct (before (e_fam y) (e_fam x)); cbn; [rewrite IH|]; intuition congruence.
Qed.
Lemma sort_fam_in : forall rv l e, In e (sort_fam rv l) <-> In e l.
Proof.
  intros rv l e. unfold sort_fam. induction l as [|x l IH]; cbn; [tauto|]. rewrite insert_fam_in, IH. intuition congruence.
Qed.
Lemma order_pref_in : forall pref l e, In e (order_pref pref l) <-> In e l.
Proof.
  intros pref l e. destruct pref as [|a [|b [|c t]]]; cbn [order_pref]; try tauto. apply sort_fam_in.
Qed.
Lemma resolve_list_in : forall pref l e, In e (resolve_list pref l) <-> In e l /\ e_type e = SOCK_STREAM.
Proof.
  intros. unfold resolve_list. rewrite filter_In, order_pref_in. rewrite Z.eqb_eq. tauto.
Qed.

Lemma gai_in : forall r h fam l e, gai r h fam = Some l -> In e l -> In e (table r h) /\ (fam = 0 \/ e_fam e = fam).
Proof.
  intros r h fam l e H Hin. unfold gai in H.
  destruct (filter (fun e0 => (fam =? 0) || (fam =? e_fam e0)) (table r h)) eqn:E; [discriminate|].
  injection H as <-. rewrite <- E in Hin. apply filter_In in Hin as [H1 H2]. split; [assumption|].
  apply orb_true_iff in H2 as [H2 | H2]; apply Z.eqb_eq in H2; [now left | now right].
Qed.

(* what one audit resolves and dials *)
Lemma audit_dials_named : forall pref r h p,
  o_gai (audit_refused pref r h p) = [(h, p, gai_family pref)]
  /\ (List.length (o_conn (audit_refused pref r h p)) <= 1)%nat
  /\ forall c, In c (o_conn (audit_refused pref r h p)) ->
       exists e, In e (table r h) /\ e_type e = SOCK_STREAM /\ (gai_family pref = 0 \/ e_fam e = gai_family pref)
                 /\ c = (e_fam e, e_ip e, p).
Proof.
  intros pref r h p. unfold audit_refused. destruct (gai r h (gai_family pref)) as [l|] eqn:G.
  - destruct (resolve_list pref l) as [|e t] eqn:R; cbn; (split; [reflexivity|]); (split; [lia|]); intros c Hc; [contradiction|].
    destruct Hc as [<- | []]. exists e.
    assert (Hin : In e (resolve_list pref l)) by (rewrite R; now left).
    apply resolve_list_in in Hin as [Hin Ht]. destruct (gai_in _ _ _ _ _ G Hin) as [H1 H2]. auto.
  - cbn. split; [reflexivity|]. split; [lia|]. intros c [].
Qed.

Lemma family_filter : forall pref r h l e, gai_family pref <> 0 ->
  gai r h (gai_family pref) = Some l -> In e (resolve_list pref l) -> e_fam e = gai_family pref.
Proof.
  intros pref r h l e Hf G Hin. apply resolve_list_in in Hin as [Hin _].
  destruct (gai_in _ _ _ _ _ G Hin) as [_ [H | H]]; [contradiction | assumption].
Qed.
Lemma gai_family_single : gai_family [4] = AF_INET /\ gai_family [6] = AF_INET6 /\ gai_family [] = 0 /\ gai_family [4; 6] = 0 /\ gai_family [6; 4] = 0.
Proof. repeat split. Qed.

(* the first address dialled belongs to the first-preferred family whenever the resolver offers one *)
Lemma first_of_preferred : forall l e t, dual l -> resolve_list [4; 6] l = e :: t ->
  (exists x, In x l /\ e_fam x = AF_INET /\ e_type x = SOCK_STREAM) -> e_fam e = AF_INET.
Proof.
  intros l e t Hd R (x & Hx & Hf & Ht). unfold resolve_list in R. destruct (family_order l Hd) as [E _]. rewrite E in R.
  rewrite filter_app in R.
  assert (Hin : In x (filter (fun e0 => e_type e0 =? SOCK_STREAM) (filter (fam_is AF_INET) l))).
  { apply filter_In. split; [apply filter_In; split; [assumption | unfold fam_is; now apply Z.eqb_eq] | now apply Z.eqb_eq]. }
  destruct (filter (fun e0 => e_type e0 =? SOCK_STREAM) (filter (fam_is AF_INET) l)) as [|y ys] eqn:F; [contradiction|].
  cbn in R. injection R as <- _.
  assert (Hy : In y (filter (fun e0 => e_type e0 =? SOCK_STREAM) (filter (fam_is AF_INET) l))) by (rewrite F; now left).
  apply filter_In in Hy as [Hy _]. apply filter_In in Hy as [_ Hy]. unfold fam_is in Hy. now apply Z.eqb_eq in Hy.
Qed.

(* -4 / -6 / -46 / -64 *)
Lemma flag_order_partial : pref_of_flags [] = [] /\ pref_of_flags [4] = [4] /\ pref_of_flags [6] = [6] /\ pref_of_flags [4; 6] = [4; 6].
Proof. repeat split. Qed.
Lemma flag_order_refuted : exists flags r h p ip4 ip6,
  flags = [6; 4] /\ table r h = [{| e_fam := AF_INET; e_type := SOCK_STREAM; e_ip := ip4 |}; {| e_fam := AF_INET6; e_type := SOCK_STREAM; e_ip := ip6 |}]
  /\ o_conn (audit_refused (pref_of_flags flags) r h p) = [(AF_INET, ip4, p)].
Proof.
  exists [6; 4], [("h", [{| e_fam := AF_INET; e_type := SOCK_STREAM; e_ip := "10.0.0.1" |}; {| e_fam := AF_INET6; e_type := SOCK_STREAM; e_ip := "fd00::1" |}])],
    "h", 22, "10.0.0.1", "fd00::1". repeat split.
Qed.

(* connection rate test (dheat.py _resolve_hostname) against the audit (ssh_socket.py _resolve): same address, every preference *)
Lemma rate_test_same_address : forall pref l, rate_first pref l = hd_error (resolve_list pref l).
Proof. intros pref l. unfold rate_first, resolve_list, order_pref. reflexivity. Qed.

(* ------------------------------------------------------------------ labels *)
Lemma break_at_app : forall c s a b, break_at c s = (a, b) -> s = (a ++ b)%string.
Proof.
  induction s as [|d s IH]; intros a b H; cbn in H.
  - injection H as <- <-. reflexivity.
  - destruct (Ascii.eqb d c).
    + injection H as <- <-. reflexivity.
    + destruct (break_at c s) as [a' b'] eqn:E. injection H as <- <-. cbn. f_equal. now apply IH.
Qed.
Lemma v6_addr_colons : forall a, v6_addr_ok a = true -> (2 <= count_c c_colon a)%nat.
Proof.
  intros a H. unfold v6_addr_ok in H. destruct (is_empty a); [discriminate|].
  destruct (Nat.ltb_spec (List.length (split_on c_colon a)) 3); [discriminate|].
  rewrite split_on_length in *. lia.
Qed.
Lemma is_ipv6_colons : forall s, is_ipv6 s = true -> (2 <= count_c c_colon s)%nat.
Proof.
  intros s H. unfold is_ipv6 in H. destruct (has_c "/" s); [discriminate|].
  destruct (break_at "%" s) as [addr rest] eqn:E. apply break_at_app in E. subst s. rewrite count_c_app.
  assert (Ha : v6_addr_ok addr = true).
  { destruct rest as [|c scope]; [assumption|]. destruct (is_empty scope || has_c "%" scope); [discriminate | assumption]. }
  apply v6_addr_colons in Ha. lia.
Qed.
Lemma name_not_ipv6 : forall h, name_ok h = true -> is_ipv6 h = false.
Proof.
  intros h H. destruct (is_ipv6 h) eqn:E; [|reflexivity]. apply is_ipv6_colons in E.
  unfold name_ok in H. apply andb_true_iff in H as [_ H]. apply Nat.eqb_eq in H. lia.
Qed.
Lemma port_ok_range : forall p, port_ok p = true -> 1 <= p <= 65535.
Proof. intros p H. unfold port_ok in H. apply andb_true_iff in H as [H1 H2]. apply Z.leb_le in H1, H2. lia. Qed.

Lemma text_label_name : forall h p, name_ok h = true -> port_ok p = true -> parse_host_and_port (text_label h p) 22 = Ok (h, p).
Proof.
  intros h p Hh Hp. apply port_ok_range in Hp. unfold text_label. destruct (Z.eqb_spec p 22) as [-> | Hne].
  - apply (forms_parse (FHost h) 22 Hh).
  - rewrite name_not_ipv6 by assumption. apply parse_host_port; [assumption | lia].
Qed.
Lemma text_label_v6 : forall a p, is_ipv6 a = true -> forall_s host_char a = true -> port_ok p = true ->
  parse_host_and_port (text_label a p) 22 = Ok (a, p).
Proof.
  intros a p Ha Hc Hp. apply port_ok_range in Hp.
  assert (Hv : v6_ok a = true). { unfold v6_ok. rewrite Hc. apply is_ipv6_colons in Ha. apply Nat.leb_le in Ha. now rewrite Ha. }
  unfold text_label. destruct (Z.eqb_spec p 22) as [-> | Hne].
  - apply (forms_parse (FV6 a) 22 Hv).
  - rewrite Ha. apply parse_bracket_port; [assumption | lia].
Qed.
Lemma json_label_name : forall h p d, name_ok h = true -> port_ok p = true -> parse_host_and_port (json_label h p) d = Ok (h, p).
Proof. intros h p d Hh Hp. apply port_ok_range in Hp. apply parse_host_port; [assumption | lia]. Qed.
Lemma json_label_v6_refuted : exists a p, is_ipv6 a = true /\ forall_s host_char a = true /\ port_ok p = true
  /\ parse_host_and_port (json_label a p) 22 <> Ok (a, p).
Proof. exists "::1", 22. repeat split; try reflexivity. vm_compute. discriminate. Qed.

(* ------------------------------------------------------------------ whole runs *)
Lemma audit_ports : forall pref r h p,
  (forall g, In g (o_gai (audit_refused pref r h p)) -> snd (fst g) = p)
  /\ (forall c, In c (o_conn (audit_refused pref r h p)) -> snd c = p).
Proof.
  intros. destruct (audit_dials_named pref r h p) as (Hg & _ & Hc). split.
  - intros g Hin. rewrite Hg in Hin. destruct Hin as [<- | []]. reflexivity.
  - intros c Hin. destruct (Hc c Hin) as (e & _ & _ & _ & ->). reflexivity.
Qed.
Lemma audit_ports_valid : forall pref r h p, port_ok p = true -> ports_valid (audit_refused pref r h p).
Proof.
  intros pref r h p Hp. destruct (audit_ports pref r h p) as [Hg Hc]. split.
  - intros g Hin. now rewrite (Hg g Hin).
  - intros c Hin. now rewrite (Hc c Hin).
Qed.

Lemma run_single_ports : forall arg oport flags r o, In o (obs_of (run_single arg oport flags r)) -> ports_valid o.
Proof.
  intros arg oport flags r o. unfold run_single. destruct (cli_single arg oport) as [| e | h p] eqn:E; cbn; try tauto.
  intros [<- | []]. apply audit_ports_valid. eapply cli_single_port_ok. exact E.
Qed.
(* nothing is resolved or dialled unless the run completes *)
Lemma run_single_rejected_clean : forall arg oport flags r, match run_single arg oport flags r with RDone _ => True | o => obs_of o = [] end.
Proof. intros. unfold run_single. destruct (cli_single arg oport); cbn; auto. Qed.
Lemma run_single_bad_option : forall arg P flags r, port_ok P = false -> obs_of (run_single arg (Some P) flags r) = [].
Proof.
  intros arg P flags r H. unfold run_single. destruct (cli_single arg (Some P)) as [| e | h p] eqn:E; try reflexivity.
  exfalso. exact (cli_bad_port_option arg P h p H E).
Qed.
Lemma run_single_bad_option_form : forall f P flags r, form_ok f = true -> port_ok P = false -> run_single (spell f) (Some P) flags r = RExit.
Proof. intros. unfold run_single. now rewrite cli_bad_port_option_form. Qed.
Lemma run_single_bad_named : forall f oport flags r, form_ok f = true -> oport_ok oport = true ->
  port_ok (form_port f (default_port oport)) = false -> run_single (spell f) oport flags r = RCrash [].
Proof. intros. unfold run_single. now rewrite cli_bad_port_named. Qed.
Lemma run_single_named : forall f oport flags r, form_ok f = true -> oport_ok oport = true ->
  port_ok (form_port f (default_port oport)) = true ->
  run_single (spell f) oport flags r = RDone [audit_refused (pref_of_flags flags) r (form_host f) (form_port f (default_port oport))].
Proof. intros. unfold run_single. now rewrite cli_forms. Qed.

Lemma validate_ok_ports : forall ts d l, validate ts d = VOk -> map_res (fun t => parse_host_and_port t d) ts = Ok l ->
  forallb (fun t => port_ok (snd t)) l = true.
Proof.
  induction ts as [|t ts IH]; intros d l Hv Hm; cbn in *.
  - injection Hm as <-. reflexivity.
  - destruct (parse_host_and_port t d) as [[h p]|]; [|discriminate]. destruct (port_ok p) eqn:Ep; [|discriminate].
    cbn in Hm. destruct (map_res (fun t0 => parse_host_and_port t0 d) ts) as [l'|] eqn:E; [|discriminate].
    cbn in Hm. injection Hm as <-. cbn. rewrite Ep. now apply (IH d).
Qed.
Lemma run_file_rejected_clean : forall content oport flags r, match run_file content oport flags r with RDone _ => True | o => obs_of o = [] end.
Proof.
  intros. unfold run_file. destruct (negb (oport_ok oport)); [reflexivity|].
  destruct (file_lines content); [reflexivity|]. destruct (validate _ _); try reflexivity.
  destruct (file_targets content (default_port oport)); cbn; auto.
Qed.
Lemma run_file_ports : forall content oport flags r o, In o (obs_of (run_file content oport flags r)) -> ports_valid o.
Proof.
  intros content oport flags r o. unfold run_file. destruct (negb (oport_ok oport)); [cbn; tauto|].
  unfold file_targets. destruct (file_lines content) as [|t0 ts0] eqn:EL; [cbn; tauto|].
  destruct (validate (t0 :: ts0) (default_port oport)) eqn:Ev; try (cbn; tauto).
  destruct (map_res _ (t0 :: ts0)) as [l|] eqn:Em; [|cbn; tauto].
  cbn [obs_of]. intros Hin. apply in_map_iff in Hin as (t & <- & Ht). apply audit_ports_valid.
  pose proof (validate_ok_ports _ _ _ Ev Em) as Hall. rewrite forallb_forall in Hall. now apply Hall.
Qed.
Lemma run_file_bad_option : forall content P flags r, port_ok P = false -> run_file content (Some P) flags r = RExit.
Proof. intros. unfold run_file. cbn [oport_ok]. now rewrite H. Qed.
(* a file without any target is a usage error *)
Lemma run_file_no_target : forall content oport flags r, file_lines content = [] -> run_file content oport flags r = RExit.
Proof. intros content oport flags r H. unfold run_file. destruct (negb (oport_ok oport)); [reflexivity|]. now rewrite H. Qed.

Lemma validate_forms : forall fs d, forallb form_ok fs = true ->
  validate (map spell fs) d = if forallb (fun f => port_ok (form_port f d)) fs then VOk else VExit.
Proof.
  induction fs as [|f fs IH]; intros d H; cbn [map validate forallb] in *; [reflexivity|].
  apply andb_true_iff in H as [H1 H2]. rewrite forms_parse by assumption. cbn [endpoint].
  destruct (port_ok (form_port f d)); cbn [andb]; [now apply IH | reflexivity].
Qed.
(* one out-of-range port anywhere in a file of documented spellings: usage error, nothing resolved or dialled *)
Lemma run_file_bad_port_rejected : forall items oport flags r, forallb item_ok items = true ->
  forallb (fun f => port_ok (form_port f (default_port oport))) (forms_of items) = false ->
  run_file (render items) oport flags r = RExit.
Proof.
  intros items oport flags r Hok Hbad. unfold run_file. destruct (negb (oport_ok oport)); [reflexivity|].
  rewrite file_lines_items by assumption. destruct (map spell (forms_of items)) eqn:E; [reflexivity|]. rewrite <- E.
  rewrite validate_forms by now apply forms_of_ok. now rewrite Hbad.
Qed.

Lemma filter_all : forall {A} (q : A -> bool) l, forallb q l = true -> filter q l = l.
Proof.
  induction l as [|x l IH]; intros H; cbn in *; [reflexivity|]. apply andb_true_iff in H as [H1 H2]. rewrite H1, IH by assumption. reflexivity.
Qed.
(* a file of documented spellings whose ports are all valid: every target is audited, in order, and reported *)
Lemma run_file_forms : forall items oport flags r, forallb item_ok items = true -> forms_of items <> [] -> oport_ok oport = true ->
  forallb (fun f => port_ok (form_port f (default_port oport))) (forms_of items) = true ->
  run_file (render items) oport flags r
  = RDone (map (fun f => audit_refused (pref_of_flags flags) r (form_host f) (form_port f (default_port oport))) (forms_of items)).
Proof.
  intros items oport flags r Hok Hne Ho Hp. unfold run_file. rewrite Ho. cbn [negb].
  rewrite file_lines_items, file_forms by assumption.
  destruct (map spell (forms_of items)) eqn:E2; [destruct (forms_of items); [contradiction | discriminate]|]. rewrite <- E2.
  rewrite validate_forms, Hp by now apply forms_of_ok. rewrite map_map. reflexivity.
Qed.
