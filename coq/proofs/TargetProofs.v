(* C18 lemmas about coq/model/Target.v *)
From VModel Require Import Target.
From Coq Require Import Lia.
Open Scope string_scope. Open Scope list_scope. Open Scope Z_scope.

(* ------------------------------------------------------------------ strings *)
Lemma app_assoc_s : forall a b c : string, ((a ++ b) ++ c)%string = (a ++ (b ++ c))%string.
Proof. induction a; intros; cbn; [reflexivity | now rewrite IHa]. Qed.
Lemma app_nil_r_s : forall a : string, (a ++ "")%string = a.
Proof. induction a; cbn; [reflexivity | now rewrite IHa]. Qed.
Lemma forall_s_app : forall p a b, forall_s p (a ++ b)%string = forall_s p a && forall_s p b.
Proof. induction a; intros; cbn; [reflexivity | rewrite IHa; now rewrite andb_assoc]. Qed.
Lemma count_c_app : forall c a b, count_c c (a ++ b)%string = (count_c c a + count_c c b)%nat.
Proof. induction a; intros; cbn; [reflexivity | destruct (Ascii.eqb a c); rewrite IHa; reflexivity]. Qed.
Lemma forall_s_impl : forall (p q : ascii -> bool) s, (forall c, p c = true -> q c = true) -> forall_s p s = true -> forall_s q s = true.
Proof.
  induction s; intros Hpq H; cbn in *; [reflexivity|].
  apply andb_true_iff in H as [H1 H2]. rewrite (Hpq _ H1), (IHs Hpq H2). reflexivity.
Qed.
Lemma count_zero_forall : forall c s, count_c c s = O -> forall_s (fun d => negb (Ascii.eqb d c)) s = true.
Proof.
  induction s; intros H; cbn in *; [reflexivity|].
  destruct (Ascii.eqb a c); [discriminate | cbn; auto].
Qed.
Lemma of_chars_chars : forall s, of_chars (chars s) = s.
Proof. induction s; cbn; [reflexivity | now rewrite IHs]. Qed.
Lemma of_chars_app : forall a b, of_chars (a ++ b) = (of_chars a ++ of_chars b)%string.
Proof. induction a; intros; cbn; [reflexivity | now rewrite IHa]. Qed.
Lemma is_empty_true : forall s, is_empty s = true -> s = "".
Proof. destruct s; cbn; [reflexivity | discriminate]. Qed.
Lemma is_empty_app : forall a b, is_empty (a ++ b)%string = is_empty a && is_empty b.
Proof. destruct a; reflexivity. Qed.

(* ------------------------------------------------------------------ split_on *)
Lemma split_aux_skip : forall sep a r cur,
  forall_s (fun d => negb (Ascii.eqb d sep)) a = true ->
  split_on_aux sep (a ++ r)%string cur = split_on_aux sep r (rev (chars a) ++ cur).
Proof.
  induction a; intros r cur H; cbn in *; [reflexivity|].
  apply andb_true_iff in H as [H1 H2]. apply negb_true_iff in H1. rewrite H1.
  rewrite IHa by assumption. now rewrite <- app_assoc.
Qed.
Lemma split_on_none : forall sep a, forall_s (fun d => negb (Ascii.eqb d sep)) a = true -> split_on sep a = [a].
Proof.
  intros. unfold split_on. rewrite <- (app_nil_r_s a) at 1. rewrite split_aux_skip by assumption.
  cbn. rewrite app_nil_r, rev_involutive, of_chars_chars. reflexivity.
Qed.
Lemma split_on_one : forall sep a b,
  forall_s (fun d => negb (Ascii.eqb d sep)) a = true -> forall_s (fun d => negb (Ascii.eqb d sep)) b = true ->
  split_on sep (a ++ String sep b)%string = [a; b].
Proof.
  intros. unfold split_on. rewrite split_aux_skip by assumption. cbn. rewrite Ascii.eqb_refl.
  rewrite app_nil_r, rev_involutive, of_chars_chars. f_equal. now apply split_on_none.
Qed.
Lemma split_aux_length : forall sep s cur, List.length (split_on_aux sep s cur) = S (count_c sep s).
Proof.
  induction s; intros; cbn; [reflexivity|]. destruct (Ascii.eqb a sep); cbn; now rewrite IHs.
Qed.
Lemma split_on_length : forall sep s, List.length (split_on sep s) = S (count_c sep s).
Proof. intros. apply split_aux_length. Qed.

(* ------------------------------------------------------------------ digits *)
Lemma dig_char_cases : forall d, 0 <= d <= 9 ->
  d = 0 \/ d = 1 \/ d = 2 \/ d = 3 \/ d = 4 \/ d = 5 \/ d = 6 \/ d = 7 \/ d = 8 \/ d = 9.
Proof. intros; lia. Qed.
Ltac digit_cases H := apply dig_char_cases in H; repeat (destruct H as [H | H]); subst.
Lemma dig_char_dig : forall d, 0 <= d <= 9 -> is_dig (dig_char d) = true.
Proof. intros d H; digit_cases H; reflexivity. Qed.
Lemma dig_char_val : forall d, 0 <= d <= 9 -> dig_val (dig_char d) = d.
Proof. intros d H; digit_cases H; reflexivity. Qed.
Lemma dig_char_not : forall d c, 0 <= d <= 9 -> is_dig c = false -> Ascii.eqb (dig_char d) c = false.
Proof.
  intros d c H Hc. apply Ascii.eqb_neq. intros E. subst c. rewrite dig_char_dig in Hc by assumption. discriminate.
Qed.

Definition is_d09 (d : Z) : Prop := 0 <= d <= 9.
Lemma digits_le_range : forall fuel n, 0 <= n -> Forall is_d09 (digits_le fuel n).
Proof.
  induction fuel; intros n Hn; cbn; [constructor|].
  constructor.
  - unfold is_d09. pose proof (Z.mod_pos_bound n 10). lia.
  - destruct (n <? 10); [constructor|]. apply IHfuel. apply Z.div_pos; lia.
Qed.
Definition val_le (l : list Z) : Z := fold_right (fun d v => d + 10 * v) 0 l.
Lemma digits_le_value : forall fuel n, 0 <= n < 2 ^ Z.of_nat fuel -> val_le (digits_le fuel n) = n.
Proof.
  induction fuel; intros n Hn.
  - cbn in *. lia.
  - cbn [digits_le]. destruct (Z.ltb_spec n 10).
    + cbn. rewrite Z.mod_small by lia. lia.
    + cbn [val_le fold_right]. fold (val_le (digits_le fuel (n / 10))). rewrite IHfuel.
      * pose proof (Z.div_mod n 10). lia.
      * rewrite Nat2Z.inj_succ, Z.pow_succ_r in Hn by lia. split; [apply Z.div_pos; lia|].
        apply Z.div_lt_upper_bound; lia.
Qed.
Lemma digits_le_nonempty : forall fuel n, digits_le (S fuel) n <> [].
Proof. intros; cbn; discriminate. Qed.

Lemma fuel_enough : forall n, 0 <= n -> 0 <= n < 2 ^ Z.of_nat (S (Z.to_nat (Z.log2 n))).
Proof.
  intros n Hn. rewrite Nat2Z.inj_succ, Z2Nat.id by apply Z.log2_nonneg.
  destruct (Z.eq_dec n 0); [subst; cbn; lia|].
  pose proof (Z.log2_spec n). lia.
Qed.

Definition val_be (l : list Z) (acc : Z) : Z := fold_left (fun a d => 10 * a + d) l acc.
Lemma val_be_rev : forall l, val_be (rev l) 0 = val_le l.
Proof.
  induction l; [reflexivity|]. cbn [rev]. unfold val_be in *. rewrite fold_left_app. cbn [fold_left]. rewrite IHl. unfold val_le. cbn [fold_right]. lia.
Qed.

Lemma parse_digits_digits : forall l acc prev, Forall is_d09 l -> (l <> [] \/ prev = true) ->
  parse_digits (of_chars (map dig_char l)) acc prev = Some (val_be l acc).
Proof.
  induction l; intros acc prev Hl Hne.
  - destruct Hne as [Hne | ->]; [contradiction | reflexivity].
  - inversion Hl as [|? ? H1 H2]; subst. unfold is_d09 in H1. cbn [map of_chars parse_digits]. rewrite (dig_char_dig a H1), (dig_char_val a H1). unfold val_be. cbn [fold_left]. fold (val_be l (10 * acc + a)). rewrite IHl; auto.
Qed.
Lemma digits_string_all : forall l, Forall is_d09 l -> forall_s is_dig (of_chars (map dig_char l)) = true.
Proof.
  induction l; intros H; [reflexivity|]. cbn [map of_chars forall_s]. inversion H as [|? ? H1 H2]; subst. unfold is_d09 in H1. rewrite (dig_char_dig a H1). cbn [andb]. auto.
Qed.

Lemma dec_nonneg_shape : forall n, 0 <= n ->
  exists l, l <> [] /\ Forall is_d09 l /\ dec_nonneg n = of_chars (map dig_char l) /\ val_be l 0 = n.
Proof.
  intros n Hn. unfold dec_nonneg.
  exists (rev (digits_le (S (Z.to_nat (Z.log2 n))) n)). repeat split.
  - intros E. apply (f_equal (@rev Z)) in E. rewrite rev_involutive in E. cbn [rev] in E. now apply digits_le_nonempty in E.
  - apply Forall_rev. now apply digits_le_range.
  - rewrite val_be_rev. apply digits_le_value. now apply fuel_enough.
Qed.
Lemma dec_digits : forall n, 0 <= n -> forall_s is_dig (dec n) = true /\ is_empty (dec n) = false.
Proof.
  intros n Hn. unfold dec. destruct (Z.ltb_spec n 0); [lia|].
  destruct (dec_nonneg_shape n Hn) as (l & Hne & Hl & -> & _). split; [now apply digits_string_all|].
  destruct l; [contradiction | reflexivity].
Qed.

Lemma lstrip_c_id : forall s, forall_s (fun c => negb (is_cspace c)) s = true -> lstrip_c s = s.
Proof. destruct s; cbn; [reflexivity|]. intros H. apply andb_true_iff in H as [H _]. apply negb_true_iff in H. now rewrite H. Qed.
Lemma rstrip_c_id : forall s, forall_s (fun c => negb (is_cspace c)) s = true -> rstrip_c s = s.
Proof.
  induction s; cbn; [reflexivity|]. intros H. apply andb_true_iff in H as [H1 H2]. apply negb_true_iff in H1.
  rewrite IHs by assumption. rewrite H1, andb_false_r. reflexivity.
Qed.
Lemma dig_not_cspace : forall c, is_dig c = true -> is_cspace c = false.
Proof.
  intros c. unfold is_dig, is_cspace. intros H. apply andb_true_iff in H as [H1 H2].
  apply Nat.leb_le in H1, H2.
  destruct (Nat.leb_spec 9 (nat_of_ascii c)), (Nat.leb_spec (nat_of_ascii c) 13), (Nat.eqb_spec (nat_of_ascii c) 32); cbn; try reflexivity; lia.
Qed.

Lemma int_of_digits : forall ds, forall_s is_dig ds = true -> is_empty ds = false ->
  int_of_string ds = match parse_digits ds 0 false with Some v => Ok v | None => Raise ValueError end.
Proof.
  intros ds Hd Hne. unfold int_of_string.
  assert (Hs : forall_s (fun c => negb (is_cspace c)) ds = true).
  { eapply forall_s_impl; [|exact Hd]. intros c Hc. now rewrite dig_not_cspace. }
  rewrite lstrip_c_id, rstrip_c_id by assumption.
  destruct ds as [|c r]; [discriminate|]. cbn in Hd. apply andb_true_iff in Hd as [Hc _].
  assert (E1 : Ascii.eqb c "-" = false). { apply Ascii.eqb_neq. intros ->. discriminate. }
  assert (E2 : Ascii.eqb c "+" = false). { apply Ascii.eqb_neq. intros ->. discriminate. }
  rewrite E1, E2. destruct (parse_digits (String c r) 0 false); reflexivity.
Qed.

Lemma int_of_string_dec : forall n, 0 <= n -> int_of_string (dec n) = Ok n.
Proof.
  intros n Hn. destruct (dec_digits n Hn) as [Hd Hne]. rewrite int_of_digits by assumption.
  unfold dec in *. destruct (Z.ltb_spec n 0); [lia|].
  destruct (dec_nonneg_shape n Hn) as (l & Hl0 & Hl & E & Hv). rewrite E.
  rewrite parse_digits_digits by auto. now rewrite Hv.
Qed.
