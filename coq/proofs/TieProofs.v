(* Every literal that a hand-written model repeats from the Python source is proved equal to the copy that the translator
   extracts from the current source on every run (gen/Tables.v).  When the source literal changes, the generated constant
   changes with it and the matching lemma below stops compiling: the model cannot go stale silently. *)
From VGen Require Import Tables.
From VModel Require Import Terrapin PolicyM AuditSM Recs Rating Multi Version BannerM Gex HostKey.
Open Scope string_scope. Open Scope list_scope.

Lemma tie_terrapin_markers : [marker_c; marker_s] = src_pp_markers.
Proof. reflexivity. Qed.
Lemma tie_policy_markers : [kex_strict_c; kex_strict_s] = src_policy_markers.
Proof. reflexivity. Qed.
Lemma tie_advisory : advisory_prefix = src_advisory_prefix /\ advisory_suffix = src_advisory_suffix.
Proof. split; reflexivity. Qed.
Lemma tie_protocol_mismatch : protocol_mismatch_text = str_bytes src_protocol_mismatch_text.
Proof. reflexivity. Qed.
Lemma tie_chg_note : chg_notes = src_chg_note.
Proof. reflexivity. Qed.
Lemma tie_unknown_text : unknown_text = src_unknown_text.
Proof. reflexivity. Qed.
Lemma tie_multi_delimiter :
  delimiter = String.append (String.concat "" (repeat src_multi_delim_char src_multi_delim_count)) nl.
Proof. reflexivity. Qed.
Lemma tie_multi_json :
  multi_stdout true [(0%Z, "A"); (0%Z, "B")] =
  String.append src_multi_json_open (String.append "A" (String.append src_multi_json_sep (String.append "B" (String.append src_multi_json_close nl)))).
Proof. reflexivity. Qed.
Lemma tie_products : P_OpenSSH = product_OpenSSH /\ P_Dropbear = product_DropbearSSH /\ P_LibSSH = product_LibSSH.
Proof. repeat split; reflexivity. Qed.
Lemma tie_banner_products : forall v,
  sw_parse_str (String.append "tinyssh_" v) = Some (mkS None product_TinySSH v None)
  /\ sw_parse_str (String.append "PuTTY_Release_" v) = Some (mkS None product_PuTTY v None).
Proof. intros v. split; reflexivity. Qed.
Lemma tie_gex_names : In gex256 gex_algs /\ In gex256 rec_chg_names.
Proof. split; cbn; tauto. Qed.
Lemma tie_2048_warning : gex_warn_text = k2_WARN_2048BIT_MODULUS /\ hk_two2k_warning = k2_WARN_2048BIT_MODULUS.
Proof. split; reflexivity. Qed.

(* ---- integer kernels: the hand-written model functions equal the functions the translator derives statement by statement
        from the current source (kexdh.py __adjust_key_size, ssh_socket.py send_packet / read_packet) ---- *)
From Coq Require Import ZArith Lia ZifyBool.
Open Scope Z_scope.

Lemma tie_adjust_key_size : forall size, adjust_key_size size = src_adjust_key_size size.
Proof.
  intros size. unfold adjust_key_size, src_adjust_key_size. cbv zeta.
  rewrite Zodd_mod. unfold Zeq_bool.
  pose proof (Z.mod_pos_bound (Z.shiftr (size * 8) 3) 2 ltac:(lia)) as Hb.
  destruct (Z.shiftr (size * 8) 3 mod 2 ?= 1) eqn:C; destruct (Z.shiftr (size * 8) 3 mod 2 =? 0) eqn:E; cbn [negb];
    try reflexivity; try (apply Z.compare_eq in C; lia); try (rewrite Z.compare_lt_iff in C; lia); try (rewrite Z.compare_gt_iff in C; lia).
Qed.

Lemma tie_send_packet_padding : forall n, pad_len n = src_send_packet_padding n.
Proof. intros n. unfold pad_len, src_send_packet_padding. cbv zeta. destruct (- (n + 5) mod 8 <? 4); reflexivity. Qed.

Lemma tie_send_packet_length : forall n, n + pad_len n + 1 = src_send_packet_length n.
Proof. intros n. unfold pad_len, src_send_packet_length. cbv zeta. destruct (- (n + 5) mod 8 <? 4); reflexivity. Qed.

Lemma tie_ssh1_padding_length : forall plen, 8 - plen mod 8 = src_ssh1_padding_length plen.
Proof. reflexivity. Qed.
