(* gextest.GEXTest.run: the group-exchange probe loop of one algorithm (first probe, the exact probes with
   the early break, the OpenSSH second pass, reconnect failure), the in-place edit of the rating-table entry,
   the loop over the group-exchange algorithms, and the server families of property C12.
   Executable definitions only; the proofs are in proofs/GexProofs.v. *)
From VModel Require Export Terrapin.
Open Scope string_scope. Open Scope list_scope. Open Scope Z_scope.

(* ---- one call of GEXTest._send_init ---- *)
Definition request := (Z * Z * Z)%type.                     (* min, preferred, max *)
Inductive answer :=
| Bits (n : Z)      (* the server handed out a group; n = len(bin(p)) - 2 *)
| NoSize            (* refused / stalled / garbage / any exception: _send_init returns (-1, False) *)
| ReconnFail.       (* GEXTest.reconnect failed: (-1, True) *)
(* the k-th _send_init call for this algorithm (k counts from 0) and its request; servers may be stateful *)
Definition oracle := nat -> request -> answer.
Definition ans_val (a : answer) : Z := match a with Bits n => n | _ => -1 end.
Definition ans_rf (a : answer) : bool := match a with ReconnFail => true | _ => false end.
Definition trace := list (request * answer).
Definition exact (b : Z) : request := (b, b, b).

Definition answer_eqb (a b : answer) : bool :=
  match a, b with Bits n, Bits m => n =? m | NoSize, NoSize | ReconnFail, ReconnFail => true | _, _ => false end.
Definition request_eqb (a b : request) : bool :=
  match a, b with (a1, a2, a3), (b1, b2, b3) => (a1 =? b1) && (a2 =? b2) && (a3 =? b3) end.
Definition trace_eqb : trace -> trace -> bool := list_eqb (pair_eqb request_eqb answer_eqb).

(* for bits in [...]: if bits >= smallest_modulus > 0: break
                      smallest_modulus, reconnect_failed = _send_init(bits, bits, bits)
   both variables are simply overwritten by every probe (-1 included) *)
Fixpoint exact_loop (o : oracle) (k : nat) (sizes : list Z) (sm : Z) (rf : bool) : Z * bool * trace :=
  match sizes with
  | [] => (sm, rf, [])
  | b :: rest =>
      if (sm <=? b) && (0 <? sm) then (sm, rf, [])
      else let a := o k (exact b) in
           match exact_loop o (S k) rest (ans_val a) (ans_rf a) with
           | (sm', rf', t) => (sm', rf', (exact b, a) :: t)
           end
  end.

(* first probe + exact probes.  A reconnect failure of the very first probe leaves the algorithm loop at once
   (smallest_modulus = -1: no second pass, no edit). *)
Definition first_pass (o : oracle) : Z * bool * trace :=
  let a0 := o 0%nat gex_first_probe in
  if ans_rf a0 then (ans_val a0, true, [(gex_first_probe, a0)])
  else match exact_loop o 1%nat gex_probe_sizes (ans_val a0) false with
       | (sm, rf, t) => (sm, rf, (gex_first_probe, a0) :: t)
       end.

Record gex_result := {
  g_size : option Z;      (* kex.set_dh_modulus_size(alg, n) happened with this n *)
  g_updated : bool;       (* openssh_test_updated *)
  g_stop : bool;          (* reconnect_failed at the end: leaves the loop over the algorithms *)
  g_trace : trace }.      (* every _send_init call of this algorithm, in order *)

Definition pos_size (n : Z) : option Z := if 0 <? n then Some n else None.

Definition probe_loop (o : oracle) (openssh : bool) : gex_result :=
  match first_pass o with
  | (sm, rf, t) =>
      if (sm =? gex_openssh_trigger) && openssh then
        let a := o (List.length t) gex_second_pass in
        let sm2 := ans_val a in
        {| g_size := pos_size sm2; g_updated := (0 <? sm2) && negb (sm2 =? gex_openssh_trigger);
           g_stop := rf; g_trace := t ++ [(gex_second_pass, a)] |}
      else {| g_size := pos_size sm; g_updated := false; g_stop := rf; g_trace := t |}
  end.

(* banner.software.find('OpenSSH') != -1  -- the same test as in post_process_findings (Terrapin.openssh_2048) *)
Definition gex256 : string := "diffie-hellman-group-exchange-sha256".
Definition only_kex (l : list string) : kexlists :=
  {| kl_kex := l; kl_key := []; kl_enc := []; kl_mac := []; kl_enc_c := []; kl_mac_c := []; kl_comp := [] |}.
Definition is_openssh (software : option string) : bool := openssh_2048 software (only_kex [gex256]) [(gex256, 2048)].

(* ---- the edit of the rating-table entry ---- *)
Definition gex_small_prefix : string := "using small ".
Definition gex_small_suffix : string := "-bit modulus".
Definition gex_warn_text : string := "2048-bit modulus only provides 112-bits of symmetric strength".
Definition gex_fallback_prefix : string := "OpenSSH's GEX fallback mechanism was triggered during testing. Very old SSH clients will still be able to create connections using a 2048-bit modulus, though modern clients will use ".
Definition gex_fallback_suffix : string := ". This can only be disabled by recompiling the code (see https://github.com/openssh/openssh-portable/blob/V_9_4/dh.c#L477).".
Definition gex_small_text (n : Z) : string := gex_small_prefix +++ z_to_string n +++ gex_small_suffix.
Definition gex_fallback_text (n : Z) : string := gex_fallback_prefix +++ z_to_string n +++ gex_fallback_suffix.

(* text in lst[i] *)
Definition has_text (t : string) (l : list (option string)) : bool :=
  existsb (fun x => match x with Some s => String.eqb s t | None => false end) l.
(* while len(lst) < i+1: lst.append([]) ; if text not in lst[i]: lst[i].append(text) *)
Definition append_once (i : nat) (t : string) (e : desc) : desc :=
  if has_text t (nth i e []) then pad_to (S i) e else append_at i t e.
(* if len(lst) == 1: lst.append([text]) else: del lst[1]; lst.insert(1, [text]) *)
Definition set_fail (t : string) (e : desc) : res desc :=
  match e with
  | [] => Raise IndexError
  | [v] => Ok [v; [Some t]]
  | v :: _ :: r => Ok (v :: [Some t] :: r)
  end.
Definition db_edit (n : Z) (updated : bool) (e : desc) : res desc :=
  do e1 <- (if n <? gex_fail_below then set_fail (gex_small_text n) e
            else if n <? gex_warn_below then Ok (append_once 2 gex_warn_text e)
            else Ok e);
  Ok (if updated then append_once 3 (gex_fallback_text n) e1 else e1).

(* severity the size contributes: 2 = failure, 1 = warning, 0 = no size note *)
Definition gex_level (n : Z) : Z := if n <? gex_fail_below then 2 else if n <? gex_warn_below then 1 else 0.

(* kex.set_dh_modulus_size: a Python dict assignment *)
Fixpoint dh_set (a : string) (n : Z) (dh : list (string * Z)) : list (string * Z) :=
  match dh with
  | [] => [(a, n)]
  | (a', m) :: r => if String.eqb a a' then (a', n) :: r else (a', m) :: dh_set a n r
  end.

Definition apply_result (alg : string) (r : gex_result) (d : db) (dh : list (string * Z)) : res (db * list (string * Z)) :=
  match g_size r with
  | None => Ok (d, dh)
  | Some n =>
      match db_get d "kex" alg with
      | None => Raise KeyError
      | Some e => do e' <- db_edit n (g_updated r) e;
                  Ok (db_update d "kex" alg (fun _ => e'), dh_set alg n dh)
      end
  end.

(* for gex_alg in GEX_ALGS: if gex_alg in kex.kex_algorithms: ... ; if reconnect_failed: break *)
Fixpoint run_algs (os : string -> oracle) (openssh : bool) (offered algs : list string) (d : db) (dh : list (string * Z))
  : res (db * list (string * Z) * list (string * trace)) :=
  match algs with
  | [] => Ok (d, dh, [])
  | a :: rest =>
      if mem a offered then
        let r := probe_loop (os a) openssh in
        do st <- apply_result a r d dh;
        if g_stop r then Ok (fst st, snd st, [(a, g_trace r)])
        else do x <- run_algs os openssh offered rest (fst st) (snd st);
             Ok (fst (fst x), snd (fst x), (a, g_trace r) :: snd x)
      else run_algs os openssh offered rest d dh
  end.
Definition gex_run (os : string -> oracle) (openssh : bool) (offered : list string) (d : db) :=
  run_algs os openssh offered gex_algs d [].

(* ---- the server families of the property's quantifier ---- *)
Inductive style := Strict | RoundUp | OpenSSHFallback.
Definition style_eqb (a b : style) : bool :=
  match a, b with Strict, Strict | RoundUp, RoundUp | OpenSSHFallback, OpenSSHFallback => true | _, _ => false end.
Definition nine_sizes : list Z := [512; 768; 1024; 1536; 2048; 3072; 4096; 6144; 8192].
Fixpoint subsets {A} (l : list A) : list (list A) :=
  match l with [] => [[]] | x :: r => let s := subsets r in s ++ map (cons x) s end.
Definition memz (n : Z) (l : list Z) : bool := existsb (Z.eqb n) l.

(* of the candidate moduli (ascending): the smallest that is at least the preferred size, else the largest *)
Definition pick (pref : Z) (cands : list Z) : option Z :=
  match filter (fun m => pref <=? m) cands with
  | m :: _ => Some m
  | [] => match rev cands with m :: _ => Some m | [] => None end
  end.
Definition in_range (mn mx : Z) (s : list Z) : list Z := filter (fun m => (mn <=? m) && (m <=? mx)) s.
(* OpenSSH dh_new_group_fallback(max) *)
Definition fallback_group (mx : Z) : Z := if mx <? 3072 then 2048 else if mx <? 6144 then 4096 else 8192.

(* s : the configured moduli, ascending.
   Strict: only a modulus inside [min, max] is handed out, otherwise the request is refused.
   RoundUp: min and max are ignored; the preferred size is rounded up to the next configured modulus.
   OpenSSHFallback: kexgexs.c - the request is clamped to [2048, 8192], inconsistent requests are refused,
   and when no configured modulus is in range the fixed group chosen by the request's max is handed out. *)
Definition serve (st : style) (s : list Z) (r : request) : answer :=
  match r with
  | (mn, pf, mx) =>
      match st with
      | Strict => match pick pf (in_range mn mx s) with Some m => Bits m | None => NoSize end
      | RoundUp => match pick pf s with Some m => Bits m | None => NoSize end
      | OpenSSHFallback =>
          let mn' := Z.max 2048 mn in
          let mx' := Z.min 8192 mx in
          let pf' := Z.min 8192 (Z.max 2048 pf) in
          if (mx' <? mn') || (pf' <? mn') || (mx' <? pf') then NoSize
          else match pick pf' (in_range mn' mx' s) with Some m => Bits m | None => Bits (fallback_group mx') end
      end
  end.

(* ---- what the property statement expects (written from the statement, not from the code) ---- *)
Definition fixed_sequence : list request := gex_first_probe :: map exact gex_probe_sizes.
Definition handed_out (f : request -> answer) : list Z :=
  flat_map (fun r => match f r with Bits n => [n] | _ => [] end) fixed_sequence.
Definition smallest (l : list Z) : option Z :=
  match l with [] => None | x :: r => Some (fold_left Z.min r x) end.
Definition optz_eqb := opt_eqb Z.eqb.
(* (reported size, explanatory fallback note present) *)
Definition expected (st : style) (s : list Z) (openssh : bool) : option Z * bool :=
  let f := serve st s in
  let m := smallest (handed_out f) in
  if openssh && style_eqb st OpenSSHFallback && optz_eqb m (Some 2048) && negb (memz 2048 s)
  then (match f gex_second_pass with Bits n => pos_size n | _ => None end, true)
  else (m, false).
Definition model_result (st : style) (s : list Z) (openssh : bool) : option Z * bool :=
  let r := probe_loop (fun _ => serve st s) openssh in (g_size r, g_updated r).
(* the behaviours on which the tool cannot follow the statement: the banner says OpenSSH, the smallest modulus
   handed out is a CONFIGURED 2048, and the 2048-4096 probe is answered with something else *)
Definition deviates (st : style) (s : list Z) (openssh : bool) : bool :=
  openssh && memz 2048 s && optz_eqb (smallest (handed_out (serve st s))) (Some 2048)
  && negb (answer_eqb (serve st s gex_second_pass) (Bits 2048)).
Definition result_eqb (a b : option Z * bool) : bool := optz_eqb (fst a) (fst b) && Bool.eqb (snd a) (snd b).

(* rating of the reported size in the final table, read off the statement: below gex_fail_below a failure
   naming the size, below gex_warn_below the 2048-bit warning, otherwise neither *)
Definition rated_ok (alg : string) (n : Z) (d : db) : bool :=
  match db_get d "kex" alg with
  | None => false
  | Some e =>
      if n <? 2048 then mem (gex_small_text n) (fails e)
      else if n <? 3072 then mem gex_warn_text (warns e) && negb (mem (gex_small_text n) (fails e))
      else negb (mem gex_warn_text (warns e)) && negb (mem (gex_small_text n) (fails e))
  end.

Definition styles : list style := [Strict; RoundUp; OpenSSHFallback].
Definition family : list (style * list Z * bool * string) :=
  flat_map (fun st => flat_map (fun s => flat_map (fun b => map (fun a => (st, s, b, a)) gex_algs) [false; true])
                                (subsets nine_sizes)) styles.
(* one behaviour, end to end on the shipped table: size and note as expected (or the exact deviation),
   the size recorded for the algorithm, the entry rated by the thresholds *)
Definition family_ok (x : style * list Z * bool * string) : bool :=
  match x with
  | (st, s, b, alg) =>
      let m := model_result st s b in
      Bool.eqb (result_eqb m (expected st s b)) (negb (deviates st s b))
      && match gex_run (fun _ _ => serve st s) b [alg] ssh2_db with
         | Ok (d, dh, ts) =>
             match fst m with
             | Some n => list_eqb (pair_eqb String.eqb Z.eqb) dh [(alg, n)] && rated_ok alg n d
                         && Bool.eqb (snd m) (match db_get d "kex" alg with Some e => mem (gex_fallback_text n) (infos e) | None => false end)
             | None => match dh with [] => true | _ => false end
             end
         | Raise _ => false
         end
  end.
