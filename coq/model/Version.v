(* Software version ordering: utils.py compare_versions, software.py compare_version / between_versions,
   algorithm.py get_ssh_version, the version filter of algorithms.py get_recommendations and
   timeframe.py _update / update.  Strings are ASCII (`\d` of the regexes = 0..9 on this domain).
   Executable definitions only. *)
From VModel Require Export Base DB.
Open Scope string_scope. Open Scope list_scope. Open Scope Z_scope.

(* ---- characters ---- *)
Definition zcode (c : ascii) : Z := Z.of_N (N_of_ascii c).
Definition is_digit (c : ascii) : bool := (48 <=? zcode c) && (zcode c <=? 57).
Definition is_dot (c : ascii) : bool := zcode c =? 46.
Definition is_nl (c : ascii) : bool := zcode c =? 10.
(* str.strip() / int() whitespace below 128: \t \n \v \f \r, 0x1c..0x1f, space *)
Definition is_space (c : ascii) : bool :=
  ((9 <=? zcode c) && (zcode c <=? 13)) || ((28 <=? zcode c) && (zcode c <=? 32)).
Definition is_verch (c : ascii) : bool := is_digit c || is_dot c.      (* [\d\.] *)
Definition digit_val (c : ascii) : Z := zcode c - 48.

Fixpoint takewhile {A} (f : A -> bool) (l : list A) : list A :=
  match l with x :: r => if f x then x :: takewhile f r else [] | [] => [] end.
Fixpoint dropwhile {A} (f : A -> bool) (l : list A) : list A :=
  match l with x :: r => if f x then dropwhile f r else l | [] => [] end.

(* what `$` tolerates: one trailing newline *)
Definition chomp (l : list ascii) : list ascii :=
  match rev l with c :: r => if is_nl c then rev r else l | [] => l end.
(* the regex tail  ( .* ) $  matches the rest t  iff  t has no newline except possibly as its last character *)
Definition tail_ok (t : list ascii) : bool := negb (existsb is_nl (chomp t)).
Definition py_strip (l : list ascii) : list ascii :=
  rev (dropwhile is_space (rev (dropwhile is_space l))).

(* ---- Python sequence comparison  (a > b) - (a < b)  on integer lists: a proper prefix is smaller ---- *)
Fixpoint lex_cmp (a b : list Z) : Z :=
  match a, b with
  | [], [] => 0
  | [], _ :: _ => -1
  | _ :: _, [] => 1
  | x :: a', y :: b' => if x <? y then -1 else if y <? x then 1 else lex_cmp a' b'
  end.
Definition codes (s : string) : list Z := map zcode (chars s).
Definition str_cmp (a b : string) : Z := lex_cmp (codes a) (codes b).      (* str comparison by code point *)

(* ---- Utils.compare_versions ---- *)
(* int() of a string of decimal digits *)
Definition int_of_digits (s : string) : Z := fold_left (fun a c => 10 * a + digit_val c) (chars s) 0.
Definition numeral (s : string) : bool :=
  match s with EmptyString => false | _ => forallb is_digit (chars s) end.                  (* \d+ *)
Definition components (s : string) : list string := split_on "." (of_chars (chomp (chars s))).
(* re.match(r'^\d+(\.\d+)*$', s) *)
Definition is_ver (s : string) : bool := forallb numeral (components s).
(* [int(x) for x in s.split('.')]  (int() ignores the newline `$` let through) *)
Definition ints (s : string) : list Z := map int_of_digits (components s).
Definition compare_versions (a b : string) : Z :=
  if is_ver a && is_ver b then lex_cmp (ints a) (ints b) else str_cmp a b.

(* ---- Software.compare_version ---- *)
Fixpoint span_verch (l : list ascii) : list ascii * list ascii :=
  match l with
  | c :: r => if is_verch c then let (a, b) := span_verch r in (c :: a, b) else ([], l)
  | [] => ([], [])
  end.
(* mx = re.match(r'^([\d\.]+\d+)( .* )$', other)  [blanks added: comment syntax]: group 1 is the leading [\d.] run cut after its last
   digit and needs two characters; (oversion, opatch) = (g1, g2.strip()) or (other, '') *)
Definition split_other (other : string) : string * string :=
  let (run, rest) := span_verch (chars other) in
  let core := dropwhile is_dot (rev run) in
  let t := takewhile is_dot (rev run) ++ rest in
  if (2 <=? Z.of_nat (List.length core)) && tail_ok t
  then (of_chars (rev core), of_chars (py_strip (chomp t)))
  else (other, "").

(* re.match(r'^p(\d).*', s) -> group(1) *)
Definition p_digit (s : string) : option string :=
  match s with
  | String "p" (String d _) => if is_digit d then Some (String d "") else None
  | _ => None
  end.
(* re.match(r'^test\d.*$', s) *)
Definition is_test (s : string) : bool :=
  match s with
  | String "t" (String "e" (String "s" (String "t" (String d r)))) => is_digit d && tail_ok (chars r)
  | _ => false
  end.

Definition P_OpenSSH := "OpenSSH".
Definition P_Dropbear := "Dropbear SSH".
Definition P_LibSSH := "libssh".

Definition patch_cmp (prod spatch opatch : string) : Z :=
  if str_eqb prod P_Dropbear then
    let o := if is_test opatch then opatch else String "z" opatch in
    let s := if is_test spatch then spatch else String "z" spatch in
    str_cmp s o
  else if str_eqb prod P_OpenSSH then
    let mx1 := p_digit opatch in
    let mx2 := p_digit spatch in
    let both := match mx1, mx2 with Some _, Some _ => true | _, _ => false end in
    let o := if both then opatch else match mx1 with Some d => d | None => opatch end in
    let s := if both then spatch else match mx2 with Some d => d | None => spatch end in
    if (str_eqb s "" && str_eqb o "1") || (str_eqb s "1" && str_eqb o "") then 0 else str_cmp s o
  else str_cmp spatch opatch.

Definition or_empty (p : option string) : string := match p with Some s => s | None => "" end.

(* self = (product, version, patch); `other` already a str *)
Definition compare_version (prod sver : string) (spatch : option string) (other : string) : Z :=
  let (oversion, opatch) := split_other other in
  let vc := compare_versions sver oversion in
  if vc =? 0 then patch_cmp prod (or_empty spatch) opatch else vc.
(* other: Software  ->  '{}{}'.format(other.version, other.patch or '') *)
Definition sw_str (ver : string) (patch : option string) : string := (ver ++ or_empty patch)%string.

Definition between (prod sver : string) (spatch : option string) (vfrom vtill : string) : bool :=
  if negb (str_eqb vfrom "") && (compare_version prod sver spatch vfrom <? 0) then false
  else if negb (str_eqb vtill "") && (0 <? compare_version prod sver spatch vtill) then false
  else true.

(* ---- Algorithm.get_ssh_version ---- *)
Definition drop_last (s : string) : string := of_chars (rev (tl (rev (chars s)))).
Definition str_drop (n : nat) (s : string) : string := of_chars (skipn n (chars s)).
Definition get_ssh_version (d : string) : string * string * bool :=
  let is_cli := ends_with "C" d in
  let d := if is_cli then drop_last d else d in
  if starts_with "d" d then (P_Dropbear, str_drop 1 d, is_cli)
  else if starts_with "l1" d then (P_LibSSH, str_drop 2 d, is_cli)
  else (P_OpenSSH, d, is_cli).

(* ---- the version filter of Algorithms.get_recommendations (software known): `matches` ---- *)
Fixpoint rec_matches_tokens (prod sver : string) (spatch : option string) (for_server : bool) (toks : list string) : bool :=
  match toks with
  | [] => false
  | t :: r =>
    let '(p, v, cli) := get_ssh_version t in
    if str_eqb v "" then rec_matches_tokens prod sver spatch for_server r
    else if negb (str_eqb p prod) then rec_matches_tokens prod sver spatch for_server r
    else if cli && for_server then rec_matches_tokens prod sver spatch for_server r
    else if compare_version prod sver spatch v <? 0 then rec_matches_tokens prod sver spatch for_server r
    else true
  end.
Definition rec_matches (prod sver : string) (spatch : option string) (for_server : bool) (versions0 : string) : bool :=
  rec_matches_tokens prod sver spatch for_server (split_on "," versions0).

(* ---- Timeframe ---- *)
Fixpoint dict_set {A} (k : string) (v : A) (l : list (string * A)) : list (string * A) :=
  match l with
  | [] => [(k, v)]
  | (k', v') :: r => if str_eqb k k' then (k', v) :: r else (k', v') :: dict_set k v r
  end.
Definition has_key {A} (k : string) (l : list (string * A)) : bool :=
  match assoc k l with Some _ => true | None => false end.
Definition slots := list (option string).       (* [srv from; srv till; cli from; cli till] *)
Definition no_slots : slots := [None; None; None; None].
Fixpoint set_nth {A} (n : nat) (v : A) (l : list A) : list A :=
  match l, n with
  | [], _ => []
  | _ :: r, O => v :: r
  | x :: r, S n' => x :: set_nth n' v r
  end.
(* the min/max decision of _update for one slot: even positions keep the newest, odd the oldest *)
Definition slot_step (pos : nat) (prev : option string) (v : string) : option string :=
  match prev with
  | None => Some v
  | Some p =>
    if ((compare_versions p v <? 0) && Nat.even pos) || ((0 <? compare_versions p v) && Nat.odd pos)
    then Some v else Some p
  end.
Definition tf_storage := list (string * slots).
Definition tf_get (st : tf_storage) (p : string) : slots :=
  match assoc p st with Some s => s | None => no_slots end.
Definition tf_update1 (st : tf_storage) (versions : option string) (pos : nat) : tf_storage :=
  let for_srv := Nat.ltb pos 2 in
  let for_cli := Nat.ltb 1 pos in
  let sv := fold_left (fun (acc : list (string * string)) t =>
              let '(p, v, cli) := get_ssh_version t in
              if str_eqb v "" || (cli && for_srv) || (negb cli && for_cli && has_key p acc) then acc
              else dict_set p v acc) (split_on "," (or_empty versions)) [] in
  fold_left (fun (st : tf_storage) (pv : string * string) =>
               let (p, v) := pv in
               let st := if has_key p st then st else st ++ [(p, no_slots)] in
               let cur := tf_get st p in
               dict_set p (set_nth pos (slot_step pos (nth pos cur None) v) cur) st) sv st.
(* Timeframe.update(versions, for_server) *)
Definition tf_update (st : tf_storage) (versions : list (option string)) (for_server : option bool) : tf_storage :=
  let for_cli := match for_server with Some true => false | _ => true end in
  let for_srv := match for_server with Some false => false | _ => true end in
  let vlen := List.length versions in
  let step (st : tf_storage) (i : nat) : tf_storage :=
    if Nat.ltb i (Nat.min 3 vlen) then
      let v := nth i versions None in
      let st := if for_srv && Nat.ltb i 2 then tf_update1 st v i else st in
      if for_cli && (Nat.even i || Nat.eqb vlen 2) then tf_update1 st v (match i with O => 2 | _ => 3 end) else st
    else st in
  step (step (step st 0%nat) 1%nat) 2%nat.
(* get_ssh_timeframe: fold over the version lists of the offered algorithms *)
Definition tf_of (entries : list (list (option string))) (for_server : option bool) : tf_storage :=
  fold_left (fun st vs => tf_update st vs for_server) entries [].

(* Algorithms.get_ssh_timeframe: algs = [(category, offered names)] in iteration order, names the table lacks are skipped *)
Definition tf_of_names (d : db) (algs : list (string * list string)) (for_server : option bool) : tf_storage :=
  tf_of (flat_map (fun cn => flat_map (fun n => match db_get d (fst cn) n with Some e => [versions e] | None => [] end)
                                      (snd cn)) algs) for_server.

(* ---- version tokens of the generated rating tables ---- *)
Definition db_version_tokens (d : rawdb) : list string :=
  flat_map (fun cat => flat_map (fun e => flat_map (fun o => match o with Some s => split_on "," s | None => [] end)
                                                   (nth 0 (snd e) [])) (snd cat)) d.
Definition token_version (t : string) : string := snd (fst (get_ssh_version t)).
(* a well-formed version string: dot-separated decimal numbers, nothing else *)
Definition wfvb (s : string) : bool := is_ver s && list_eqb Ascii.eqb (chomp (chars s)) (chars s).
