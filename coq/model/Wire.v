(* Wire codecs: writebuf.py / readbuf.py / ssh2_kex.py / ssh1_publickeymessage.py / ssh1_crc32.py
   and the framing half of ssh_socket.send_packet.  Bytes are `list Z` (each 0..255). *)
From VModel Require Export Base.
Open Scope list_scope. Open Scope Z_scope.

Definition byte_ok (b : Z) : bool := (0 <=? b) && (b <? 256).
Definition wf_bytes (l : list Z) : bool := forallb byte_ok l.
Definition zlen {A} (l : list A) : Z := Z.of_nat (List.length l).

(* low k bytes of v, big endian, two's complement (struct.pack of the masked limbs) *)
Fixpoint be_bytes_acc (k : nat) (v : Z) (acc : list Z) : list Z :=
  match k with O => acc | S k' => be_bytes_acc k' (Z.shiftr v 8) (Z.land v 255 :: acc) end.
Definition be_bytes (k : nat) (v : Z) : list Z := be_bytes_acc k v [].
(* big-endian unsigned value *)
Fixpoint val (l : list Z) : Z :=
  match l with [] => 0 | b :: r => b * 256 ^ zlen r + val r end.

(* ---- encoders (WriteBuf) ---- *)
Definition enc_byte (v : Z) : res (list Z) := if byte_ok v then Ok [v] else Raise StructError.
Definition enc_bool (b : bool) : list Z := [if b then 1 else 0].
Definition u32_ok (v : Z) : bool := (0 <=? v) && (v <? 4294967296).
Definition enc_u32 (v : Z) : res (list Z) := if u32_ok v then Ok (be_bytes 4 v) else Raise StructError.
Definition enc_string (s : list Z) : res (list Z) := do h <- enc_u32 (zlen s); Ok (h ++ s).
Fixpoint join_bytes (sep : Z) (l : list (list Z)) : list Z :=
  match l with [] => [] | [x] => x | x :: r => x ++ sep :: join_bytes sep r end.
Definition enc_namelist (l : list (list Z)) : res (list Z) := enc_string (join_bytes 44 l).

(* int.bit_length() *)
Definition bitlen (n : Z) : Z := if n =? 0 then 0 else Z.log2 (Z.abs n) + 1.
Fixpoint strip_zeros (l : list Z) : list Z :=
  match l with 0 :: r => strip_zeros r | _ => l end.
(* _create_mpint(n, signed, bits): the >Q limb packing followed by [-length:] is be_bytes length n *)
Definition create_mpint (n : Z) (signed : bool) (bits : Z) : list Z :=
  let length := bits / 8 + (if n =? 0 then 0 else 1) in
  let d := be_bytes (Z.to_nat length) n in
  if signed then match d with 255 :: 128 :: r => 128 :: r | _ => d end
  else strip_zeros d.
Definition enc_mpint2 (n : Z) : res (list Z) := enc_string (create_mpint n true (bitlen n)).
Definition u16_ok (v : Z) : bool := (0 <=? v) && (v <? 65536).
Definition enc_mpint1 (n : Z) : res (list Z) :=
  let bits := bitlen n in
  if u16_ok bits then Ok (be_bytes 2 bits ++ create_mpint n false bits) else Raise StructError.

(* ---- decoders (ReadBuf): BytesIO.read never raises and may return fewer bytes ---- *)
(* BytesIO.read(n): n < 0 reads everything; n beyond the end is clamped (also keeps Z.to_nat small) *)
Definition take (n : Z) (l : list Z) : list Z := if (n <? 0) || (zlen l <=? n) then l else firstn (Z.to_nat n) l.
Definition drop (n : Z) (l : list Z) : list Z := if (n <? 0) || (zlen l <=? n) then [] else skipn (Z.to_nat n) l.
Definition dec_byte (buf : list Z) : res (Z * list Z) :=
  match buf with b :: r => Ok (b, r) | [] => Raise StructError end.
Definition dec_bool (buf : list Z) : res (bool * list Z) :=
  do (b, r) <- dec_byte buf; Ok (negb (b =? 0), r).
Definition u32_of (b0 b1 b2 b3 : Z) : Z := ((b0 * 256 + b1) * 256 + b2) * 256 + b3.
Definition dec_u32 (buf : list Z) : res (Z * list Z) :=
  match buf with b0 :: b1 :: b2 :: b3 :: r => Ok (u32_of b0 b1 b2 b3, r) | _ => Raise StructError end.
Definition dec_string (buf : list Z) : res (list Z * list Z) :=
  do (n, r) <- dec_u32 buf; Ok (take n r, drop n r).
Fixpoint split_bytes_aux (sep : Z) (s cur : list Z) : list (list Z) :=
  match s with
  | [] => [rev cur]
  | c :: r => if c =? sep then rev cur :: split_bytes_aux sep r [] else split_bytes_aux sep r (c :: cur)
  end.
Definition split_bytes (sep : Z) (s : list Z) : list (list Z) := split_bytes_aux sep s [].
(* read_list: names stay byte tokens; UTF-8 'replace' decoding is applied by the harness *)
Definition dec_namelist (buf : list Z) : res (list (list Z) * list Z) :=
  do (s, r) <- dec_string buf; Ok (split_bytes 44 s, r).

(* _parse_mpint: 32-bit word loop; `signed` applies to the FIRST word only (readbuf.py after the C10 fix) *)
Definition i32_of (w : Z) : Z := if 2147483648 <=? w then w - 4294967296 else w.
Fixpoint parse_words (v : list Z) (r : Z) (signed : bool) : Z :=
  match v with
  | b0 :: b1 :: b2 :: b3 :: rest =>
      let w := u32_of b0 b1 b2 b3 in
      parse_words rest (Z.lor (Z.shiftl r 32) (if signed then i32_of w else w)) false
  | _ => r
  end.
Definition parse_mpint (v : list Z) (pad : Z) (signed : bool) : Z :=
  let m := (zlen v) mod 4 in
  let v' := if m =? 0 then v else repeat pad (Z.to_nat (4 - m)) ++ v in
  parse_words v' 0 signed.
Definition dec_mpint2 (buf : list Z) : res (Z * list Z) :=
  do (v, r) <- dec_string buf;
  match v with
  | [] => Ok (0, r)
  | b :: _ => if 128 <=? b then Ok (parse_mpint v 255 true, r) else Ok (parse_mpint v 0 false, r)
  end.
Definition dec_u16 (buf : list Z) : res (Z * list Z) :=
  match buf with b0 :: b1 :: r => Ok (b0 * 256 + b1, r) | _ => Raise StructError end.
Definition dec_mpint1 (buf : list Z) : res (Z * list Z) :=
  do (bits, r) <- dec_u16 buf;
  let n := (bits + 7) / 8 in Ok (parse_mpint (take n r) 0 false, drop n r).

(* specification-level decoders (RFC 4251 section 5): two's complement big-endian *)
Definition mpint2_value (v : list Z) : Z :=
  match v with [] => 0 | b :: _ => if 128 <=? b then val v - 256 ^ zlen v else val v end.

(* ---- KEXINIT (ssh2_kex.py) ---- *)
Record kexinit := {
  k_cookie : list Z;
  k_kex : list (list Z); k_key : list (list Z);
  k_cenc : list (list Z); k_senc : list (list Z);
  k_cmac : list (list Z); k_smac : list (list Z);
  k_ccomp : list (list Z); k_scomp : list (list Z);
  k_clang : list (list Z); k_slang : list (list Z);
  k_follows : bool; k_unused : Z }.

Definition write_kexinit (k : kexinit) : res (list Z) :=
  do a <- enc_namelist (k_kex k); do b <- enc_namelist (k_key k);
  do c <- enc_namelist (k_cenc k); do d <- enc_namelist (k_senc k);
  do e <- enc_namelist (k_cmac k); do f <- enc_namelist (k_smac k);
  do g <- enc_namelist (k_ccomp k); do h <- enc_namelist (k_scomp k);
  do i <- enc_namelist (k_clang k); do j <- enc_namelist (k_slang k);
  do u <- enc_u32 (k_unused k);
  Ok (k_cookie k ++ a ++ b ++ c ++ d ++ e ++ f ++ g ++ h ++ i ++ j ++ enc_bool (k_follows k) ++ u).

Definition parse_kexinit (p : list Z) : res (kexinit * list Z) :=
  let cookie := take 16 p in let p := drop 16 p in
  do (a, p) <- dec_namelist p; do (b, p) <- dec_namelist p;
  do (c, p) <- dec_namelist p; do (d, p) <- dec_namelist p;
  do (e, p) <- dec_namelist p; do (f, p) <- dec_namelist p;
  do (g, p) <- dec_namelist p; do (h, p) <- dec_namelist p;
  do (i, p) <- dec_namelist p; do (j, p) <- dec_namelist p;
  do (fo, p) <- dec_bool p; do (u, p) <- dec_u32 p;
  Ok ({| k_cookie := cookie; k_kex := a; k_key := b; k_cenc := c; k_senc := d; k_cmac := e; k_smac := f;
         k_ccomp := g; k_scomp := h; k_clang := i; k_slang := j; k_follows := fo; k_unused := u |}, p).

(* ---- SSH-1 public key message (ssh1_publickeymessage.py) ---- *)
Record pkm := {
  p_cookie : list Z; p_skey_bits : Z; p_skey_e : Z; p_skey_n : Z;
  p_hkey_bits : Z; p_hkey_e : Z; p_hkey_n : Z; p_flags : Z; p_cmask : Z; p_amask : Z }.
Definition write_pkm (m : pkm) : res (list Z) :=
  do a <- enc_u32 (p_skey_bits m); do b <- enc_mpint1 (p_skey_e m); do c <- enc_mpint1 (p_skey_n m);
  do d <- enc_u32 (p_hkey_bits m); do e <- enc_mpint1 (p_hkey_e m); do f <- enc_mpint1 (p_hkey_n m);
  do g <- enc_u32 (p_flags m); do h <- enc_u32 (p_cmask m); do i <- enc_u32 (p_amask m);
  Ok (p_cookie m ++ a ++ b ++ c ++ d ++ e ++ f ++ g ++ h ++ i).
Definition parse_pkm (p : list Z) : res (pkm * list Z) :=
  let cookie := take 8 p in let p := drop 8 p in
  do (a, p) <- dec_u32 p; do (b, p) <- dec_mpint1 p; do (c, p) <- dec_mpint1 p;
  do (d, p) <- dec_u32 p; do (e, p) <- dec_mpint1 p; do (f, p) <- dec_mpint1 p;
  do (g, p) <- dec_u32 p; do (h, p) <- dec_u32 p; do (i, p) <- dec_u32 p;
  Ok ({| p_cookie := cookie; p_skey_bits := a; p_skey_e := b; p_skey_n := c; p_hkey_bits := d;
         p_hkey_e := e; p_hkey_n := f; p_flags := g; p_cmask := h; p_amask := i |}, p).
(* bit i of the mask selects table entry i (auths start at 1) *)
Fixpoint mask_names (mask : Z) (i : nat) (tbl : list string) : list string :=
  match tbl with [] => [] | x :: r => (if Z.testbit mask (Z.of_nat i) then [x] else []) ++ mask_names mask (S i) r end.
Definition supported_ciphers (tbl : list string) (m : pkm) : list string := mask_names (p_cmask m) 0 tbl.
Definition supported_auths (tbl : list string) (m : pkm) : list string := mask_names (p_amask m) 1 (tl tbl).

(* ---- SSH-2 packet framing (ssh_socket.send_packet) ---- *)
Definition pad_len (n : Z) : Z := let p := (- (n + 5)) mod 8 in if p <? 4 then p + 8 else p.
Definition frame (payload : list Z) : res (list Z) :=
  let padding := pad_len (zlen payload) in
  do h <- enc_u32 (zlen payload + padding + 1);
  Ok (h ++ [padding] ++ payload ++ repeat 0 (Z.to_nat padding)).

(* ---- SSH-1 CRC-32 (ssh1_crc32.py), bit-reflected polynomial 0xedb88320 ---- *)
Definition crc_poly : Z := 3988292384.
Fixpoint crc_bits (k : nat) (crc n : Z) : Z :=
  match k with
  | O => crc
  | S k' => let x := Z.land (Z.lxor crc n) 1 in
            crc_bits k' (Z.lxor (Z.shiftr crc 1) (x * crc_poly)) (Z.shiftr n 1)
  end.
Definition crc_table : list Z := map (fun i => crc_bits 8 0 (Z.of_nat i)) (seq 0 256).
Definition crc_step (crc b : Z) : Z :=
  let n := Z.lxor b (Z.land crc 255) in Z.lxor (Z.shiftr crc 8) (nth (Z.to_nat n) crc_table 0).
Definition crc_calc (v : list Z) : Z := fold_left crc_step v 0.
(* bit-serial reference: one byte = 8 single-bit steps of the LFSR *)
Definition crc_step_bits (crc b : Z) : Z := crc_bits 8 crc b.
