(* ssh_socket.py: buffered reads over a scripted peer; read_packet for SSH-1 and SSH-2. *)
From VModel Require Export Wire.
Open Scope list_scope. Open Scope Z_scope.

Inductive ending := Close | Stall.
(* unread buffer, chunks still to arrive (one per recv), what happens after the last chunk *)
Record sock := { s_buf : list Z; s_chunks : list (list Z); s_end : ending }.

Inductive recv_err := Closed | TimedOut.
(* recv(): one chunk per call; an empty chunk is an orderly shutdown *)
Definition recv (s : sock) : sock * option recv_err :=
  match s_chunks s with
  | [] => (s, Some (match s_end s with Close => Closed | Stall => TimedOut end))
  | [] :: r => ({| s_buf := s_buf s; s_chunks := r; s_end := s_end s |}, Some Closed)
  | c :: r => ({| s_buf := s_buf s ++ c; s_chunks := r; s_end := s_end s |}, None)
  end.

(* ensure_read(size): structural on the chunk list *)
Fixpoint ensure_chunks (buf : list Z) (chunks : list (list Z)) (e : ending) (size : Z) : sock * option recv_err :=
  if zlen buf >=? size then ({| s_buf := buf; s_chunks := chunks; s_end := e |}, None)
  else match chunks with
       | [] => ({| s_buf := buf; s_chunks := []; s_end := e |}, Some (match e with Close => Closed | Stall => TimedOut end))
       | [] :: r => ({| s_buf := buf; s_chunks := r; s_end := e |}, Some Closed)
       | c :: r => ensure_chunks (buf ++ c) r e size
       end.
Definition ensure_read (s : sock) (size : Z) := ensure_chunks (s_buf s) (s_chunks s) (s_end s) size.

Inductive pkt :=
  | PktOk (ptype : Z) (payload : list Z)
  | PktErr (e : list Z)          (* (-1, e) *)
  | PktExit                      (* SSH_Socket.InvalidPacketException: bad block size / CRC / length (was sys.exit before the fix) *)
  | PktRaise (e : exn).

Definition with_buf (s : sock) (b : list Z) : sock := {| s_buf := b; s_chunks := s_chunks s; s_end := s_end s |}.

(* bytes.strip(): ASCII whitespace 9,10,11,12,13,32 *)
Definition is_ws (b : Z) : bool := ((9 <=? b) && (b <=? 13)) || (b =? 32).
Fixpoint lstrip_ws (l : list Z) : list Z := match l with b :: r => if is_ws b then lstrip_ws r else l | [] => [] end.
Definition strip_ws (l : list Z) : list Z := rev (lstrip_ws (rev (lstrip_ws l))).
Definition str_bytes (s : string) : list Z := map (fun c => Z.of_nat (nat_of_ascii c)) (chars s).

Definition insufficient (s : sock) (header : list Z) (e : recv_err) : sock * pkt :=
  match e with
  | Closed => (with_buf s [], PktErr (strip_ws (header ++ s_buf s)))
  | TimedOut => (s, PktErr (str_bytes "timed out"))
  end.

Definition read_packet2 (s : sock) : sock * pkt :=
  match ensure_read s 4 with
  | (s, Some e) => insufficient s [] e
  | (s, None) =>
    match dec_u32 (s_buf s) with
    | Raise e => (s, PktRaise e)
    | Ok (plen, b) =>
      let header := be_bytes 4 plen in
      match ensure_read (with_buf s b) 1 with
      | (s, Some e) => insufficient s header e
      | (s, None) =>
        match dec_byte (s_buf s) with
        | Raise e => (s, PktRaise e)
        | Ok (padlen, b) =>
          let header := header ++ [padlen] in
          let s := with_buf s b in
          let paylen := plen - padlen - 1 in
          if negb ((4 + 1 + paylen + padlen) mod 8 =? 0) then (s, PktExit)
          else match ensure_read s paylen with
               | (s, Some e) => insufficient s header e
               | (s, None) =>
                 if paylen <? 1 then (s, PktExit) else
                 let payload := take paylen (s_buf s) in
                 let s := with_buf s (drop paylen (s_buf s)) in
                 let header := header ++ payload in
                 match payload with
                 | [] => (s, PktRaise TypeError)          (* ord(b'') *)
                 | t :: pl =>
                   match ensure_read s padlen with
                   | (s, Some e) => insufficient s header e
                   | (s, None) => (with_buf s (drop padlen (s_buf s)), PktOk t pl)
                   end
                 end
               end
        end
      end
    end
  end.

Definition read_packet1 (s : sock) : sock * pkt :=
  match ensure_read s 4 with
  | (s, Some e) => insufficient s [] e
  | (s, None) =>
    match dec_u32 (s_buf s) with
    | Raise e => (s, PktRaise e)
    | Ok (plen, b) =>
      let header := be_bytes 4 plen in
      let padlen := 8 - plen mod 8 in
      match ensure_read (with_buf s b) padlen with
      | (s, Some e) => insufficient s header e
      | (s, None) =>
        let padding := take padlen (s_buf s) in
        let s := with_buf s (drop padlen (s_buf s)) in
        let header := header ++ padding in
        if negb ((padlen + plen) mod 8 =? 0) then (s, PktExit)
        else match ensure_read s plen with
             | (s, Some e) => insufficient s header e
             | (s, None) =>
               if plen <? 5 then (s, PktExit) else
               let payload := take (plen - 4) (s_buf s) in
               let rest := drop (plen - 4) (s_buf s) in
               match dec_u32 rest with
               | Raise e => (with_buf s [], PktRaise e)
               | Ok (crc, rest) =>
                 let s := with_buf s rest in
                 match payload with
                 | [] => (s, PktRaise TypeError)
                 | t :: pl => if crc =? crc_calc (padding ++ payload) then (s, PktOk t pl) else (s, PktExit)
                 end
               end
             end
      end
    end
  end.

Definition sock_of (buf : list Z) : sock := {| s_buf := []; s_chunks := match buf with [] => [] | _ => [buf] end; s_end := Close |}.
Definition pkt_eqb (a b : pkt) : bool :=
  match a, b with
  | PktOk t p, PktOk t' p' => (t =? t') && zs_eqb p p'
  | PktErr e, PktErr e' => zs_eqb e e'
  | PktExit, PktExit => true
  | PktRaise e, PktRaise e' => exn_eqb e e'
  | _, _ => false
  end.
