(* outputbuffer.py: level filter, colouring, section buffering, immediate writes; and the section protocol
   `with out: body ... if not out.is_section_empty() and not json: out.head(title); out.flush_section(sort); out.sep()`
   that ssh_audit.py uses for every part of the report. *)
From VModel Require Export Base.
Open Scope string_scope. Open Scope list_scope.

Inductive olevel := OHead | OGood | OInfo | OWarn | OFail.
Record cfg := { c_batch : bool; c_verbose : bool; c_colors : bool; c_level : nat; c_json : bool }.   (* level: 0 info, 1 warn, 2 fail *)

(* get_level: good counts as info; 'head' is not a level (sys.maxsize: never filtered) *)
Definition lvl_num (l : olevel) : option nat :=
  match l with OGood | OInfo => Some 0%nat | OWarn => Some 1%nat | OFail => Some 2%nat | OHead => None end.
Definition passes (c : cfg) (l : olevel) (always : bool) : bool :=
  always || c_json c || match lvl_num l with None => true | Some k => Nat.leb (c_level c) k end.

Definition esc : string := String (ascii_of_nat 27) "[0;".
Definition reset : string := String (ascii_of_nat 27) "[0m".
Definition colour_code (l : olevel) : string :=
  match l with OHead => "36" | OGood => "32" | OWarn => "33" | OFail => "31" | OInfo => "" end.
Definition colourise (c : cfg) (l : olevel) (s : string) : string :=
  if c_colors c && negb (String.eqb s "") && (match l with OInfo => false | _ => true end)
  then (esc ++ colour_code l ++ "m" ++ s ++ reset)%string else s.

Definition line := (olevel * string * bool)%type.      (* level, text, always_print *)
(* _print: None = filtered out *)
Definition emit (c : cfg) (ln : line) : option string :=
  match ln with (l, s, always) => if passes c l always then Some (colourise c l s) else None end.
Definition emits (c : cfg) (lns : list line) : list string :=
  flat_map (fun ln => match emit c ln with Some s => [s] | None => [] end) lns.

Inductive op :=
  | OLine (ln : line)                                            (* a call outside any section *)
  | OSection (body : list line) (title : string) (sort : bool)   (* with-block + head/flush/sep protocol *)
  | OVNow (s : string)                                           (* out.v(s, write_now=True) *)
  | OWrite.                                                      (* out.write() *)

Section WithSort.
Variable sortf : list string -> list string.    (* list.sort() on str: lexicographic by code point *)

(* state: pending buffer (oldest first), chunks printed so far (each write prints "\n".join(buffer)) *)
Definition head_lines (c : cfg) (t : string) : list string :=
  if c_batch c then [] else match emit c (OHead, t, false) with Some s => [s] | None => [] end.
Definition sep_lines (c : cfg) : list string :=
  if c_batch c then [] else match emit c (OInfo, "", false) with Some s => [s] | None => [] end.

Definition step (c : cfg) (st : list string * list (list string)) (o : op) : list string * list (list string) :=
  let (buf, printed) := st in
  match o with
  | OLine ln => (buf ++ emits c [ln], printed)
  | OSection body title srt =>
      let sec := emits c body in
      match sec with
      | [] => (buf, printed)
      | _ => (buf ++ head_lines c title ++ (if srt then sortf sec else sec) ++ sep_lines c, printed)
      end
  | OVNow s => if c_verbose c && negb (c_json c) then ([], printed ++ [buf ++ emits c [(OInfo, s, false)]]) else (buf, printed)   (* progress messages are suppressed in JSON mode (debug mode is not modelled) *)
  | OWrite => ([], printed ++ [buf])
  end.
Definition run (c : cfg) (prog : list op) : list string * list (list string) := fold_left (step c) prog ([], []).
(* every line that reaches stdout, in order (a write of an empty buffer still prints one empty line) *)
Definition stdout_lines (c : cfg) (prog : list op) : list string :=
  flat_map (fun chunk => match chunk with [] => [""] | _ => chunk end) (snd (run c prog)).
End WithSort.

(* executable sort for the correspondence: insertion sort on String.leb *)
Fixpoint insert_str (x : string) (l : list string) : list string :=
  match l with [] => [x] | y :: r => if String.leb x y then x :: l else y :: insert_str x r end.
Definition isort (l : list string) : list string := fold_right insert_str [] l.

(* strip the SGR escape sequences the tool emits *)
Fixpoint strip_to_m (s : string) : string :=
  match s with EmptyString => EmptyString | String c r => if Ascii.eqb c "m"%char then r else strip_to_m r end.
Fixpoint strip_ansi_fuel (f : nat) (s : string) : string :=
  match f with
  | O => s
  | S f' => match s with
            | EmptyString => EmptyString
            | String c r => if Nat.eqb (nat_of_ascii c) 27 then strip_ansi_fuel f' (strip_to_m r) else String c (strip_ansi_fuel f' r)
            end
  end.
Definition strip_ansi (s : string) : string := strip_ansi_fuel (S (String.length s)) s.
