(* C17: executable cross-checks over the generated tables.  Every check is a list of offending
   entries, so that a violated check prints its own counter-examples. *)
From VModel Require Export DB.
Open Scope string_scope. Open Scope list_scope. Open Scope Z_scope.

(* ---- tokenisation of algorithm names: split on - @ . _ ---- *)
Definition is_sep (c : ascii) : bool :=
  match c with "-"%char | "@"%char | "."%char | "_"%char => true | _ => false end.
Fixpoint tokens_aux (s : string) (cur : list ascii) : list string :=
  match s with
  | EmptyString => match cur with [] => [] | _ => [of_chars (rev cur)] end
  | String c r => if is_sep c
                  then match cur with [] => tokens_aux r [] | _ => of_chars (rev cur) :: tokens_aux r [] end
                  else tokens_aux r (c :: cur)
  end.
Definition tokens (s : string) : list string := tokens_aux s [].

Definition tok_is (ws : list string) (ts : list string) : bool := existsb (fun t => mem t ws) ts.
Definition tok_pref (ps : list string) (ts : list string) : bool :=
  existsb (fun t => existsb (fun p => starts_with p t) ps) ts.
Definition tok_suff (ps : list string) (ts : list string) : bool :=
  existsb (fun t => existsb (fun p => ends_with p t) ps) ts.

(* The broken-primitive table: part of the SPECIFICATION (property C17's list plus every
   primitive with a dedicated FAIL_* constant in the SSH-2 table), not derived from the code. *)
Definition broken_patterns : list (string * (list string -> bool)) :=
  [ ("md5", tok_is ["md5"]);
    ("sha1", tok_is ["sha1"]);
    ("rc4/arcfour", fun ts => tok_pref ["arcfour"] ts || tok_is ["rc4"] ts);
    ("des/3des", tok_is ["des"; "3des"]);
    ("none", fun ts => strs_eqb ts ["none"]);
    ("dss/dsa", tok_is ["dss"; "dsa"]);
    ("group1", tok_is ["group1"]);
    ("1024-bit", tok_suff ["1024"]);
    ("nist curves", tok_pref ["nistp"; "nistk"; "nistb"; "nistt"]);
    ("blowfish", tok_pref ["blowfish"]);
    ("cast", tok_pref ["cast"]);
    ("idea", tok_is ["idea"]);
    ("rijndael", tok_pref ["rijndael"]);
    ("seed", tok_is ["seed"]);
    ("serpent", tok_pref ["serpent"]);
    ("ripemd", tok_pref ["ripemd"]);
    ("gost", tok_pref ["gost"]) ].

Definition broken_matches (name : string) : list string :=
  let ts := tokens name in
  flat_map (fun p : string * (list string -> bool) => if snd p ts then [fst p] else []) broken_patterns.

(* entries (category, name, matched patterns) that match a broken pattern yet carry no failure *)
Definition broken_without_failure (d : rawdb) : list (string * string * list string) :=
  flat_map (fun ce => flat_map (fun ne =>
      match broken_matches (fst ne) with
      | [] => []
      | ms => if has_fail (snd ne) then [] else [(fst ce, fst ne, ms)]
      end) (snd ce)) d.

(* ---- shape ---- *)
Definition is_digit (c : ascii) : bool := let n := nat_of_ascii c in (Nat.leb 48 n && Nat.leb n 57)%bool.
(* one version token:  [d|l1] digits(.digits)* [C] , or empty *)
Definition version_token_ok (s : string) : bool :=
  let s1 := if ends_with "C" s then of_chars (rev (tl (rev (chars s)))) else s in
  let s2 := if starts_with "l1" s1 then of_chars (skipn 2 (chars s1))
            else if starts_with "d" s1 then of_chars (skipn 1 (chars s1)) else s1 in
  match chars s2 with
  | [] => true
  | c :: _ => forallb (fun c => is_digit c || Ascii.eqb c "."%char) (chars s2)
              && is_digit c && is_digit (last (chars s2) "."%char)
  end.
Definition version_string_ok (o : option string) : bool :=
  match o with None => true | Some s => forallb version_token_ok (split_on ","%char s) end.

Definition entry_shape_ok (e : desc) : bool :=
  let n := List.length e in
  (Nat.leb 1 n && Nat.leb n 4
   && Nat.leb (List.length (versions e)) 3
   && forallb version_string_ok (versions e)
   && forallb (fun c => forallb (fun o => match o with Some _ => true | None => false end) c) (tl e))%bool.

Definition badly_shaped (d : rawdb) : list (string * string) :=
  flat_map (fun ce => flat_map (fun ne => if entry_shape_ok (snd ne) then [] else [(fst ce, fst ne)]) (snd ce)) d.

Definition duplicate_keys (d : rawdb) : list string :=
  (if nodup_str (keys d) then [] else ["<categories>"]) ++
  flat_map (fun ce => if nodup_str (keys (snd ce)) then [] else [fst ce]) d.

(* ---- cross references ---- *)
Definition unknown_in (d : rawdb) (c : string) (names : list string) : list (string * string) :=
  flat_map (fun n => match db_get d c n with Some _ => [] | None => [(c, n)] end) names.

Definition ol (o : option (list string)) : list string := match o with Some l => l | None => [] end.

Definition policy_refs (p : rawpolicy) : list (string * string) :=
  match p with
  | (_, (_, _, (_, _, hk, ohk, kx, ci, ma, hks, dh))) =>
      map (fun n => ("key", n)) (ol hk) ++ map (fun n => ("key", n)) (ol ohk) ++
      map (fun n => ("kex", n)) (ol kx) ++ map (fun n => ("enc", n)) (ol ci) ++ map (fun n => ("mac", n)) (ol ma) ++
      map (fun x => match x with (t, _, _, _) => ("key", t) end) (match hks with Some l => l | None => [] end) ++
      map (fun x => ("kex", fst x)) (match dh with Some l => l | None => [] end)
  end.

Definition policies_unknown : list (string * (string * string)) :=
  flat_map (fun p => flat_map (fun cn => match db_get ssh2_db (fst cn) (snd cn) with
                                        | Some _ => [] | None => [(fst p, cn)] end) (policy_refs p)) builtin_policies.

Definition policies_failed : list (string * (string * string)) :=
  flat_map (fun p => flat_map (fun cn => match db_get ssh2_db (fst cn) (snd cn) with
                                        | Some e => if has_fail e then [(fst p, cn)] else []
                                        | None => [] end) (policy_refs p)) builtin_policies.

Definition hostkey_table_unknown : list (string * string) :=
  unknown_in ssh2_db "key" (map (fun x => match x with (t, _, _) => t end) host_key_types ++ rsa_family).

Definition dheat_tables_unknown : list (string * string) :=
  unknown_in ssh2_db "kex" (dheat_gex_algs ++ dheat_alg_priority ++ map fst dheat_alg_modulus_sizes ++ dheat_tested_algs
                            ++ gex_algs ++ map fst hk_kex_to_group).

Definition ssh1_tables_unknown : list (string * string) :=
  unknown_in ssh1_db "enc" ssh1_ciphers ++ unknown_in ssh1_db "aut" (tl ssh1_auths).

(* the three SSH-1 entries recorded as known findings (see known_findings.json) *)
Definition ssh1_known_gaps : list (string * string) := [("enc", "idea"); ("enc", "3des"); ("enc", "blowfish")].
Definition pair_in (x : string * string) (l : list (string * string)) : bool :=
  existsb (fun y => String.eqb (fst x) (fst y) && String.eqb (snd x) (snd y)) l.
Definition ssh1_broken_unlisted : list (string * string * list string) :=
  filter (fun x => negb (pair_in (fst x) ssh1_known_gaps)) (broken_without_failure ssh1_db).
