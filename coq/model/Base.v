(* Shared executable definitions.  No proofs in model files. *)
From Coq Require Export List ZArith NArith String Ascii Bool.
Export ListNotations.
Open Scope string_scope. Open Scope list_scope.

(* ---- strings ---- *)
Definition str_eqb : string -> string -> bool := String.eqb.
Fixpoint mem (s : string) (l : list string) : bool :=
  match l with [] => false | x :: r => if String.eqb s x then true else mem s r end.
Definition starts_with (p s : string) : bool := String.prefix p s.
Fixpoint str_rev_acc (s acc : string) : string :=
  match s with EmptyString => acc | String c r => str_rev_acc r (String c acc) end.
Definition str_rev (s : string) : string := str_rev_acc s EmptyString.
Definition ends_with (p s : string) : bool := String.prefix (str_rev p) (str_rev s).
Fixpoint chars (s : string) : list ascii :=
  match s with EmptyString => [] | String c r => c :: chars r end.
Fixpoint of_chars (l : list ascii) : string :=
  match l with [] => EmptyString | c :: r => String c (of_chars r) end.
Definition ch (n : nat) : ascii := ascii_of_nat n.
Definition code (c : ascii) : nat := nat_of_ascii c.

(* Python  s.split(sep)  for a single-character separator: ''.split(',') = [''] *)
Fixpoint split_on_aux (sep : ascii) (s : string) (cur : list ascii) : list string :=
  match s with
  | EmptyString => [of_chars (rev cur)]
  | String c r => if Ascii.eqb c sep then of_chars (rev cur) :: split_on_aux sep r []
                  else split_on_aux sep r (c :: cur)
  end.
Definition split_on (sep : ascii) (s : string) : list string := split_on_aux sep s [].

(* Python  sep.join(l) *)
Fixpoint join (sep : string) (l : list string) : string :=
  match l with
  | [] => EmptyString
  | [x] => x
  | x :: r => x ++ sep ++ join sep r
  end%string.

(* ---- Python s.rstrip(chars) ---- *)
Fixpoint rstrip_set (cs : list ascii) (l : list ascii) : list ascii :=   (* on the reversed string *)
  match l with c :: r => if existsb (Ascii.eqb c) cs then rstrip_set cs r else l | [] => [] end.
Definition rstrip_chars (cs : string) (s : string) : string := of_chars (rev (rstrip_set (chars cs) (rev (chars s)))).

(* ---- Python slices s[:-1] and s[n:] ---- *)
Definition drop_last (s : string) : string := of_chars (removelast (chars s)).
Definition str_skip (n : nat) (s : string) : string := of_chars (skipn n (chars s)).

(* ---- decimal rendering of integers (Python "%d" % n, str(n)); 40 digits of fuel: exact below 10^40 ---- *)
Open Scope Z_scope.
Definition zstr_digit (n : Z) : ascii := ascii_of_nat (48 + Z.to_nat n).
Fixpoint z_digits (fuel : nat) (n : Z) (acc : list ascii) : list ascii :=
  match fuel with
  | O => acc
  | S f => if n <? 10 then zstr_digit n :: acc else z_digits f (n / 10) (zstr_digit (n mod 10) :: acc)
  end.
Definition z_to_string (n : Z) : string := if n <? 0 then String.append "-" (of_chars (z_digits 40 (- n) [])) else of_chars (z_digits 40 n []).
Close Scope Z_scope.

(* ---- association lists (Python dicts with unique keys, insertion ordered) ---- *)
Fixpoint assoc {A} (k : string) (l : list (string * A)) : option A :=
  match l with [] => None | (k', v) :: r => if String.eqb k k' then Some v else assoc k r end.
Definition keys {A} (l : list (string * A)) : list string := map fst l.
Fixpoint update {A} (k : string) (f : A -> A) (l : list (string * A)) : list (string * A) :=
  match l with [] => [] | (k', v) :: r => if String.eqb k k' then (k', f v) :: r else (k', v) :: update k f r end.

Fixpoint nodup_str (l : list string) : bool :=
  match l with [] => true | x :: r => negb (mem x r) && nodup_str r end.

Fixpoint list_eqb {A} (eqb : A -> A -> bool) (a b : list A) : bool :=
  match a, b with
  | [], [] => true
  | x :: a', y :: b' => eqb x y && list_eqb eqb a' b'
  | _, _ => false
  end.
Definition strs_eqb := list_eqb String.eqb.
Definition opt_eqb {A} (eqb : A -> A -> bool) (a b : option A) : bool :=
  match a, b with None, None => true | Some x, Some y => eqb x y | _, _ => false end.

(* indices of false entries: used by the correspondence case files *)
Fixpoint failing_from (i : nat) (l : list bool) : list nat :=
  match l with [] => [] | b :: r => if b then failing_from (S i) r else i :: failing_from (S i) r end.
Definition failing (l : list bool) : list nat := failing_from 0 l.

(* byte-code string literal helper used by generated files *)
Definition bs (l : list nat) : string := fold_right (fun n s => String (ascii_of_nat n) s) EmptyString l.

(* ---- Python exceptions as values ---- *)
Inductive exn := StructError | ValueError | TypeError | UnicodeDecodeError | KeyError | IndexError
               | KexDHException | OSError | RuntimeError | OverflowError.
Inductive res (A : Type) := Ok (a : A) | Raise (e : exn).
Arguments Ok {A} a. Arguments Raise {A} e.
Definition bind {A B} (r : res A) (f : A -> res B) : res B :=
  match r with Ok a => f a | Raise e => Raise e end.
Notation "'do' x <- r ; k" := (bind r (fun x => k)) (at level 200, x pattern, r at level 100, k at level 200).
Definition exn_eqb (a b : exn) : bool :=
  match a, b with
  | StructError, StructError | ValueError, ValueError | TypeError, TypeError | UnicodeDecodeError, UnicodeDecodeError
  | KeyError, KeyError | IndexError, IndexError | KexDHException, KexDHException | OSError, OSError
  | RuntimeError, RuntimeError | OverflowError, OverflowError => true
  | _, _ => false
  end.
Definition res_eqb {A} (eqb : A -> A -> bool) (a b : res A) : bool :=
  match a, b with Ok x, Ok y => eqb x y | Raise e, Raise f => exn_eqb e f | _, _ => false end.
Definition pair_eqb {A B} (ea : A -> A -> bool) (eb : B -> B -> bool) (x y : A * B) : bool :=
  ea (fst x) (fst y) && eb (snd x) (snd y).
Definition zs_eqb := list_eqb Z.eqb.
