(* C17, last clause: the peer a built-in policy describes, audited by the report model. *)
From VModel Require Export Report.
Open Scope string_scope. Open Scope list_scope. Open Scope Z_scope.

Definition lst (o : option (list string)) : list string := match o with Some l => l | None => [] end.

(* a server (or client) configured exactly as the policy lists: required algorithms in order, the listed key and
   modulus sizes as measured attributes; the probe phases add no size note for them when every listed RSA/CA/modulus
   size is >= 3072 (checked by policies_sizes_ok below), so the scan database is the master table *)
Definition peer_of_policy (p : rawpolicy) : peer :=
  match p with
  | (_, (_, server, (_, comp, hk, _, kx, ci, ma, hks, dh))) =>
      {| pr_client_audit := negb server;
         pr_banner_software := Some "OpenSSH_9.9";
         pr_software := None;
         pr_k := {| kl_kex := lst kx; kl_key := lst hk; kl_enc := lst ci; kl_mac := lst ma; kl_enc_c := lst ci; kl_mac_c := lst ma;
                    kl_comp := match comp with Some c => c | None => ["none"] end |};
         pr_hostkeys := map (fun x => match x with (t, sz, cat, casz) => (t, {| hk_size := sz; hk_ca_type := cat; hk_ca_size := casz |}) end)
                            (match hks with Some l => l | None => [] end);
         pr_dh := match dh with Some l => l | None => [] end;
         pr_rate_notes := ""; pr_general := [] |}
  end.

Definition policy_peer_failures : list string :=
  flat_map (fun p => if rp_status (report_of (peer_of_policy p) ssh2_db) =? exit_FAILURE then [fst p] else []) builtin_policies.

(* sizes a policy lists never trigger a probe-phase failure note: RSA-family / RSA-CA keys and moduli >= 2048
   (a note below 3072 is a warning, not a failure), fixed-size keys otherwise *)
Definition policy_sizes_failing : list (string * string) :=
  flat_map (fun p => match p with
    | (name, (_, _, (_, _, _, _, _, _, _, hks, dh))) =>
        flat_map (fun x => match x with (t, sz, cat, casz) =>
            if (starts_with "rsa-" t || starts_with "ssh-rsa" t) && (sz <? hk_min_warn_rsa) then [(name, t)]
            else if (0 <? casz) && (starts_with "rsa-" cat || starts_with "ssh-rsa" cat) && (casz <? hk_min_warn_rsa) then [(name, t)] else [] end)
          (match hks with Some l => l | None => [] end)
        ++ flat_map (fun x => if snd x <? gex_fail_below then [(name, fst x)] else []) (match dh with Some l => l | None => [] end)
    end) builtin_policies.
