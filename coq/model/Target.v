(* C18: how a named target becomes an endpoint and a label.
   utils.py parse_host_and_port / is_ipv6_address (ipaddress.IPv6Address of CPython 3.12),
   ssh_audit.py process_commandline (host positional, -p, -T file, -4/-6), the multi-target loop,
   auditconf.py port setter, ssh_socket.py _resolve / connect, dheat.py _resolve_hostname,
   the labels printed by output() / evaluate_policy().
   Strings are byte strings (UTF-8); only ASCII digits / ASCII whitespace are modelled (see harness/props/c18.py).
   Definitions only; lemmas are in proofs/TargetProofs.v. *)
From VModel Require Export Base.
Open Scope string_scope. Open Scope list_scope. Open Scope Z_scope.

(* ---------- characters and small string helpers ---------- *)
Definition c_nl : ascii := "010"%char.
Definition c_cr : ascii := "013"%char.
Definition c_colon : ascii := ":"%char.
Definition c_lbr : ascii := "["%char.
Definition c_rbr : ascii := "]"%char.

Definition is_dig (c : ascii) : bool := let n := nat_of_ascii c in (Nat.leb 48 n && Nat.leb n 57)%bool.
Definition dig_val (c : ascii) : Z := Z.of_nat (nat_of_ascii c) - 48.
(* str.strip() / int(): the ASCII code points for which str.isspace() holds *)
Definition is_space (c : ascii) : bool :=
  let n := nat_of_ascii c in ((Nat.leb 9 n && Nat.leb n 13) || (Nat.leb 28 n && Nat.leb n 32))%bool.
Definition is_hex (c : ascii) : bool :=
  let n := nat_of_ascii c in
  ((Nat.leb 48 n && Nat.leb n 57) || (Nat.leb 65 n && Nat.leb n 70) || (Nat.leb 97 n && Nat.leb n 102))%bool.

Fixpoint forall_s (p : ascii -> bool) (s : string) : bool :=
  match s with EmptyString => true | String c r => p c && forall_s p r end.
Fixpoint count_c (c : ascii) (s : string) : nat :=
  match s with EmptyString => O | String d r => if Ascii.eqb d c then S (count_c c r) else count_c c r end.
Definition has_c (c : ascii) (s : string) : bool := negb (forall_s (fun d => negb (Ascii.eqb d c)) s).
Definition is_empty (s : string) : bool := match s with EmptyString => true | _ => false end.
(* the characters before the first occurrence of c, and the rest starting at that occurrence *)
Fixpoint break_at (c : ascii) (s : string) : string * string :=
  match s with
  | EmptyString => (EmptyString, EmptyString)
  | String d r => if Ascii.eqb d c then (EmptyString, s) else let (a, b) := break_at c r in (String d a, b)
  end.

Fixpoint lstrip (s : string) : string :=
  match s with String c r => if is_space c then lstrip r else s | EmptyString => EmptyString end.
Fixpoint rstrip (s : string) : string :=
  match s with
  | EmptyString => EmptyString
  | String c r => let r' := rstrip r in if is_empty r' && is_space c then EmptyString else String c r'
  end.
Definition strip (s : string) : string := rstrip (lstrip s).

(* ---------- str(n) and int(s) ---------- *)
Fixpoint digits_le (fuel : nat) (n : Z) : list Z :=
  match fuel with
  | O => []
  | S k => (n mod 10) :: (if n <? 10 then [] else digits_le k (n / 10))
  end.
Definition dig_char (d : Z) : ascii := ascii_of_nat (48 + Z.to_nat d).
Definition dec_nonneg (n : Z) : string := of_chars (map dig_char (rev (digits_le (S (Z.to_nat (Z.log2 n))) n))).
Definition dec (n : Z) : string := if n <? 0 then String "-"%char (dec_nonneg (- n)) else dec_nonneg n.

(* digits with single underscores between digits (PEP 515); prev = the previous character was a digit *)
Fixpoint parse_digits (s : string) (acc : Z) (prev : bool) : option Z :=
  match s with
  | EmptyString => if prev then Some acc else None
  | String c r =>
      if is_dig c then parse_digits r (10 * acc + dig_val c) true
      else if Ascii.eqb c "_"%char then (if prev then parse_digits r acc false else None)
      else None
  end.
(* int(s) for a str of ASCII characters: CPython parses an all-ASCII str with the C-locale isspace() (9-13, 32), so
   the separators 28-31 that str.strip() removes are NOT skipped here *)
Definition is_cspace (c : ascii) : bool := let n := nat_of_ascii c in ((Nat.leb 9 n && Nat.leb n 13) || Nat.eqb n 32)%bool.
Fixpoint lstrip_c (s : string) : string :=
  match s with String c r => if is_cspace c then lstrip_c r else s | EmptyString => EmptyString end.
Fixpoint rstrip_c (s : string) : string :=
  match s with
  | EmptyString => EmptyString
  | String c r => let r' := rstrip_c r in if is_empty r' && is_cspace c then EmptyString else String c r'
  end.
Definition int_of_string (s : string) : res Z :=
  match rstrip_c (lstrip_c s) with
  | EmptyString => Raise ValueError
  | String c r =>
      let (neg, body) := if Ascii.eqb c "-"%char then (true, r) else if Ascii.eqb c "+"%char then (false, r) else (false, String c r) in
      match parse_digits body 0 false with
      | Some v => Ok (if neg then - v else v)
      | None => Raise ValueError
      end
  end.

(* ---------- Utils.parse_host_and_port ---------- *)
(* `$` also matches just before a final newline *)
Fixpoint chomp1 (s : string) : string :=
  match s with
  | EmptyString => EmptyString
  | String c r => if Ascii.eqb c c_nl && is_empty r then EmptyString else String c (chomp1 r)
  end.
(* re.match(r'^\[([^\]]+)\](?::(\d+))?$', s): group 1 and group 2 *)
Definition bracket_match (s : string) : option (string * option string) :=
  match s with
  | String c r =>
      if Ascii.eqb c c_lbr then
        let (x, rest) := break_at c_rbr r in
        if is_empty x then None else
        match rest with
        | String _ t =>
            match chomp1 t with
            | EmptyString => Some (x, None)
            | String c2 ds => if Ascii.eqb c2 c_colon && negb (is_empty ds) && forall_s is_dig ds then Some (x, Some ds) else None
            end
        | EmptyString => None
        end
      else None
  | EmptyString => None
  end.

Definition parse_host_and_port (s : string) (default : Z) : res (string * Z) :=
  match bracket_match s with
  | Some (h, None) => Ok (h, default)
  | Some (h, Some ds) => do p <- int_of_string ds; Ok (h, p)
  | None =>
      match split_on c_colon s with
      | [h; ps] => if is_empty ps then Ok (h, default) else do p <- int_of_string ps; Ok (h, p)
      | _ => Ok (s, default)
      end
  end.

(* ---------- ipaddress.IPv4Address / IPv6Address (validity only) ---------- *)
Definition octet_ok (o : string) : bool :=
  negb (is_empty o) && forall_s is_dig o && Nat.leb (String.length o) 3
  && (String.eqb o "0" || negb (String.prefix "0" o))
  && (match parse_digits o 0 false with Some v => v <=? 255 | None => false end).
Definition is_ipv4 (s : string) : bool :=
  negb (is_empty s) &&
  (let os := split_on "."%char s in Nat.eqb (List.length os) 4 && forallb octet_ok os).
Definition hextet_ok (h : string) : bool := negb (is_empty h) && forall_s is_hex h && Nat.leb (String.length h) 4.

(* indices 1 .. len-2 whose part is empty *)
Fixpoint inner_empty (parts : list string) (i : nat) (n : nat) : list nat :=
  match parts with
  | [] => []
  | p :: r => (if (Nat.leb 1 i && Nat.leb (S (S i)) n && is_empty p)%bool then [i] else []) ++ inner_empty r (S i) n
  end.
Definition v6_parts_ok (parts : list string) : bool :=
  let n := List.length parts in
  if Nat.ltb 9 n then false else
  match inner_empty parts 0 n with
  | _ :: _ :: _ => false
  | [i] =>
      let hi := i in
      let lo := (n - i - 1)%nat in
      let first_empty := is_empty (hd EmptyString parts) in
      let last_empty := is_empty (last parts EmptyString) in
      let hi' := if first_empty then (hi - 1)%nat else hi in
      let lo' := if last_empty then (lo - 1)%nat else lo in
      if (first_empty && negb (Nat.eqb hi' 0))%bool then false else
      if (last_empty && negb (Nat.eqb lo' 0))%bool then false else
      if Nat.ltb 7 (hi' + lo') then false else
      forallb hextet_ok (firstn hi' parts) && forallb hextet_ok (skipn (n - lo') parts)
  | [] => Nat.eqb n 8 && forallb hextet_ok parts
  end.
Definition v6_addr_ok (a : string) : bool :=
  if is_empty a then false else
  let parts := split_on c_colon a in
  if Nat.ltb (List.length parts) 3 then false else
  let l := last parts EmptyString in
  if has_c "."%char l then
    (if is_ipv4 l then v6_parts_ok (removelast parts ++ ["0"; "0"]) else false)
  else v6_parts_ok parts.
(* Utils.is_ipv6_address: ipaddress.IPv6Address(address) does not raise *)
Definition is_ipv6 (s : string) : bool :=
  if has_c "/"%char s then false else
  let (addr, rest) := break_at "%"%char s in
  match rest with
  | EmptyString => v6_addr_ok addr
  | String _ scope => if is_empty scope || has_c "%"%char scope then false else v6_addr_ok addr
  end.

(* ---------- labels ---------- *)
(* output(print_target=True) "(gen) target: ..." and evaluate_policy "Host:   ..." *)
Definition text_label (h : string) (p : Z) : string :=
  if p =? 22 then h
  else if is_ipv6 h then ("[" ++ h ++ "]:" ++ dec p)%string else (h ++ ":" ++ dec p)%string.
(* JSON "target" *)
Definition json_label (h : string) (p : Z) : string := (h ++ ":" ++ dec p)%string.

(* ---------- command line ---------- *)
Definition port_ok (p : Z) : bool := (1 <=? p) && (p <=? 65535).

(* AuditConf: `aconf.ipv4 = ...` is assigned before `aconf.ipv6 = ...`, whatever the order of the flags *)
Definition pref_of_flags (flags : list Z) : list Z :=
  (if existsb (Z.eqb 4) flags then [4] else []) ++ (if existsb (Z.eqb 6) flags then [6] else []).

Inductive cli_out :=
  | CExit                         (* message + sys.exit(UNKNOWN_ERROR) *)
  | CRaise (e : exn)              (* uncaught exception: traceback, exit status UNKNOWN_ERROR *)
  | COk (host : string) (port : Z).

Definition default_port (oport : option Z) : Z := match oport with Some p => p | None => 22 end.
Definition oport_ok (oport : option Z) : bool := match oport with Some p => port_ok p | None => true end.
(* single target: positional argument `arg`, value of -p if given.  -p is only the default port: the argument is
   always parsed (fix 9a2ac5a); then `not host` -> exit, bad -p -> exit, `aconf.port = port` -> ValueError *)
Definition cli_single (arg : string) (oport : option Z) : cli_out :=
  if is_empty arg then CExit else
  match parse_host_and_port arg (default_port oport) with
  | Raise e => CRaise e
  | Ok (host, port) =>
      if is_empty host then CExit else
      if negb (oport_ok oport) then CExit else
      if port_ok port then COk host port else CRaise ValueError
  end.

(* ---------- targets file ---------- *)
(* open(..., 'r') universal newlines *)
Fixpoint univ_nl (s : string) : string :=
  match s with
  | EmptyString => EmptyString
  | String c r =>
      if Ascii.eqb c c_cr then
        String c_nl (match r with
                     | String c2 r2 => if Ascii.eqb c2 c_nl then univ_nl r2 else univ_nl r
                     | EmptyString => EmptyString
                     end)
      else String c (univ_nl r)
  end.
(* str.splitlines(keepends=True) on '\n' only = f.readlines() *)
Fixpoint lines (s : string) : list string :=
  match s with
  | EmptyString => []
  | String c r =>
      if Ascii.eqb c c_nl then String c EmptyString :: lines r
      else match lines r with
           | [] => [String c EmptyString]
           | l :: ls => String c l :: ls
           end
  end.
(* `if target.strip() != ""` (fix b3020b9) *)
Definition keep_line (l : string) : bool := negb (is_empty (strip l)).
Definition file_lines (content : string) : list string := map strip (filter keep_line (lines (univ_nl content))).

Fixpoint map_res {A B} (f : A -> res B) (l : list A) : res (list B) :=
  match l with
  | [] => Ok []
  | x :: r => do y <- f x; do ys <- map_res f r; Ok (y :: ys)
  end.
(* process_commandline: every entry is parsed and its port checked, in order, before anything is scanned (fix b3020b9) *)
Inductive validation := VOk | VExit | VCrash.
Fixpoint validate (ts : list string) (default : Z) : validation :=
  match ts with
  | [] => VOk
  | t :: r => match parse_host_and_port t default with
              | Raise _ => VCrash
              | Ok (_, p) => if port_ok p then validate r default else VExit
              end
  end.
(* main(): Utils.parse_host_and_port(target, default_port=aconf.port) for every entry *)
Definition file_targets (content : string) (default : Z) : res (list (string * Z)) :=
  map_res (fun t => parse_host_and_port t default) (file_lines content).

(* ---------- resolver, family preference, connect ---------- *)
Definition AF_INET : Z := 2.
Definition AF_INET6 : Z := 10.
Definition SOCK_STREAM : Z := 1.
Record entry := { e_fam : Z; e_type : Z; e_ip : string }.
Definition resolver := list (string * list entry).

Definition gai_family (pref : list Z) : Z :=
  match pref with [v] => if v =? 4 then AF_INET else AF_INET6 | _ => 0 end.
(* getaddrinfo(host, port, family, SOCK_STREAM): None = socket.gaierror.  Contract of the (synthetic) resolver:
   only entries of the requested family are returned, in table order. *)
Definition table (r : resolver) (host : string) : list entry := match assoc host r with Some l => l | None => [] end.
Definition gai (r : resolver) (host : string) (fam : Z) : option (list entry) :=
  match filter (fun e => (fam =? 0) || (fam =? e_fam e)) (table r host) with
  | [] => None
  | l => Some l
  end.
(* sorted(r, key=family, reverse=...) is stable *)
Fixpoint insert_fam (before : Z -> Z -> bool) (x : entry) (l : list entry) : list entry :=
  match l with
  | [] => [x]
  | y :: r => if before (e_fam y) (e_fam x) then y :: insert_fam before x r else x :: l
  end.
Definition sort_fam (reverse : bool) (l : list entry) : list entry :=
  fold_right (insert_fam (if reverse then Z.gtb else Z.ltb)) [] l.
Definition order_pref (pref : list Z) (l : list entry) : list entry :=
  match pref with [a; _] => sort_fam (a =? 6) l | _ => l end.
Definition fam_is (f : Z) (e : entry) : bool := e_fam e =? f.
(* every answer is IPv4 or IPv6 *)
Definition dual (l : list entry) : Prop := Forall (fun e => e_fam e = AF_INET \/ e_fam e = AF_INET6) l.
(* SSH_Socket._resolve: what connect() iterates over *)
Definition resolve_list (pref : list Z) (l : list entry) : list entry :=
  filter (fun e => e_type e =? SOCK_STREAM) (order_pref pref l).
(* DHEat._resolve_hostname: first stream entry after the same stable sort (fix 976e983) *)
Definition rate_first (pref : list Z) (l : list entry) : option entry :=
  hd_error (filter (fun e => e_type e =? SOCK_STREAM) (match pref with [a; _] => sort_fam (a =? 6) l | _ => l end)).

(* what one audit of (host, port) does when every connect() is refused *)
Record obs := { o_gai : list (string * Z * Z);       (* getaddrinfo(host, port, family) *)
                o_conn : list (Z * string * Z);      (* socket(family).connect((ip, port)) *)
                o_msg : string }.
Definition audit_refused (pref : list Z) (r : resolver) (h : string) (p : Z) : obs :=
  let fam := gai_family pref in
  let pre := ("[exception] cannot connect to " ++ h ++ " port " ++ dec p ++ ": ")%string in
  match gai r h fam with
  | None => {| o_gai := [(h, p, fam)]; o_conn := []; o_msg := (pre ++ "[Errno -2] Name or service not known")%string |}
  | Some l =>
      match resolve_list pref l with
      | [] => {| o_gai := [(h, p, fam)]; o_conn := []; o_msg := ("[exception] host " ++ h ++ " has no DNS records")%string |}
      | e :: _ => {| o_gai := [(h, p, fam)]; o_conn := [(e_fam e, e_ip e, p)]; o_msg := (pre ++ "[Errno 111] Connection refused")%string |}
      end
  end.
(* the endpoint dialled (repeatedly) when connect() succeeds *)
Definition audit_endpoint (pref : list Z) (r : resolver) (h : string) (p : Z) : option (Z * string * Z) :=
  match gai r h (gai_family pref) with
  | None => None
  | Some l => match resolve_list pref l with [] => None | e :: _ => Some (e_fam e, e_ip e, p) end
  end.

Inductive run_out :=
  | RExit                         (* usage error, exit UNKNOWN_ERROR, nothing resolved or dialled *)
  | RCrash (done : list obs)      (* uncaught exception; `done` = audits that ran, their reports are NOT printed *)
  | RDone (done : list obs).      (* every audit ran and its report was printed *)

Definition run_single (arg : string) (oport : option Z) (flags : list Z) (r : resolver) : run_out :=
  match cli_single arg oport with
  | CExit => RExit
  | CRaise _ => RCrash []
  | COk h p => RDone [audit_refused (pref_of_flags flags) r h p]
  end.

(* -T file: process_commandline (bad -p, empty list and bad ports end the run before any scan) + main() + workers *)
Definition run_file (content : string) (oport : option Z) (flags : list Z) (r : resolver) : run_out :=
  let pref := pref_of_flags flags in
  if negb (oport_ok oport) then RExit else
  let d := default_port oport in
  match file_lines content with
  | [] => RExit                                   (* "no targets found in file" *)
  | ts =>
      match validate ts d with
      | VExit => RExit
      | VCrash => RCrash []
      | VOk => match file_targets content d with
               | Ok l => RDone (map (fun t => audit_refused pref r (fst t) (snd t)) l)
               | Raise _ => RCrash []
               end
      end
  end.

Definition obs_of (o : run_out) : list obs := match o with RExit => [] | RCrash l => l | RDone l => l end.
(* every port handed to getaddrinfo / connect lies in 1..65535 *)
Definition ports_valid (o : obs) : Prop :=
  (forall g, In g (o_gai o) -> port_ok (snd (fst g)) = true) /\ (forall c, In c (o_conn o) -> port_ok (snd c) = true).

(* ---------- the documented spellings of a target ---------- *)
Inductive form :=
  | FHost (h : string)                 (* hostname or IPv4 *)
  | FHostPort (h : string) (p : Z)     (* host:port *)
  | FV6 (a : string)                   (* bare IPv6 *)
  | FBr (a : string)                   (* [IPv6] *)
  | FBrPort (a : string) (p : Z).      (* [IPv6]:port *)
Definition spell (f : form) : string :=
  match f with
  | FHost h => h
  | FHostPort h p => (h ++ ":" ++ dec p)%string
  | FV6 a => a
  | FBr a => ("[" ++ a ++ "]")%string
  | FBrPort a p => ("[" ++ a ++ "]:" ++ dec p)%string
  end.
Definition form_host (f : form) : string :=
  match f with FHost h | FHostPort h _ => h | FV6 a | FBr a | FBrPort a _ => a end.
Definition form_port (f : form) (default : Z) : Z :=
  match f with FHostPort _ p | FBrPort _ p => p | _ => default end.
Definition endpoint (f : form) (default : Z) : string * Z := (form_host f, form_port f default).

(* characters of a host: anything but whitespace and square brackets *)
Definition host_char (c : ascii) : bool := negb (is_space c) && negb (Ascii.eqb c c_lbr) && negb (Ascii.eqb c c_rbr).
Definition name_ok (h : string) : bool := negb (is_empty h) && forall_s host_char h && Nat.eqb (count_c c_colon h) 0.
Definition v6_ok (a : string) : bool := forall_s host_char a && Nat.leb 2 (count_c c_colon a).
Definition form_ok (f : form) : bool :=
  match f with
  | FHost h => name_ok h
  | FHostPort h p => name_ok h && (0 <=? p)
  | FV6 a => v6_ok a
  | FBr a => v6_ok a
  | FBrPort a p => v6_ok a && (0 <=? p)
  end.
Definition form_has_port_or_brackets (f : form) : bool := match f with FHost _ | FV6 _ => false | _ => true end.

(* one line of a targets file *)
Inductive item := Blank (pad : string) | Tgt (pad1 : string) (f : form) (pad2 : string).   (* Blank: empty or whitespace-only line *)
Definition pad_char (c : ascii) : bool := is_space c && negb (Ascii.eqb c c_nl) && negb (Ascii.eqb c c_cr).
Definition item_ok (i : item) : bool :=
  match i with Blank a => forall_s pad_char a | Tgt a f b => forall_s pad_char a && forall_s pad_char b && form_ok f end.
Definition render_item (i : item) : string :=
  match i with Blank a => (a ++ String c_nl EmptyString)%string | Tgt a f b => (a ++ spell f ++ b ++ String c_nl EmptyString)%string end.
Fixpoint render (l : list item) : string :=
  match l with [] => EmptyString | i :: r => (render_item i ++ render r)%string end.
Fixpoint forms_of (l : list item) : list form :=
  match l with [] => [] | Blank _ :: r => forms_of r | Tgt _ f _ :: r => f :: forms_of r end.

(* equality tests used by the correspondence case files *)
Definition ep_eqb (a b : string * Z) : bool := String.eqb (fst a) (fst b) && (snd a =? snd b).
Definition cli_eqb (a b : cli_out) : bool :=
  match a, b with
  | CExit, CExit => true
  | CRaise e, CRaise f => exn_eqb e f
  | COk h p, COk h' p' => String.eqb h h' && (p =? p')
  | _, _ => false
  end.
Definition gai_eqb (a b : string * Z * Z) : bool :=
  String.eqb (fst (fst a)) (fst (fst b)) && (snd (fst a) =? snd (fst b)) && (snd a =? snd b).
Definition conn_eqb (a b : Z * string * Z) : bool :=
  (fst (fst a) =? fst (fst b)) && String.eqb (snd (fst a)) (snd (fst b)) && (snd a =? snd b).
Definition obs_eqb (a b : obs) : bool :=
  list_eqb gai_eqb (o_gai a) (o_gai b) && list_eqb conn_eqb (o_conn a) (o_conn b) && String.eqb (o_msg a) (o_msg b).
Definition run_eqb (a b : run_out) : bool :=
  match a, b with
  | RExit, RExit => true
  | RCrash x, RCrash y => list_eqb obs_eqb x y
  | RDone x, RDone y => list_eqb obs_eqb x y
  | _, _ => false
  end.
Definition entry_eqb (a b : entry) : bool := (e_fam a =? e_fam b) && (e_type a =? e_type b) && String.eqb (e_ip a) (e_ip b).

(* multiset equality (reports of a multi-target run are printed in completion order) *)
Fixpoint remove_first {A} (eqb : A -> A -> bool) (x : A) (l : list A) : option (list A) :=
  match l with
  | [] => None
  | y :: r => if eqb x y then Some r else option_map (cons y) (remove_first eqb x r)
  end.
Fixpoint multiset_eqb {A} (eqb : A -> A -> bool) (a b : list A) : bool :=
  match a with
  | [] => match b with [] => true | _ => false end
  | x :: r => match remove_first eqb x b with Some b' => multiset_eqb eqb r b' | None => false end
  end.
(* comparison of a modelled run with what the launcher observed: kind 0 = usage exit, 1 = crash, 2 = done;
   getaddrinfo and connect logs in order (the launcher runs the workers on one thread), messages as a multiset
   (only for a completed run: a crashed run loses an unspecified part of its reports) *)
Definition chk_run (o : run_out) (kind : Z) (gais : list (string * Z * Z)) (conns : list (Z * string * Z)) (msgs : list string) : bool :=
  (match o with RExit => kind =? 0 | RCrash _ => kind =? 1 | RDone _ => kind =? 2 end)
  && list_eqb gai_eqb (flat_map o_gai (obs_of o)) gais
  && list_eqb conn_eqb (flat_map o_conn (obs_of o)) conns
  && (match o with RDone l => multiset_eqb String.eqb (map o_msg l) msgs | _ => true end).

(* ---------- runs against a peer that answers (reports carry the target label) ---------- *)
Definition targets_single (arg : string) (oport : option Z) : option (list (string * Z)) :=
  match cli_single arg oport with COk h p => Some [(h, p)] | _ => None end.
(* Some = the run completes and audits these targets *)
Definition targets_file (content : string) (oport : option Z) : option (list (string * Z)) :=
  if negb (oport_ok oport) then None else
  match file_lines content with
  | [] => None
  | ts => match validate ts (default_port oport) with
          | VOk => match file_targets content (default_port oport) with Ok l => Some l | Raise _ => None end
          | _ => None
          end
  end.
Definition pj_label (h : string) (p : Z) : string := (h ++ "|" ++ dec p)%string.   (* policy JSON: "host" and "port" fields *)
Definition peer_report (lab : string -> Z -> string) (pref : list Z) (r : resolver) (t : string * Z) : string :=
  match audit_endpoint pref r (fst t) (snd t) with
  | Some _ => lab (fst t) (snd t)
  | None => o_msg (audit_refused pref r (fst t) (snd t))
  end.
(* -j (fixes bc662a5, 3d5c3d7): a target that could not be audited is reported as {"target": host:port, "error": text};
   wrapped = the run has JSON output (targets file: elements of the array; single target, fix 3d5c3d7: the document itself), wlabels = the "target" fields of those error documents *)
Definition chk_peer (lab : string -> Z -> string) (ts : option (list (string * Z))) (pref : list Z) (r : resolver)
                    (done : bool) (reports : list string) (conns : list (Z * string * Z))
                    (wrapped : bool) (wlabels : list string) : bool :=
  match ts with
  | None => negb done
  | Some l =>
      done && multiset_eqb String.eqb (map (peer_report lab pref r) l) reports
      && list_eqb conn_eqb (flat_map (fun t => match audit_endpoint pref r (fst t) (snd t) with Some e => [e] | None => [] end) l) conns
      && multiset_eqb String.eqb
           (if wrapped then flat_map (fun t => match audit_endpoint pref r (fst t) (snd t) with Some _ => [] | None => [json_label (fst t) (snd t)] end) l else [])
           wlabels
  end.
