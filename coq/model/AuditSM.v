(* ssh_audit.audit(): the standard audit as a state machine over scripted connections.
   Handshake part at byte level (Net/Wire); probe phases as control-flow skeletons over abstract per-connection
   outcomes (their byte-level content is C11's and C12's business); the connection log is what C19 bounds. *)
From VModel Require Export Net Report.
Open Scope string_scope. Open Scope list_scope. Open Scope Z_scope.

(* ---------- what one connection of the initial handshake can do ---------- *)
Inductive banner_outcome := BannerOk (sshv1_banner : bool) | BannerNone.   (* get_banner: a banner line was found / none before close or timeout *)

Inductive handshake :=
  | HsConnectFail                       (* s.connect() returned an error string *)
  | HsNoBanner
  | HsPacket (p : pkt).                 (* result of read_packet after the banner *)

Inductive outcome := Exit (st : Z) | Uncaught (e : exn).

(* the part of audit() between the banner and the report, SSH-2: what the first packet leads to *)
Inductive after_packet :=
  | ApExit1                 (* error path: output(banner only) + fail line, CONNECTION_ERROR *)
  | ApFallbackSsh1          (* 'Protocol major versions differ.' and -1 allowed: audit(sshv=1) *)
  | ApKex (k : kexinit)     (* KEXINIT parsed: continue with the probes and the report *)
  | ApPkm (m : pkm)
  | ApUncaught (e : exn).

Definition protocol_mismatch_text : list Z := str_bytes "Protocol major versions differ.".

Definition classify (sshv : Z) (ssh1_allowed : bool) (p : pkt) : after_packet :=
  match p with
  | PktExit => ApExit1                           (* InvalidPacketException: reported, exit/return CONNECTION_ERROR *)
  | PktRaise e => ApUncaught e
  | PktErr e => if zs_eqb e protocol_mismatch_text && (sshv =? 2) && ssh1_allowed then ApFallbackSsh1 else ApExit1
  | PktOk t payload =>
      if sshv =? 1 then
        if negb (t =? proto_SMSG_PUBLIC_KEY) then ApExit1
        else match parse_pkm payload with Ok (m, _) => ApPkm m | Raise _ => ApExit1 end    (* try/except Exception *)
      else
        if negb (t =? proto_MSG_KEXINIT) then ApExit1
        else match parse_kexinit payload with Ok (k, _) => ApKex k | Raise _ => ApExit1 end  (* try/except Exception *)
  end.

(* ---------- host-key probe skeleton (hostkeytest.perform_test) ---------- *)
Inductive hk_outcome :=
  | HkConnFail          (* connect() failed: nothing was opened; the test returns *)
  | HkBannerFail        (* connected, no banner: close, the test returns *)
  | HkKexFail           (* connected, the server's KEXINIT could not be read/parsed: the test returns *)
  | HkProbeFailed       (* KEXDH_INIT sent; any exception while reading/parsing the reply, or no reply: close, next type *)
  | HkOk.               (* reply parsed: host key recorded *)

Inductive conn := CFirst | CHostKey (t : string) (sent_init : bool) | CGex (alg : string) (req : Z * Z * Z) (sent_init : bool) | CRate.

Fixpoint hk_loop (types : list (string * bool * bool)) (advertised parsed : list string) (env : string -> hk_outcome) : list conn :=
  match types with
  | [] => []
  | (t, _, _) :: r =>
      if mem t parsed then hk_loop r advertised parsed env
      else if negb (mem t advertised) then hk_loop r advertised parsed env
      else match env t with
           | HkConnFail => []
           | HkBannerFail => [CHostKey t false]
           | HkKexFail => [CHostKey t false]
           | HkProbeFailed => CHostKey t true :: hk_loop r advertised parsed env
           | HkOk => CHostKey t true :: hk_loop r advertised (if mem t rsa_family then rsa_family ++ parsed else t :: parsed) env
           end
  end.

(* the probe runs only if a kex the tool can speak is offered (first such kex is used) *)
Definition hk_kex (k : list string) : option string := find (fun n => mem n (map fst hk_kex_to_group)) k.
Definition hostkey_conns (kex key : list string) (env : string -> hk_outcome) : list conn :=
  match hk_kex kex with Some _ => hk_loop host_key_types key [] env | None => [] end.

(* ---------- group-exchange probe skeleton (gextest.run) for one algorithm ---------- *)
Inductive gex_ans :=
  | GConnFail                (* reconnect failed before a connection existed *)
  | GReconnFail              (* connected but banner/KEXINIT failed: reconnect_failed *)
  | GNoSize                  (* request sent, no usable group came back (refused, stalled, garbage, exception): -1 *)
  | GSize (n : Z).

Definition ans_size (a : gex_ans) : Z := match a with GSize n => n | _ => -1 end.
Definition ans_reconn_failed (a : gex_ans) : bool := match a with GConnFail | GReconnFail => true | _ => false end.
Definition ans_conn (alg : string) (req : Z * Z * Z) (a : gex_ans) : list conn :=
  match a with GConnFail => [] | GReconnFail => [CGex alg req false] | GNoSize => [CGex alg req false] | GSize _ => [CGex alg req true] end.

(* the for-loop over the fixed sizes: returns (connections, smallest_modulus, reconnect_failed of the last probe made) *)
Fixpoint gex_sizes_loop (alg : string) (ans : Z * Z * Z -> gex_ans) (sizes : list Z) (smallest : Z) (rf : bool) : list conn * Z * bool :=
  match sizes with
  | [] => ([], smallest, rf)
  | b :: r =>
      if (0 <? smallest) && (smallest <=? b) then ([], smallest, rf)       (* bits >= smallest_modulus > 0: break *)
      else let a := ans (b, b, b) in
           match gex_sizes_loop alg ans r (ans_size a) (ans_reconn_failed a) with
           | (cs, sm, rf') => (ans_conn alg (b, b, b) a ++ cs, sm, rf')
           end
  end.

Definition gex_alg (alg : string) (ans : Z * Z * Z -> gex_ans) (openssh : bool) : list conn * Z * bool :=
  let a0 := ans gex_first_probe in
  if ans_reconn_failed a0 then (ans_conn alg gex_first_probe a0, -1, true)
  else match gex_sizes_loop alg ans gex_probe_sizes (ans_size a0) false with
       | (cs, sm, rf) =>
           let second := (sm =? gex_openssh_trigger) && openssh in
           let a2 := ans gex_second_pass in
           (ans_conn alg gex_first_probe a0 ++ cs ++ (if second then ans_conn alg gex_second_pass a2 else []),
            (if second then ans_size a2 else sm), rf)
       end.

(* over the offered GEX algorithms, in the tool's fixed order; a reconnect failure stops the whole test *)
Fixpoint gex_all (algs : list string) (offered : list string) (ans : string -> Z * Z * Z -> gex_ans) (openssh : bool) : list conn :=
  match algs with
  | [] => []
  | a :: r => if mem a offered
              then match gex_alg a (ans a) openssh with (cs, _, rf) => cs ++ (if rf then [] else gex_all r offered ans openssh) end
              else gex_all r offered ans openssh
  end.

(* ---------- connection-rate check skeleton (dheat._dh_rate_test, non-interactive, after the C19 fix) ---------- *)
(* inner while: open sockets while fewer than `concurrent` are pending and opened/attempted stay below the cap *)
Fixpoint open_new (fuel : nat) (attempted opened pending : Z) : Z * Z :=
  match fuel with
  | O => (attempted, pending)
  | S f => if (pending <? rate_concurrent_sockets) && (pending + opened <? rate_max_connections) && (attempted <? rate_max_connections)
           then open_new f (attempted + 1) opened (pending + 1) else (attempted, pending)
  end.
(* outer loop: `ticks` is the clock budget; env tick = (how many pending sockets became readable, how many of those said "SSH-") *)
Fixpoint rate_loop (ticks : nat) (attempted opened pending : Z) (env : nat -> Z * Z) : Z :=
  match ticks with
  | O => attempted
  | S t =>
      if rate_max_connections <=? opened then attempted
      else if (rate_max_connections <=? attempted) && (pending =? 0) then attempted
      else match open_new (Z.to_nat rate_concurrent_sockets) attempted opened pending with
           | (att, pend) =>
               let answered := Z.max 0 (Z.min pend (fst (env t))) in
               let recognised := Z.max 0 (Z.min answered (snd (env t))) in
               rate_loop t att (opened + recognised) (pend - answered) env
           end
  end.
Definition has_dh (kex : list string) : bool := existsb (fun n => mem n dheat_alg_priority || mem n dheat_gex_algs) kex.
Definition rate_conns (skip : bool) (kex : list string) (ticks : nat) (env : nat -> Z * Z) : Z :=
  if skip || negb (has_dh kex) then 0 else rate_loop ticks 0 0 0 env.

(* ---------- the whole standard audit of a server, connection log ---------- *)
Record probes := {
  pe_hk : string -> hk_outcome;
  pe_gex : string -> Z * Z * Z -> gex_ans;
  pe_openssh : bool;
  pe_ticks : nat;
  pe_rate_env : nat -> Z * Z }.

Definition kex_names (l : list (list Z)) : list string := map (fun b => of_chars (map (fun z => ascii_of_nat (Z.to_nat z)) b)) l.

Definition audit_conns (client_audit skip_rate : bool) (k : kexinit) (pe : probes) : list conn * Z :=
  if client_audit then ([CFirst], 0)
  else (CFirst :: hostkey_conns (kex_names (k_kex k)) (kex_names (k_key k)) (pe_hk pe)
        ++ gex_all gex_algs (kex_names (k_kex k)) (pe_gex pe) (pe_openssh pe),
        rate_conns skip_rate (kex_names (k_kex k)) (pe_ticks pe) (pe_rate_env pe)).

(* exit status of a single-target standard audit *)
Definition audit_exit (sshv : Z) (ssh1_allowed : bool) (hs : handshake) (hs1 : handshake) (status_of_report : Z) : outcome :=
  match hs with
  | HsConnectFail => Exit exit_CONNECTION_ERROR
  | HsNoBanner => Exit exit_CONNECTION_ERROR
  | HsPacket p =>
      match classify sshv ssh1_allowed p with
      | ApExit1 => Exit exit_CONNECTION_ERROR
      | ApUncaught e => Uncaught e
      | ApKex _ | ApPkm _ => Exit status_of_report
      | ApFallbackSsh1 =>
          match hs1 with
          | HsConnectFail | HsNoBanner => Exit exit_CONNECTION_ERROR
          | HsPacket p1 => match classify 1 ssh1_allowed p1 with
                           | ApExit1 | ApFallbackSsh1 => Exit exit_CONNECTION_ERROR
                           | ApUncaught e => Uncaught e
                           | ApKex _ | ApPkm _ => Exit status_of_report
                           end
          end
      end
  end.
