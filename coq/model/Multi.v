(* Multi-target scans (ssh_audit.main / target_worker_thread; ssh2_kexdb.get_db / thread_exit).
   C07: per-thread database copies under arbitrary interleavings.  C08: result collection. *)
From VModel Require Export Report.
Open Scope string_scope. Open Scope list_scope. Open Scope Z_scope.

(* ---------- C07: the per-thread database map ---------- *)
Section PerThread.
Variable D : Type.                      (* a database value *)
Variable master : D.

Definition world := list (nat * D).     (* DB_PER_THREAD: thread id -> private copy *)
Fixpoint wget (w : world) (t : nat) : option D :=
  match w with [] => None | (t', d) :: r => if Nat.eqb t t' then Some d else wget r t end.
Fixpoint wdel (w : world) (t : nat) : world :=
  match w with [] => [] | (t', d) :: r => if Nat.eqb t t' then wdel r t else (t', d) :: wdel r t end.
Definition wset (w : world) (t : nat) (d : D) : world := (t, d) :: wdel w t.
(* get_db(): copy the master on first use by this thread *)
Definition get_db (w : world) (t : nat) : world * D :=
  match wget w t with Some d => (w, d) | None => (wset w t master, master) end.

Inductive event :=
  | EStart (t : nat) (target : nat)               (* worker thread t picks up a target *)
  | EEdit (t : nat) (target : nat) (f : D -> D)   (* the scan of that target annotates its thread's copy in place *)
  | ERender (t : nat) (target : nat)              (* the report is produced from the thread's copy *)
  | EFinish (t : nat) (target : nat).             (* target_worker_thread's finally: thread_exit() *)

Definition ev_target (e : event) : nat :=
  match e with EStart _ g | EEdit _ g _ | ERender _ g | EFinish _ g => g end.

(* run a trace; collect, per render, (target, the database the report was produced from) *)
Fixpoint run_trace (w : world) (tr : list event) : list (nat * D) :=
  match tr with
  | [] => []
  | EStart _ _ :: r => run_trace w r
  | EEdit t _ f :: r => let (w', d) := get_db w t in run_trace (wset w' t (f d)) r
  | ERender t target :: r => let (w', d) := get_db w t in (target, d) :: run_trace w' r
  | EFinish t _ :: r => run_trace (wdel w t) r
  end.

(* the events of one target: what a fresh single-target invocation executes *)
Definition project (target : nat) (tr : list event) : list event := filter (fun e => Nat.eqb (ev_target e) target) tr.
Definition renders_of (target : nat) (l : list (nat * D)) : list D := map snd (filter (fun p => Nat.eqb (fst p) target) l).

(* well-formed schedules: a thread runs one target at a time, every target is started once, on one thread,
   edits/renders/finish of a target happen on its thread between its start and its finish *)
Inductive wf : list (nat * nat) -> list nat -> list event -> Prop :=
  | wf_nil : forall cur used, wf cur used []
  | wf_start : forall cur used t g r, (forall p, In p cur -> fst p <> t) -> ~ In g used -> wf ((t, g) :: cur) (g :: used) r -> wf cur used (EStart t g :: r)
  | wf_edit : forall cur used t g f r, In (t, g) cur -> wf cur used r -> wf cur used (EEdit t g f :: r)
  | wf_render : forall cur used t g r, In (t, g) cur -> wf cur used r -> wf cur used (ERender t g :: r)
  | wf_finish : forall cur used t g r, In (t, g) cur -> wf (filter (fun p => negb (Nat.eqb (fst p) t)) cur) used r -> wf cur used (EFinish t g :: r).
End PerThread.

(* ---------- C08: collecting the workers' results ---------- *)
Definition rank (st : Z) : nat :=
  (fix go (l : list Z) (i : nat) : nat := match l with [] => 0%nat | x :: r => if x =? st then i else go r (S i) end) ranked_return_codes 0%nat.

(* main(): ret starts at GOOD; a worker's status replaces it when it ranks higher *)
Definition merge (ret w : Z) : Z := if Nat.ltb (rank ret) (rank w) then w else ret.
Definition final_status (results : list (Z * string)) : Z := fold_left (fun ret r => merge ret (fst r)) results exit_GOOD.

(* stdout of a multi-target run, as printed by main(): one block per completed worker, delimiters in between *)
Definition delimiter : string := String.append (of_chars (repeat "-"%char 80)) (String (ascii_of_nat 10) EmptyString).
Definition nl : string := String (ascii_of_nat 10) EmptyString.
Fixpoint print_blocks (json : bool) (blocks : list string) : string :=
  match blocks with
  | [] => ""
  | [b] => if json then b else b +++ nl
  | b :: r => (if json then b +++ ", " else b +++ nl +++ delimiter +++ nl) +++ print_blocks json r
  end.
Definition multi_stdout (json : bool) (results : list (Z * string)) : string :=
  (if json then "[" else "") +++ print_blocks json (map snd results) +++ (if json then "]" +++ nl else "").

(* the wrapper ssh-audit.py maps the status to the process exit code (-1 -> 255) *)
Definition process_status (st : Z) : Z := st mod 256.
