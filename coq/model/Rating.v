(* ssh_audit.output_algorithm / build_struct.fetch_notes / Algorithm.get_since_text: what is shown for one
   algorithm, as a function of the (per-scan) database, the category and the name. *)
From VModel Require Export DB.
Open Scope string_scope. Open Scope list_scope. Open Scope Z_scope.

Infix "+++" := String.append (right associativity, at level 60).
Inductive level := LFail | LWarn | LInfo.
(* the level texts the code iterates over: `for idx, level in enumerate(['fail', 'warn', 'info'])` *)
Definition level_text (l : level) : string := match l with LFail => "fail" | LWarn => "warn" | LInfo => "info" end.
Definition level_eqb (a b : level) : bool :=
  match a, b with LFail, LFail | LWarn, LWarn | LInfo, LInfo => true | _, _ => false end.

(* ---- small string helpers ---- *)
(* drop_last (s[:-1]) and str_skip (s[n:]): see Base.v *)
Definition is_py_space (c : ascii) : bool :=
  let n := nat_of_ascii c in (Nat.leb 9 n && Nat.leb n 13) || Nat.eqb n 32 || (Nat.leb 28 n && Nat.leb n 31).
Definition str_is_blank (s : string) : bool := forallb is_py_space (chars s).     (* len(s.strip()) == 0 *)
(* rstrip_set, rstrip_chars (s.rstrip(chars)): see Base.v *)
(* s[0:s.rindex('-')] ; None when there is no dash *)
Fixpoint before_last_dash_aux (l acc : list ascii) (best : option (list ascii)) : option (list ascii) :=
  match l with
  | [] => best
  | c :: r => before_last_dash_aux r (c :: acc) (if Ascii.eqb c "-"%char then Some (rev acc) else best)
  end.
Definition before_last_dash (s : string) : option string :=
  match before_last_dash_aux (chars s) [] None with Some l => Some (of_chars l) | None => None end.

(* ---- Algorithm.get_ssh_version / get_since_text ---- *)
Definition ssh_version (v : string) : string * string * bool :=
  let is_cli := ends_with "C" v in
  let v := if is_cli then drop_last v else v in
  if starts_with "d" v then (product_DropbearSSH, str_skip 1 v, is_cli)
  else if starts_with "l1" v then (product_LibSSH, str_skip 2 v, is_cli)
  else (product_OpenSSH, v, is_cli).

Definition since_text (vers : list (option string)) : option string :=
  match vers with
  | Some v0 :: _ =>
      let tv := flat_map (fun v => match ssh_version v with
                                   | (prod, ver, cli) =>
                                       if String.eqb ver "" then []
                                       else if String.eqb prod product_LibSSH then []
                                       else [prod +++ " " +++ (if cli then ver +++ " (client only)" else ver)]
                                   end) (split_on ","%char v0) in
      match tv with [] => None | _ => Some ("available since " +++ rstrip_chars ", " (join ", " tv)) end
  | _ => None
  end.

(* ---- the name used for the database lookup (gss-* wildcard normalisation, kex only) ---- *)
Definition lookup_name (cat name : string) : string :=
  if String.eqb cat "kex" && starts_with "gss-" name
  then match before_last_dash name with Some p => p +++ "-*" | None => name end
  else name.

Definition unknown_text : string := "unknown algorithm".

(* texts of output_algorithm: None = the (blank) name is skipped entirely *)
Definition alg_texts (d : db) (cat name : string) : option (list (level * string)) :=
  let n := lookup_name cat name in
  if str_is_blank n then None
  else match db_get d cat n with
       | Some e =>
           let t := map (fun s => (LFail, s)) (fails e) ++ map (fun s => (LWarn, s)) (warns e)
                    ++ (match since_text (versions e) with Some s => if String.eqb s "" then [] else [(LInfo, s)] | None => [] end)
                    ++ map (fun s => (LInfo, s)) (infos e) in
           Some (match t with [] => [(LInfo, "")] | _ => t end)
       | None => Some [(LWarn, unknown_text)]
       end.

(* program_retval update, one note at a time (failure is sticky) *)
Definition status_step (st : Z) (l : level) : Z :=
  match l with
  | LFail => exit_FAILURE
  | LWarn => if st =? exit_FAILURE then st else exit_WARNING
  | LInfo => st
  end.
Definition status_fold (st : Z) (ls : list level) : Z := fold_left status_step ls st.

(* ---- JSON notes: build_struct.fetch_notes (exact name, no wildcard normalisation in the code as written;
        the C03 fix makes it use the same lookup name as the text renderer) ---- *)
Record jnotes := { j_fail : list string; j_warn : list string; j_info : list string }.
Definition json_notes (d : db) (cat name : string) : jnotes :=
  match db_get d cat (lookup_name cat name) with
  | Some e => {| j_fail := fails e; j_warn := warns e;
                 j_info := infos e ++ (match since_text (versions e) with Some s => if String.eqb s "" then [] else [s] | None => [] end) |}
  | None => {| j_fail := [k2_FAIL_UNKNOWN]; j_warn := []; j_info := [] |}
  end.

(* ---- displayed name: size suffixes of output_algorithm ---- *)
(* zstr_digit, z_digits, z_to_string: see Base.v (shared with the generated kernels of gen/Tables.v) *)

(* output_algorithm (fix 331ebe3): the name shown in the text report has every non-printable character replaced by '?'.  Exact for ASCII (Python's
   str.isprintable: 0x20..0x7e); bytes >= 0x80 are kept as they are - Python judges the decoded code point there, which the byte-level model does not follow *)
Definition display_char (c : ascii) : ascii :=
  let n := nat_of_ascii c in if Nat.ltb n 32 || Nat.eqb n 127 then "?"%char else c.
Definition display (s : string) : string := of_chars (map display_char (chars s)).

Record hostkey_info := { hk_size : Z; hk_ca_type : string; hk_ca_size : Z }.

Definition shown_name (cat name : string) (hostkeys : list (string * hostkey_info)) (dh : list (string * Z)) : string :=
  match (if String.eqb cat "kex" then assoc name dh else None) with
  | Some sz => name +++ " (" +++ z_to_string sz +++ "-bit)"
  | None =>
      match (if String.eqb cat "key" then assoc name hostkeys else None) with
      | Some hk =>
          let cat_ := if mem (hk_ca_type hk) rsa_family then "RSA" else hk_ca_type hk in
          if negb (String.eqb cat_ "") && (0 <? hk_ca_size hk)
          then name +++ " (" +++ z_to_string (hk_size hk) +++ "-bit cert/" +++ z_to_string (hk_ca_size hk) +++ "-bit " +++ cat_ +++ " CA)"
          else if mem name rsa_family then name +++ " (" +++ z_to_string (hk_size hk) +++ "-bit)"
          else name
      | None => name
      end
  end.
