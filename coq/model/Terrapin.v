(* ssh_audit.post_process_findings: Terrapin marking, OpenSSH 2048-bit GEX note, recommendation suppression. *)
From VModel Require Export Rating.
Open Scope string_scope. Open Scope list_scope. Open Scope Z_scope.

(* the lists of one peer as the report code sees them *)
Record kexlists := {
  kl_kex : list string; kl_key : list string;
  kl_enc : list string;  (* server-to-client: what every view reports *)
  kl_mac : list string;
  kl_enc_c : list string; (* client-to-server: used for Terrapin when auditing a client *)
  kl_mac_c : list string;
  kl_comp : list string }.

Definition is_chacha (n : string) : bool := starts_with "chacha20-poly1305" n.
Definition is_cbc (n : string) : bool :=
  ends_with "-cbc" n || ends_with "-cbc@openssh.org" n || ends_with "-cbc@ssh.com" n || String.eqb n "rijndael-cbc@lysator.liu.se" || String.eqb n "des-cbc-ssh1".
Definition is_etm (n : string) : bool := ends_with "-etm@openssh.com" n.

Definition marker_c : string := "kex-strict-c-v00@openssh.com".
Definition marker_s : string := "kex-strict-s-v00@openssh.com".
Definition has_marker (client_audit : bool) (k : kexlists) : bool :=
  if client_audit then mem marker_c (kl_kex k) else mem marker_s (kl_kex k).

Definition tp_ciphers (client_audit : bool) (k : kexlists) : list string := if client_audit then kl_enc_c k else kl_enc k.
Definition tp_macs (client_audit : bool) (k : kexlists) : list string := if client_audit then kl_mac_c k else kl_mac k.

(* append a note to component i of an entry, creating empty components up to i (while len < i+1: append []) *)
Fixpoint pad_to (n : nat) (e : desc) : desc :=
  match n with O => e | S n' => match e with [] => [] :: pad_to n' [] | x :: r => x :: pad_to n' r end end.
Fixpoint append_at (i : nat) (s : string) (e : desc) : desc :=
  match i, e with
  | O, x :: r => (x ++ [Some s]) :: r
  | O, [] => [[Some s]]
  | S i', x :: r => x :: append_at i' s r
  | S i', [] => [] :: append_at i' s []
  end.
Definition db_update (d : db) (c n : string) (f : desc -> desc) : db := update c (fun cat => update n f cat) d.
(* _add_terrapin_warning; a name the table does not know is left alone (ssh_audit.py after the C04/C09 fix) *)
(* the warning is added once per algorithm, however often the peer lists the name *)
Definition add_warn_once (s : string) (e : desc) : desc := if mem s (warns e) then e else append_at 2 s e.
Definition add_terrapin (d : db) (c n : string) : db := db_update d c n (add_warn_once terrapin_warning).

Record post := { p_db : db; p_suppress : list string; p_notes : list string }.

Definition advisory_prefix : string := "Be aware that, while this target properly supports the strict key exchange method (via the kex-strict-?-v00@openssh.com marker) needed to protect against the Terrapin vulnerability (CVE-2023-48795), all peers must also support this feature as well, otherwise the vulnerability will still be present.  The following algorithms would allow an unpatched peer to create vulnerable SSH channels with this target: ".
Definition advisory_suffix : string := ".  If any CBC ciphers are in this list, you may remove them while leaving the *-etm@openssh.com MACs in place; these MACs are fine while paired with non-CBC cipher types.".

Definition openssh_2048 (banner_software : option string) (k : kexlists) (dh : list (string * Z)) : bool :=
  let g := "diffie-hellman-group-exchange-sha256" in
  mem g (kl_kex k) && (match assoc g dh with Some sz => sz =? 2048 | None => false end)
  && (match banner_software with Some s => match index 0 "OpenSSH" s with Some _ => true | None => false end | None => false end).

(* the algorithms the rule marks (or, with the marker present, names in the advisory note) *)
Definition marked_enc (client_audit : bool) (k : kexlists) : list string :=
  let cbcs := filter is_cbc (tp_ciphers client_audit k) in
  let etms := filter is_etm (tp_macs client_audit k) in
  filter is_chacha (tp_ciphers client_audit k) ++ (match cbcs, etms with _ :: _, _ :: _ => cbcs | _, _ => [] end).
Definition marked_mac (client_audit : bool) (k : kexlists) : list string :=
  let cbcs := filter is_cbc (tp_ciphers client_audit k) in
  let etms := filter is_etm (tp_macs client_audit k) in
  match cbcs, etms with _ :: _, _ :: _ => etms | _, _ => [] end.

Definition post_process (client_audit : bool) (banner_software : option string) (k : kexlists)
           (dh : list (string * Z)) (rate_notes : string) (d : db) : post :=
  let g := "diffie-hellman-group-exchange-sha256" in
  let o2048 := openssh_2048 banner_software k dh in
  let d := if o2048 then db_update d "kex" g (append_at 3 openssh_2048_note) else d in
  let marker := has_marker client_audit k in
  let chachas := filter is_chacha (tp_ciphers client_audit k) in
  let cbcs := filter is_cbc (tp_ciphers client_audit k) in
  let etms := filter is_etm (tp_macs client_audit k) in
  let to_mark_enc := marked_enc client_audit k in
  let to_mark_mac := marked_mac client_audit k in
  let d := if marker then d
           else fold_left (fun d n => add_terrapin d "mac" n) to_mark_mac
                  (fold_left (fun d n => add_terrapin d "enc" n) to_mark_enc d) in
  let to_note := if marker then to_mark_enc ++ to_mark_mac else [] in
  let notes := (match to_note with [] => [] | _ => [advisory_prefix +++ join ", " to_note +++ advisory_suffix] end)
               ++ (if String.eqb rate_notes "" then [] else [rate_notes]) in
  let enc_names := keys (db_cat d "enc") in
  let mac_names := keys (db_cat d "mac") in
  let suppress := (if o2048 then [g] else [])
                  ++ filter (fun n => is_chacha n && negb (mem n chachas)) enc_names
                  ++ filter (fun n => is_cbc n && negb (mem n cbcs)) enc_names
                  ++ filter (fun n => is_etm n && negb (mem n etms)) mac_names in
  {| p_db := d; p_suppress := suppress; p_notes := notes |}.
