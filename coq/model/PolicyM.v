(* PolicyM - model of src/ssh_audit/policy.py: Policy.evaluate (334-464), _append_error (225-230),
   _get_errors (467-492), _normalize_error_field (598-606).   Used by C06 (and later C05).

   EXPORTED INTERFACE
     hk       = HK size ca_type ca_size          one value of a host-key map (kex.host_keys()[t] /
                                                 Policy._hostkey_sizes[t] without raw_hostkey_bytes)
     policy   = record p_*                       the private fields of a Policy object (None = option None)
     peer     = record pr_*                      what evaluate() reads from (banner, kex):
                                                 pr_banner = str(banner); pr_compression = kex.server.compression;
                                                 pr_kex = kex.kex_algorithms; pr_key = kex.key_algorithms;
                                                 pr_enc = kex.server.encryption; pr_mac = kex.server.mac;
                                                 pr_host_keys = kex.host_keys(); pr_dh_modulus_sizes = kex.dh_modulus_sizes()
     perr     = PErr field required optional actual     one dict of Policy._errors
     evaluate_from acc p pr : bool * list perr   evaluate() on a Policy object whose _errors already holds acc
     evaluate p pr         = evaluate_from [] p pr      (fresh Policy object)
     evaluate_nokex_from acc p banner            evaluate(banner, None)
     error_str subset errs : string              third component of evaluate()'s result
     evaluate_full_from acc p pr : bool * list perr * string     the whole result tuple (evaluate_full = fresh object)
     evaluate_nokex_full_from acc p banner                       the same for evaluate(banner, None)
     satisfies p pr : Prop                       the SPEC, written from the property statement (not from the code)
     error_for p pr e : Prop                     the SPEC of the error list
   Dicts are association lists (Base.assoc = first match); Python dicts have unique keys, the theorems do not
   need that.  Names are `string` (UTF-8 bytes), sizes are `Z`.
   Outside the model: non-integer sizes in hand-written JSON; int() of NON-ASCII digits/blanks in
   _normalize_error_field (py_int models the ASCII fragment of int()). *)
From VModel Require Export Base.
Open Scope string_scope. Open Scope list_scope. Open Scope Z_scope.
Local Infix "^^" := String.append (right associativity, at level 60).

(* ------------------------------------------------------------------ records *)
Record hk := HK { hk_size : Z; hk_ca_type : string; hk_ca_size : Z }.

Record policy := {
  p_name : option string;                          (* _name      (not read by evaluate) *)
  p_version : option string;                       (* _version   (not read by evaluate) *)
  p_banner : option string;                        (* _banner *)
  p_compressions : option (list string);           (* _compressions *)
  p_host_keys : option (list string);              (* _host_keys *)
  p_optional_host_keys : option (list string);     (* _optional_host_keys *)
  p_kex : option (list string);                    (* _kex *)
  p_ciphers : option (list string);                (* _ciphers *)
  p_macs : option (list string);                   (* _macs *)
  p_hostkey_sizes : option (list (string * hk));   (* _hostkey_sizes (normalised) *)
  p_dh_modulus_sizes : option (list (string * Z)); (* _dh_modulus_sizes *)
  p_server_policy : bool;                          (* _server_policy (not read by evaluate) *)
  p_subset : bool;                                 (* _allow_algorithm_subset_and_reordering *)
  p_larger : bool                                  (* _allow_larger_keys *)
}.

Record peer := {
  pr_banner : string;
  pr_compression : list string;
  pr_kex : list string;
  pr_key : list string;
  pr_enc : list string;
  pr_mac : list string;
  pr_host_keys : list (string * hk);
  pr_dh_modulus_sizes : list (string * Z)
}.

Record perr := PErr { e_field : string; e_req : list string; e_opt : list string; e_act : list string }.

(* ------------------------------------------------------------------ helpers *)
Definition nl : string := String (ascii_of_nat 10) EmptyString.

(* str(int) *)
Fixpoint z_dec_pos (fuel : nat) (n : Z) (acc : string) : string :=
  match fuel with
  | O => acc
  | S f => let acc' := String (ascii_of_nat (48 + Z.to_nat (n mod 10))) acc in
           if n <? 10 then acc' else z_dec_pos f (n / 10) acc'
  end.
Definition z_dec (n : Z) : string :=
  if n <? 0 then String "-"%char (z_dec_pos (S (Z.to_nat (Z.log2 (- n)))) (- n) EmptyString)
  else z_dec_pos (S (Z.to_nat (Z.log2 n))) n EmptyString.

(* list.sort() on str keys (stable insertion sort; byte order = code point order for UTF-8) *)
Fixpoint insert_by {A} (key : A -> string) (x : A) (l : list A) : list A :=
  match l with
  | [] => [x]
  | y :: r => if String.ltb (key x) (key y) then x :: l else y :: insert_by key x r
  end.
Definition sort_by {A} (key : A -> string) (l : list A) : list A := fold_right (insert_by key) [] (rev l).
Definition sort_strs : list string -> list string := sort_by (fun s => s).

(* ------------------------------------------------------------------ the error accumulator *)
(* state threaded through evaluate(): (ret, self._errors) *)
Definition st := (bool * list perr)%type.
Definition none_list (o : option (list string)) : list string := match o with Some l => l | None => [""] end.
(* _append_error + `ret = False` *)
Definition fail (s : st) (f : string) (req opt : option (list string)) (act : list string) : st :=
  (false, snd s ++ [PErr f (none_list req) (none_list opt) act]).

Definition not_all_in (actual pol : list string) : bool := existsb (fun x => negb (mem x pol)) actual.
(* (allow_larger and actual < expected) or (not allow_larger and actual != expected) *)
Definition size_bad (larger : bool) (actual expected : Z) : bool :=
  (larger && (actual <? expected)) || (negb larger && negb (actual =? expected)).

Definition kex_strict_s := "kex-strict-s-v00@openssh.com".
Definition kex_strict_c := "kex-strict-c-v00@openssh.com".

(* ------------------------------------------------------------------ evaluate(), one definition per block *)
Definition chk_banner (p : policy) (banner : string) (s : st) : st :=
  match p_banner p with
  | Some b => if negb (banner =? b)%string then fail s "Banner" (Some [b]) None [banner] else s
  | None => s
  end.

Definition chk_compression (p : policy) (pr : peer) (s : st) : st :=
  match p_compressions p with
  | Some c => if negb (strs_eqb (pr_compression pr) c) then fail s "Compression" (Some c) None (pr_compression pr) else s
  | None => s
  end.

Definition pruned_host_keys (p : policy) (pr : peer) : list string :=
  match p_optional_host_keys p with
  | Some o => filter (fun x => negb (mem x o)) (pr_key pr)
  | None => pr_key pr
  end.

Definition chk_host_keys (p : policy) (pr : peer) (s : st) : st :=
  match p_host_keys p with
  | Some h =>
      if p_subset p then
        if not_all_in (pr_key pr) h then fail s "Host keys" (Some h) (p_optional_host_keys p) (pr_key pr) else s
      else if negb (strs_eqb (pruned_host_keys p pr) h) then fail s "Host keys" (Some h) (p_optional_host_keys p) (pr_key pr)
      else s
  | None => s
  end.

(* body of `for hostkey_type in hostkey_types` *)
Definition hk_step (larger : bool) (server : list (string * hk)) (s : st) (te : string * hk) : st :=
  let (t, e) := te in
  match assoc t server with
  | None => s
  | Some a =>
      let s1 := if size_bad larger (hk_size a) (hk_size e)
                then fail s ("Host key (" ^^ t ^^ ") sizes") (Some [z_dec (hk_size e)]) None [z_dec (hk_size a)] else s in
      if negb (hk_ca_type e =? "")%string && (0 <? hk_ca_size e) then
        if negb (hk_ca_type a =? hk_ca_type e)%string then
          fail s1 "CA signature type" (Some [hk_ca_type e]) None [hk_ca_type a]
        else if size_bad larger (hk_ca_size a) (hk_ca_size e) then
          fail s1 ("CA signature size (" ^^ hk_ca_type a ^^ ")") (Some [z_dec (hk_ca_size e)]) None [z_dec (hk_ca_size a)]
        else s1
      else s1
  end.

Definition chk_hostkey_sizes (p : policy) (pr : peer) (s : st) : st :=
  match p_hostkey_sizes p with
  | Some m => fold_left (hk_step (p_larger p) (pr_host_keys pr)) (sort_by fst m) s
  | None => s
  end.

Definition chk_kex (p : policy) (pr : peer) (s : st) : st :=
  match p_kex p with
  | Some k =>
      if p_subset p then
        let s1 := if not_all_in (pr_kex pr) k then fail s "Key exchanges" (Some k) None (pr_kex pr) else s in
        if (mem kex_strict_s k && negb (mem kex_strict_s (pr_kex pr))) || (mem kex_strict_c k && negb (mem kex_strict_c (pr_kex pr)))
        then fail s1 "Key exchanges" (Some k) None (pr_kex pr) else s1
      else if negb (strs_eqb (pr_kex pr) k) then fail s "Key exchanges" (Some k) None (pr_kex pr)
      else s
  | None => s
  end.

(* the Ciphers and MACs blocks have the same shape *)
Definition chk_list (subset : bool) (field : string) (pol : option (list string)) (actual : list string) (s : st) : st :=
  match pol with
  | Some l =>
      if subset then (if not_all_in actual l then fail s field (Some l) None actual else s)
      else if negb (strs_eqb actual l) then fail s field (Some l) None actual
      else s
  | None => s
  end.
Definition chk_ciphers (p : policy) (pr : peer) : st -> st := chk_list (p_subset p) "Ciphers" (p_ciphers p) (pr_enc pr).
Definition chk_macs (p : policy) (pr : peer) : st -> st := chk_list (p_subset p) "MACs" (p_macs p) (pr_mac pr).

Definition dh_step (larger : bool) (server : list (string * Z)) (s : st) (te : string * Z) : st :=
  let (t, e) := te in
  match assoc t server with
  | None => s
  | Some a => if size_bad larger a e
              then fail s ("Group exchange (" ^^ t ^^ ") modulus sizes") (Some [z_dec e]) None [z_dec a] else s
  end.
Definition chk_dh (p : policy) (pr : peer) (s : st) : st :=
  match p_dh_modulus_sizes p with
  | Some m => fold_left (dh_step (p_larger p) (pr_dh_modulus_sizes pr)) (sort_by fst m) s
  | None => s
  end.

Definition evaluate_from (acc : list perr) (p : policy) (pr : peer) : st :=
  chk_dh p pr (chk_macs p pr (chk_ciphers p pr (chk_kex p pr (chk_hostkey_sizes p pr (chk_host_keys p pr
    (chk_compression p pr (chk_banner p (pr_banner pr) (true, acc)))))))).
Definition evaluate (p : policy) (pr : peer) : st := evaluate_from [] p pr.
(* evaluate(banner, None) *)
Definition evaluate_nokex_from (acc : list perr) (p : policy) (banner : string) : st := chk_banner p banner (true, acc).

(* ------------------------------------------------------------------ _get_errors / _normalize_error_field *)
Definition is_space (c : ascii) : bool :=
  let n := nat_of_ascii c in (((9 <=? n) && (n <=? 13)) || (n =? 32))%nat.
Definition is_digit (c : ascii) : bool := let n := nat_of_ascii c in ((48 <=? n) && (n <=? 57))%nat.
Fixpoint lstrip (l : list ascii) : list ascii :=
  match l with c :: r => if is_space c then lstrip r else l | [] => [] end.
Fixpoint digits_val (l : list ascii) (acc : Z) (prev_digit : bool) : option Z :=
  match l with
  | [] => if prev_digit then Some acc else None
  | c :: r => if is_digit c then digits_val r (acc * 10 + (Z.of_nat (nat_of_ascii c) - 48)) true
              else if Ascii.eqb c "_"%char && prev_digit then digits_val r acc false
              else None
  end.
(* int(s) for ASCII s: blanks stripped, optional sign, digits with single inner underscores; None = ValueError *)
Definition py_int (s : string) : option Z :=
  match rev (lstrip (rev (lstrip (chars s)))) with
  | c :: r => if Ascii.eqb c "-"%char then option_map Z.opp (digits_val r 0 false)
              else if Ascii.eqb c "+"%char then digits_val r 0 false
              else digits_val (c :: r) 0 false
  | [] => None
  end.
Definition normalize_error_field (l : list string) : string :=
  match l with
  | [x] => match py_int x with Some n => z_dec n | None => x end
  | _ => join ", " l
  end.

Definition render_head (e : perr) : string := "  * " ^^ e_field e ^^ " did not match." ^^ nl.
Definition render_error (subset : bool) (e : perr) : string :=
  render_head e ^^
  (if negb (strs_eqb (e_opt e) [""]) then
     "    - Expected (required" ^^ (if subset then "; subset and/or reordering allowed" else "; exact match") ^^ "): "
       ^^ normalize_error_field (e_req e) ^^ nl ^^ "    - Expected (optional): " ^^ normalize_error_field (e_opt e) ^^ nl
       ^^ "    - Actual:" ^^ "              " ^^ normalize_error_field (e_act e) ^^ nl
   else
     "    - Expected" ^^ (if subset then " (subset and/or reordering allowed)" else "") ^^ ": "
       ^^ normalize_error_field (e_req e) ^^ nl
       ^^ "    - Actual:" ^^ "   " ^^ normalize_error_field (e_act e) ^^ nl).
Definition error_list (subset : bool) (errs : list perr) : list string := sort_strs (map (render_error subset) errs).
Definition error_str (subset : bool) (errs : list perr) : string := join nl (error_list subset errs).

Definition with_str (p : policy) (r : st) : bool * list perr * string := (fst r, snd r, error_str (p_subset p) (snd r)).
Definition evaluate_full_from (acc : list perr) (p : policy) (pr : peer) := with_str p (evaluate_from acc p pr).
Definition evaluate_full (p : policy) (pr : peer) : bool * list perr * string := evaluate_full_from [] p pr.
Definition evaluate_nokex_full_from (acc : list perr) (p : policy) (banner : string) := with_str p (evaluate_nokex_from acc p banner).

(* comparison helpers for the correspondence case files *)
Definition perr_eqb (a b : perr) : bool :=
  String.eqb (e_field a) (e_field b) && strs_eqb (e_req a) (e_req b) && strs_eqb (e_opt a) (e_opt b) && strs_eqb (e_act a) (e_act b).
Definition result_eqb (r : bool * list perr * string) (ok : bool) (errs : list perr) (s : string) : bool :=
  Bool.eqb (fst (fst r)) ok && list_eqb perr_eqb (snd (fst r)) errs && String.eqb (snd r) s.

(* the case files compare most error texts by length and a Fletcher-style pair of running sums
   (string literals of that size are slow to elaborate): a = sum (byte+1), b = sum of the prefix sums *)
Fixpoint str_sums (s : string) (a b : Z) : Z * Z :=
  match s with
  | EmptyString => (a, b)
  | String c r => let a' := a + Z.of_N (N_of_ascii c) + 1 in str_sums r a' (b + a')
  end.
Definition result_hash_eqb (r : bool * list perr * string) (ok : bool) (errs : list perr) (len sa sb : Z) : bool :=
  Bool.eqb (fst (fst r)) ok && list_eqb perr_eqb (snd (fst r)) errs &&
  (Z.of_nat (String.length (snd r)) =? len) &&
  (let (a, b) := str_sums (snd r) 0 0 in (a =? sa) && (b =? sb)).

(* ================================================================== SPEC
   Written from the property statement and the documented rules (policy file comments, README):
   - a field the policy does not specify (None) is satisfied;
   - banner and compressions: equal (compressions are never subject to subset mode: "must match exactly");
   - exact mode: kex / ciphers / MACs equal the policy's list in order; host keys equal it after the
     policy's optional host keys were removed from the peer's list;
   - subset mode: each of host keys / kex / ciphers / MACs is drawn from the policy's list, and a
     strict-kex marker listed by the policy must be offered;
   - sizes: for every key type the policy lists and the peer has: size equal (or >= with larger keys);
     if the policy names a CA (type non-empty, size > 0): CA type equal and CA size equal (or >=);
   - group-exchange modulus sizes likewise. *)
Definition strict_markers : list string := [kex_strict_s; kex_strict_c].

Definition size_ok (larger : bool) (expected actual : Z) : Prop :=
  if larger then expected <= actual else actual = expected.

Definition list_sat (subset : bool) (pol : option (list string)) (actual : list string) : Prop :=
  match pol with
  | None => True
  | Some l => if subset then incl actual l else actual = l
  end.

Definition without (opt : option (list string)) (l : list string) : list string :=
  match opt with
  | None => l
  | Some o => filter (fun x => if in_dec string_dec x o then false else true) l
  end.

Definition banner_sat (p : policy) (pr : peer) : Prop :=
  match p_banner p with None => True | Some b => pr_banner pr = b end.
Definition compression_sat (p : policy) (pr : peer) : Prop := list_sat false (p_compressions p) (pr_compression pr).
Definition host_keys_sat (p : policy) (pr : peer) : Prop :=
  list_sat (p_subset p) (p_host_keys p) (if p_subset p then pr_key pr else without (p_optional_host_keys p) (pr_key pr)).
Definition kex_sat (p : policy) (pr : peer) : Prop :=
  list_sat (p_subset p) (p_kex p) (pr_kex pr) /\
  (p_subset p = true -> forall l m, p_kex p = Some l -> In m strict_markers -> In m l -> In m (pr_kex pr)).
Definition ciphers_sat (p : policy) (pr : peer) : Prop := list_sat (p_subset p) (p_ciphers p) (pr_enc pr).
Definition macs_sat (p : policy) (pr : peer) : Prop := list_sat (p_subset p) (p_macs p) (pr_mac pr).

Definition ca_specified (e : hk) : Prop := hk_ca_type e <> "" /\ 0 < hk_ca_size e.
Definition hostkey_entry_sat (larger : bool) (e a : hk) : Prop :=
  size_ok larger (hk_size e) (hk_size a) /\
  (ca_specified e -> hk_ca_type a = hk_ca_type e /\ size_ok larger (hk_ca_size e) (hk_ca_size a)).
Definition hostkey_sizes_sat (p : policy) (pr : peer) : Prop :=
  forall m t e a, p_hostkey_sizes p = Some m -> In (t, e) m -> assoc t (pr_host_keys pr) = Some a ->
                  hostkey_entry_sat (p_larger p) e a.
Definition dh_sat (p : policy) (pr : peer) : Prop :=
  forall m t e a, p_dh_modulus_sizes p = Some m -> In (t, e) m -> assoc t (pr_dh_modulus_sizes pr) = Some a ->
                  size_ok (p_larger p) e a.

Definition satisfies (p : policy) (pr : peer) : Prop :=
  banner_sat p pr /\ compression_sat p pr /\ host_keys_sat p pr /\ hostkey_sizes_sat p pr /\
  kex_sat p pr /\ ciphers_sat p pr /\ macs_sat p pr /\ dh_sat p pr.

(* SPEC of the error list: e is reported iff it is one of these - the named field is specified and NOT
   satisfied, `required` is the policy's value, `actual` the peer's value.  CA type is judged before CA
   size: a CA size error exists only when the CA types agree. *)
Inductive error_for (p : policy) (pr : peer) : perr -> Prop :=
| EF_banner b : p_banner p = Some b -> pr_banner pr <> b ->
    error_for p pr (PErr "Banner" [b] [""] [pr_banner pr])
| EF_compression l : p_compressions p = Some l -> ~ compression_sat p pr ->
    error_for p pr (PErr "Compression" l [""] (pr_compression pr))
| EF_host_keys l : p_host_keys p = Some l -> ~ host_keys_sat p pr ->
    error_for p pr (PErr "Host keys" l (none_list (p_optional_host_keys p)) (pr_key pr))
| EF_hostkey_size m t e a : p_hostkey_sizes p = Some m -> In (t, e) m -> assoc t (pr_host_keys pr) = Some a ->
    ~ size_ok (p_larger p) (hk_size e) (hk_size a) ->
    error_for p pr (PErr ("Host key (" ^^ t ^^ ") sizes") [z_dec (hk_size e)] [""] [z_dec (hk_size a)])
| EF_ca_type m t e a : p_hostkey_sizes p = Some m -> In (t, e) m -> assoc t (pr_host_keys pr) = Some a ->
    ca_specified e -> hk_ca_type a <> hk_ca_type e ->
    error_for p pr (PErr "CA signature type" [hk_ca_type e] [""] [hk_ca_type a])
| EF_ca_size m t e a : p_hostkey_sizes p = Some m -> In (t, e) m -> assoc t (pr_host_keys pr) = Some a ->
    ca_specified e -> hk_ca_type a = hk_ca_type e -> ~ size_ok (p_larger p) (hk_ca_size e) (hk_ca_size a) ->
    error_for p pr (PErr ("CA signature size (" ^^ hk_ca_type a ^^ ")") [z_dec (hk_ca_size e)] [""] [z_dec (hk_ca_size a)])
| EF_kex l : p_kex p = Some l -> ~ kex_sat p pr ->
    error_for p pr (PErr "Key exchanges" l [""] (pr_kex pr))
| EF_ciphers l : p_ciphers p = Some l -> ~ ciphers_sat p pr ->
    error_for p pr (PErr "Ciphers" l [""] (pr_enc pr))
| EF_macs l : p_macs p = Some l -> ~ macs_sat p pr ->
    error_for p pr (PErr "MACs" l [""] (pr_mac pr))
| EF_dh m t e a : p_dh_modulus_sizes p = Some m -> In (t, e) m -> assoc t (pr_dh_modulus_sizes pr) = Some a ->
    ~ size_ok (p_larger p) e a ->
    error_for p pr (PErr ("Group exchange (" ^^ t ^^ ") modulus sizes") [z_dec e] [""] [z_dec a]).

(* the two peer orderings of the monotonicity statements *)
Definition submap {A} (m' m : list (string * A)) : Prop := forall t a, assoc t m' = Some a -> assoc t m = Some a.
(* pr' offers no algorithm pr does not offer (fewer, reordered), keeps the strict-kex markers pr offers, same everything else *)
Definition shrinks (pr pr' : peer) : Prop :=
  pr_banner pr' = pr_banner pr /\ pr_compression pr' = pr_compression pr /\
  incl (pr_kex pr') (pr_kex pr) /\ incl (pr_key pr') (pr_key pr) /\ incl (pr_enc pr') (pr_enc pr) /\ incl (pr_mac pr') (pr_mac pr) /\
  submap (pr_host_keys pr') (pr_host_keys pr) /\ submap (pr_dh_modulus_sizes pr') (pr_dh_modulus_sizes pr) /\
  (forall m, In m strict_markers -> In m (pr_kex pr) -> In m (pr_kex pr')).
(* pr' has the keys of pr with sizes at least as large (same CA types), same everything else *)
Definition hk_grows (a a' : hk) : Prop :=
  hk_size a <= hk_size a' /\ hk_ca_type a' = hk_ca_type a /\ hk_ca_size a <= hk_ca_size a'.
Definition grows (pr pr' : peer) : Prop :=
  pr_banner pr' = pr_banner pr /\ pr_compression pr' = pr_compression pr /\
  pr_kex pr' = pr_kex pr /\ pr_key pr' = pr_key pr /\ pr_enc pr' = pr_enc pr /\ pr_mac pr' = pr_mac pr /\
  (forall t a', assoc t (pr_host_keys pr') = Some a' -> exists a, assoc t (pr_host_keys pr) = Some a /\ hk_grows a a') /\
  (forall t a', assoc t (pr_dh_modulus_sizes pr') = Some a' -> exists a, assoc t (pr_dh_modulus_sizes pr) = Some a /\ a <= a').
