(* algorithms.py get_recommendations + ssh_audit.get_algorithm_recommendations. *)
From VModel Require Export Terrapin.
Open Scope string_scope. Open Scope list_scope. Open Scope Z_scope.

Inductive action := Add | Del | Chg.
Definition action_eqb (a b : action) : bool := match a, b with Add, Add | Del, Del | Chg, Chg => true | _, _ => false end.
Inductive rlevel := Critical | Warning | Informational.

(* the identified software, reduced to what the recommendation pass asks of it:
   its product name and  available(v) := compare_version(v) >= 0  (C14's comparator, abstract here) *)
Record software := { sw_product : string; sw_available : string -> bool }.

Definition faults_of (e : desc) : Z :=
  10 * Z.of_nat (List.length (nth 1 e [])) + Z.of_nat (List.length (nth 2 e [])).

(* does the entry's first-appeared string match the software (None = unknown software: everything matches) *)
Definition version_matches (sw : option software) (unknown_software for_server : bool) (v0 : string) : bool :=
  unknown_software ||
  existsb (fun v => match ssh_version v with
                    | (prod, ver, cli) =>
                        negb (String.eqb ver "")
                        && (match sw with Some s => String.eqb prod (sw_product s) | None => true end)
                        && negb (cli && for_server)
                        && (match sw with Some s => sw_available s ver | None => true end)
                    end) (split_on ","%char v0).

Definition never_add (cat n : string) : bool :=
  (String.eqb cat "key" && (match index 0 "-cert-" n with Some _ => true | None => false end || starts_with "sk-" n))
  || (String.eqb cat "kex" && (starts_with "ext-info-" n || starts_with "kex-strict-" n)).

(* one category: list of (action, name, points) in table order *)
Definition rec_category (sw : option software) (unknown_software for_server : bool) (cat : string)
           (entries : category) (advertised : list string) : list (action * string * Z) :=
  let r := flat_map (fun ne =>
    match ne with
    | (n, e) =>
        let vers := versions e in
        let empty_version := match vers with Some _ :: _ => false | _ => true end in
        let considered := match vers with Some v0 :: _ => version_matches sw unknown_software for_server v0 | _ => true end in
        if negb considered then []
        else
          let faults := faults_of e in
          if negb (mem n advertised)
          then if (0 <? faults) || never_add cat n || empty_version then [] else [(Add, n, 0)]
          else if faults =? 0 then []
               else if mem n rec_chg_names then [(Chg, n, faults)] else [(Del, n, faults)]
    end) entries in
  if unknown_software then filter (fun x => negb (action_eqb (fst (fst x)) Add)) r else r.

Definition level_of_points (p : Z) : rlevel := if 10 <=? p then Critical else if 1 <=? p then Warning else Informational.

Record recommendation := { r_level : rlevel; r_action : action; r_cat : string; r_name : string; r_notes : string }.
Definition chg_notes : string := "increase modulus size to 3072 bits or larger".

(* SSH-2 recommendations for a peer (for_server is always True at the call sites) *)
Definition recommendations (sw : option software) (d : db) (k : kexlists) (suppress : list string) : list recommendation :=
  match sw with
  | None => []
  | Some s =>
      let unknown_software := negb (mem (sw_product s) rec_vproducts) in
      flat_map (fun ca =>
        match ca with
        | (cat, adv) =>
            let rs := rec_category sw unknown_software true cat (db_cat d cat) adv in
            flat_map (fun act => flat_map (fun x =>
                match x with
                | (a, n, pts) =>
                    if action_eqb a act && negb (mem n suppress)
                    then [{| r_level := level_of_points pts; r_action := a; r_cat := cat; r_name := n;
                             r_notes := match a with Chg => chg_notes | _ => "" end |}]
                    else []
                end) rs) [Del; Add; Chg]
        end) [("kex", kl_kex k); ("key", kl_key k); ("enc", kl_enc k); ("mac", kl_mac k)]
  end.
