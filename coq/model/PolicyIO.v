(* PolicyIO - model of src/ssh_audit/policy.py: Policy.create (247-331, the text -M writes) and the policy
   text parser in Policy.__init__ (100-222).  Built on PolicyM (records policy / peer / hk, evaluate).  Used by C05.

   EXPORTED INTERFACE
     strip s                         str.strip() on ASCII white space (9-13, 28-32)
     hkj = HKJ size ca_type ca_size  one value of the host_key_sizes JSON object (CA fields optional)
     trim_hk / norm_hk               create()'s deletion of empty CA fields / _normalize_hostkey_sizes
     create_lines dumps_hk dumps_dh src today client pr : list string
                                     every line of Policy.create(src, banner, kex, client), comment and blank lines included
     create_text ... = join nl (create_lines ...)       the returned str, byte for byte
     parse_line / parse_lines / parse loads_hk loads_dh   the `for line in lines` loop and the two final checks
     parse_text loads_hk loads_dh text : res policy       Policy(policy_data=text): Ok fields | Raise ValueError ...
     policy_of src today client pr : policy               the SPEC: what a policy made from pr must contain
     drift pr pr' field                                   the SPEC: pr' differs from pr in one covered attribute
     policy_of_raw / peer_of_raw / peer_of_raw_all        load_builtin_policy; a peer configured as a built-in policy lists
   json.dumps / json.loads of the two size maps are NOT modelled: they are the Section variables dumps_hk dumps_dh
   loads_hk loads_dh (the theorems state `loads (dumps m) = Ok m` as a hypothesis; the correspondence runs the real json).
   `today` is date.today().strftime('%Y/%m/%d'); the peer's lists are those of kex (never None).
   Outside the model: str.strip()/int() of NON-ASCII white space (U+0085, U+00A0, ...): wf_name demands ASCII;
   JSON values that are not objects of the expected shape; the deprecation warning printed for the old directives;
   the texts of the ValueError messages.  `cakey_size_T` before any `hostkey_size_` line raises UnboundLocalError in
   the code (the local `hostkey_size` is unset): Base.exn has no such constructor, RuntimeError stands for it here. *)
From Coq Require Import Permutation.
From VModel Require Export PolicyM.
Open Scope string_scope. Open Scope list_scope. Open Scope Z_scope.
Local Infix "^^" := String.append (right associativity, at level 60).

(* ------------------------------------------------------------------ characters and str methods *)
Definition c_lf : ascii := ascii_of_nat 10.
Definition c_eq : ascii := "="%char.
Definition c_comma : ascii := ","%char.
Definition c_quote : ascii := ascii_of_nat 34.
Definition c_hash : ascii := "#"%char.
Definition c_bslash : ascii := ascii_of_nat 92.
Definition c_n : ascii := "n"%char.
Definition quote : string := String c_quote EmptyString.

(* str.isspace() for code points below 128 *)
Definition py_space (c : ascii) : bool :=
  let n := nat_of_ascii c in (((9 <=? n) && (n <=? 13)) || ((28 <=? n) && (n <=? 32)))%nat.

Fixpoint lstrip_s (s : string) : string :=
  match s with
  | EmptyString => EmptyString
  | String c r => if py_space c then lstrip_s r else s
  end.
Fixpoint rstrip_s (s : string) : string :=
  match s with
  | EmptyString => EmptyString
  | String c r => match rstrip_s r with
                  | EmptyString => if py_space c then EmptyString else String c EmptyString
                  | r' => String c r'
                  end
  end.
Definition strip (s : string) : string := rstrip_s (lstrip_s s).

(* line.split('=', 1): None when there is no separator (the tuple assignment then raises ValueError) *)
Fixpoint split_first (sep : ascii) (s : string) : option (string * string) :=
  match s with
  | EmptyString => None
  | String c r => if Ascii.eqb c sep then Some (EmptyString, r)
                  else match split_first sep r with Some (a, b) => Some (String c a, b) | None => None end
  end.

(* s.replace(<a b>, <r>) for a two-character pattern *)
Fixpoint replace2 (a b r : ascii) (s : string) : string :=
  match s with
  | String c (String d t as rest) =>
      if Ascii.eqb c a && Ascii.eqb d b then String r (replace2 a b r t) else String c (replace2 a b r rest)
  | _ => s
  end.
(* the two replace() calls: backslash-quote -> quote, then backslash-n -> line feed *)
Definition unescape (s : string) : string := replace2 c_bslash c_n c_lf (replace2 c_bslash c_quote c_quote s).

Fixpoint last_is (q : ascii) (s : string) : bool :=
  match s with
  | EmptyString => false
  | String c EmptyString => Ascii.eqb c q
  | String _ r => last_is q r
  end.
Fixpoint drop_last (s : string) : string :=
  match s with
  | EmptyString => EmptyString
  | String _ EmptyString => EmptyString
  | String c r => String c (drop_last r)
  end.
(* the name / banner value: shorter than 2 -> two quotes; must be quoted; quotes removed; unescaped *)
Definition unquote (val : string) : res string :=
  let v := if (String.length val <? 2)%nat then quote ^^ quote else val in
  match v with
  | String c r => if Ascii.eqb c c_quote && last_is c_quote r then Ok (unescape (drop_last r)) else Raise ValueError
  | EmptyString => Raise ValueError
  end.

Definition lower_c (c : ascii) : ascii :=
  let n := nat_of_ascii c in if ((65 <=? n) && (n <=? 90))%nat then ascii_of_nat (n + 32) else c.
Fixpoint lower (s : string) : string :=
  match s with EmptyString => EmptyString | String c r => String (lower_c c) (lower r) end.

Fixpoint sdrop (n : nat) (s : string) : string :=
  match n, s with
  | O, _ => s
  | S n', String _ r => sdrop n' r
  | S _, EmptyString => EmptyString
  end.

(* d[k] = v on an insertion-ordered dict *)
Fixpoint dict_set {A} (k : string) (v : A) (l : list (string * A)) : list (string * A) :=
  match l with
  | [] => [(k, v)]
  | (k', v') :: r => if String.eqb k k' then (k, v) :: r else (k', v') :: dict_set k v r
  end.

(* ------------------------------------------------------------------ host key entries in JSON form *)
Record hkj := HKJ { j_size : Z; j_ca_type : option string; j_ca_size : option Z }.
(* _normalize_hostkey_sizes *)
Definition norm_hk (j : hkj) : hk :=
  HK (j_size j) (match j_ca_type j with Some t => t | None => "" end) (match j_ca_size j with Some n => n | None => 0 end).
(* create(): Delete the CA signature if any of its fields are empty *)
Definition trim_hk (h : hk) : hkj :=
  if (hk_ca_type h =? "")%string || (hk_ca_size h =? 0) then HKJ (hk_size h) None None
  else HKJ (hk_size h) (Some (hk_ca_type h)) (Some (hk_ca_size h)).
Definition map_snd {A B} (f : A -> B) (l : list (string * A)) : list (string * B) := map (fun kv => (fst kv, f (snd kv))) l.

(* ------------------------------------------------------------------ field setters of a Policy object *)
Definition set_name (p : policy) (v : string) : policy :=
  Build_policy (Some v) (p_version p) (p_banner p) (p_compressions p) (p_host_keys p) (p_optional_host_keys p) (p_kex p) (p_ciphers p)
               (p_macs p) (p_hostkey_sizes p) (p_dh_modulus_sizes p) (p_server_policy p) (p_subset p) (p_larger p).
Definition set_version (p : policy) (v : string) : policy :=
  Build_policy (p_name p) (Some v) (p_banner p) (p_compressions p) (p_host_keys p) (p_optional_host_keys p) (p_kex p) (p_ciphers p)
               (p_macs p) (p_hostkey_sizes p) (p_dh_modulus_sizes p) (p_server_policy p) (p_subset p) (p_larger p).
Definition set_banner (p : policy) (v : string) : policy :=
  Build_policy (p_name p) (p_version p) (Some v) (p_compressions p) (p_host_keys p) (p_optional_host_keys p) (p_kex p) (p_ciphers p)
               (p_macs p) (p_hostkey_sizes p) (p_dh_modulus_sizes p) (p_server_policy p) (p_subset p) (p_larger p).
Definition set_compressions (p : policy) (v : list string) : policy :=
  Build_policy (p_name p) (p_version p) (p_banner p) (Some v) (p_host_keys p) (p_optional_host_keys p) (p_kex p) (p_ciphers p)
               (p_macs p) (p_hostkey_sizes p) (p_dh_modulus_sizes p) (p_server_policy p) (p_subset p) (p_larger p).
Definition set_host_keys (p : policy) (v : list string) : policy :=
  Build_policy (p_name p) (p_version p) (p_banner p) (p_compressions p) (Some v) (p_optional_host_keys p) (p_kex p) (p_ciphers p)
               (p_macs p) (p_hostkey_sizes p) (p_dh_modulus_sizes p) (p_server_policy p) (p_subset p) (p_larger p).
Definition set_optional_host_keys (p : policy) (v : list string) : policy :=
  Build_policy (p_name p) (p_version p) (p_banner p) (p_compressions p) (p_host_keys p) (Some v) (p_kex p) (p_ciphers p)
               (p_macs p) (p_hostkey_sizes p) (p_dh_modulus_sizes p) (p_server_policy p) (p_subset p) (p_larger p).
Definition set_kex (p : policy) (v : list string) : policy :=
  Build_policy (p_name p) (p_version p) (p_banner p) (p_compressions p) (p_host_keys p) (p_optional_host_keys p) (Some v) (p_ciphers p)
               (p_macs p) (p_hostkey_sizes p) (p_dh_modulus_sizes p) (p_server_policy p) (p_subset p) (p_larger p).
Definition set_ciphers (p : policy) (v : list string) : policy :=
  Build_policy (p_name p) (p_version p) (p_banner p) (p_compressions p) (p_host_keys p) (p_optional_host_keys p) (p_kex p) (Some v)
               (p_macs p) (p_hostkey_sizes p) (p_dh_modulus_sizes p) (p_server_policy p) (p_subset p) (p_larger p).
Definition set_macs (p : policy) (v : list string) : policy :=
  Build_policy (p_name p) (p_version p) (p_banner p) (p_compressions p) (p_host_keys p) (p_optional_host_keys p) (p_kex p) (p_ciphers p)
               (Some v) (p_hostkey_sizes p) (p_dh_modulus_sizes p) (p_server_policy p) (p_subset p) (p_larger p).
Definition set_hostkey_sizes (p : policy) (v : list (string * hk)) : policy :=
  Build_policy (p_name p) (p_version p) (p_banner p) (p_compressions p) (p_host_keys p) (p_optional_host_keys p) (p_kex p) (p_ciphers p)
               (p_macs p) (Some v) (p_dh_modulus_sizes p) (p_server_policy p) (p_subset p) (p_larger p).
Definition set_dh (p : policy) (v : list (string * Z)) : policy :=
  Build_policy (p_name p) (p_version p) (p_banner p) (p_compressions p) (p_host_keys p) (p_optional_host_keys p) (p_kex p) (p_ciphers p)
               (p_macs p) (p_hostkey_sizes p) (Some v) (p_server_policy p) (p_subset p) (p_larger p).
Definition set_client (p : policy) : policy :=
  Build_policy (p_name p) (p_version p) (p_banner p) (p_compressions p) (p_host_keys p) (p_optional_host_keys p) (p_kex p) (p_ciphers p)
               (p_macs p) (p_hostkey_sizes p) (p_dh_modulus_sizes p) false (p_subset p) (p_larger p).
Definition set_subset (p : policy) : policy :=
  Build_policy (p_name p) (p_version p) (p_banner p) (p_compressions p) (p_host_keys p) (p_optional_host_keys p) (p_kex p) (p_ciphers p)
               (p_macs p) (p_hostkey_sizes p) (p_dh_modulus_sizes p) (p_server_policy p) true (p_larger p).
Definition set_larger (p : policy) : policy :=
  Build_policy (p_name p) (p_version p) (p_banner p) (p_compressions p) (p_host_keys p) (p_optional_host_keys p) (p_kex p) (p_ciphers p)
               (p_macs p) (p_hostkey_sizes p) (p_dh_modulus_sizes p) (p_server_policy p) (p_subset p) true.

(* Policy() before the first line: every field None, server policy, both flags False *)
Definition init_policy : policy := Build_policy None None None None None None None None None None None true false false.

(* the parser's state: the object under construction and the local variable `hostkey_size` of __init__ *)
Record pst := { st_pol : policy; st_last : option Z }.
Definition init_st : pst := {| st_pol := init_policy; st_last := None |}.
Definition with_pol (st : pst) (p : policy) : pst := {| st_pol := p; st_last := st_last st |}.

Definition valid_keys : list string :=
  ["name"; "version"; "banner"; "compressions"; "host keys"; "optional host keys"; "key exchanges"; "ciphers"; "macs"; "client policy";
   "host_key_sizes"; "dh_modulus_sizes"; "allow_algorithm_subset_and_reordering"; "allow_larger_keys"].
Definition list_keys : list string := ["compressions"; "host keys"; "optional host keys"; "key exchanges"; "ciphers"; "macs"].
Definition rsa_cert_types : list string :=
  ["ssh-rsa-cert-v01@openssh.com"; "rsa-sha2-256-cert-v01@openssh.com"; "rsa-sha2-512-cert-v01@openssh.com"].
Definition int_of (s : string) : res Z := match py_int s with Some n => Ok n | None => Raise ValueError end.
Definition or_empty {A} (o : option (list A)) : list A := match o with Some l => l | None => [] end.

(* [alg.strip() for alg in val.split(',')] *)
Definition alg_list (val : string) : list string := map strip (split_on c_comma val).

Section JSON.
Variable dumps_hk : list (string * hkj) -> string.    (* json.dumps of the trimmed host key dict *)
Variable dumps_dh : list (string * Z) -> string.      (* json.dumps of kex.dh_modulus_sizes() *)
Variable loads_hk : string -> res (list (string * hkj)).   (* json.loads of a host_key_sizes value *)
Variable loads_dh : string -> res (list (string * Z)).     (* json.loads of a dh_modulus_sizes value *)

(* ------------------------------------------------------------------ the parser: one `key = value` *)
Definition set_field (st : pst) (key val : string) : res pst :=
  let p := st_pol st in
  if negb (mem key valid_keys) && negb (starts_with "hostkey_size_" key) && negb (starts_with "cakey_size_" key)
     && negb (starts_with "dh_modulus_size_" key)
  then Raise ValueError
  else if (key =? "name")%string || (key =? "banner")%string then
    do v <- unquote val;
    Ok (with_pol st (if (key =? "name")%string then set_name p v else set_banner p v))
  else if (key =? "version")%string then Ok (with_pol st (set_version p val))
  else if mem key list_keys then
    let algs := alg_list val in
    Ok (with_pol st (if (key =? "compressions")%string then set_compressions p algs
                     else if (key =? "host keys")%string then set_host_keys p algs
                     else if (key =? "optional host keys")%string then set_optional_host_keys p algs
                     else if (key =? "key exchanges")%string then set_kex p algs
                     else if (key =? "ciphers")%string then set_ciphers p algs
                     else set_macs p algs))
  else if starts_with "hostkey_size_" key then
    do n <- int_of val;
    Ok {| st_pol := set_hostkey_sizes p (dict_set (sdrop 13 key) (HK n "" 0) (or_empty (p_hostkey_sizes p))); st_last := Some n |}
  else if starts_with "cakey_size_" key then
    do n <- int_of val;
    let t := sdrop 11 key in
    let ca_type := if mem t rsa_cert_types then "ssh-rsa" else "ssh-ed25519" in
    match st_last st with
    | None => Raise RuntimeError
    | Some hs => Ok (with_pol st (set_hostkey_sizes p (dict_set t (HK hs ca_type n) (or_empty (p_hostkey_sizes p)))))
    end
  else if (key =? "host_key_sizes")%string then
    do m <- loads_hk val; Ok (with_pol st (set_hostkey_sizes p (map_snd norm_hk m)))
  else if starts_with "dh_modulus_size_" key then
    do n <- int_of val;
    Ok (with_pol st (set_dh p (dict_set (sdrop 16 key) n (or_empty (p_dh_modulus_sizes p)))))
  else if (key =? "dh_modulus_sizes")%string then
    do m <- loads_dh val; Ok (with_pol st (set_dh p m))
  else if starts_with "client policy" key && (lower val =? "true")%string then Ok (with_pol st (set_client p))
  else if (key =? "allow_algorithm_subset_and_reordering")%string && (lower val =? "true")%string then Ok (with_pol st (set_subset p))
  else if (key =? "allow_larger_keys")%string && (lower val =? "true")%string then Ok (with_pol st (set_larger p))
  else Ok st.

(* blank or comment *)
Definition skip_line (l : string) : bool := (l =? "")%string || starts_with "#" l.

Definition parse_line (st : pst) (line : string) : res pst :=
  let l := strip line in
  if skip_line l then Ok st
  else match split_first c_eq l with
       | None => Raise ValueError
       | Some (k, v) => set_field st (strip k) (strip v)
       end.

Fixpoint parse_lines (ls : list string) (st : pst) : res pst :=
  match ls with
  | [] => Ok st
  | l :: r => do st' <- parse_line st l; parse_lines r st'
  end.

Definition finish (st : pst) : res policy :=
  match p_name (st_pol st), p_version (st_pol st) with
  | Some _, Some _ => Ok (st_pol st)
  | _, _ => Raise ValueError
  end.

Definition parse (ls : list string) : res policy := do st <- parse_lines ls init_st; finish st.
Definition parse_text (t : string) : res policy := parse (split_on c_lf t).

(* ------------------------------------------------------------------ create() *)
Definition kv (k v : string) : string := k ^^ " = " ^^ v.
Definition comma_join (l : list string) : string := join ", " l.
Definition policy_name (src today : string) : string := "Custom Policy (based on " ^^ src ^^ " on " ^^ today ^^ ")".

Definition head_lines (src today : string) (client : bool) : list string :=
  ["#"; "# Custom policy based on " ^^ src ^^ " (created on " ^^ today ^^ ")"; "#"] ++
  (if client then [""; "# Set to true to signify this is a policy for clients, not servers."; "client policy = true"; ""] else [""]) ++
  ["# The name of this policy (displayed in the output during scans).  Must be in quotes.";
   kv "name" (quote ^^ policy_name src today ^^ quote);
   "";
   "# The version of this policy (displayed in the output during scans).  Not parsed, and may be any value, including strings.";
   "version = 1";
   "";
   "# When false, host keys, kex, ciphers, and MAC lists must match exactly.  When true, the target host may support a subset of the specified algorithms and/or algorithms may appear in a different order; this feature is useful for specifying a baseline and allowing some hosts the option to implement stricter controls.";
   "allow_algorithm_subset_and_reordering = false";
   "";
   "# When false, host keys, CA keys, and Diffie-Hellman key sizes must exactly match what's specified in this policy.  When true, target systems are allowed to have larger keys; this feature is useful for specifying a baseline and allowing some hosts the option to implement stricter controls.";
   "allow_larger_keys = false";
   ""].

Definition ignored_lines (pr : peer) : list string :=
  ["# The banner that must match exactly.  Commented out to ignore banners, since minor variability in the banner is sometimes normal.";
   "# banner = " ^^ quote ^^ pr_banner pr ^^ quote;
   "";
   "# The compression options that must match exactly (order matters).  Commented out to ignore by default.";
   "# compressions = " ^^ comma_join (pr_compression pr)].

Definition size_lines (pr : peer) : list string :=
  (match pr_host_keys pr with
   | [] => []
   | m => ["";
           "# Dictionary containing all host key and size information.  Optionally contains the certificate authority's signature algorithm ('ca_key_type') and signature length ('ca_key_size'), if any.";
           kv "host_key_sizes" (dumps_hk (map_snd trim_hk m))]
   end) ++
  (match pr_dh_modulus_sizes pr with
   | [] => []
   | m => [""; "# Group exchange DH modulus sizes."; kv "dh_modulus_sizes" (dumps_dh m)]
   end).

Definition alg_lines (pr : peer) : list string :=
  ["";
   "# The host key types that must match exactly (order matters).";
   kv "host keys" (comma_join (pr_key pr));
   "";
   "# Host key types that may optionally appear.";
   "#optional host keys = ssh-ed25519-cert-v01@openssh.com,sk-ssh-ed25519@openssh.com,sk-ssh-ed25519-cert-v01@openssh.com,rsa-sha2-256-cert-v01@openssh.com,rsa-sha2-512-cert-v01@openssh.com";
   "";
   "# The key exchange algorithms that must match exactly (order matters).";
   kv "key exchanges" (comma_join (pr_kex pr));
   "";
   "# The ciphers that must match exactly (order matters).";
   kv "ciphers" (comma_join (pr_enc pr));
   "";
   "# The MACs that must match exactly (order matters).";
   kv "macs" (comma_join (pr_mac pr));
   ""].

Definition create_lines (src today : string) (client : bool) (pr : peer) : list string :=
  head_lines src today client ++ ignored_lines pr ++ size_lines pr ++ alg_lines pr.
Definition create_text (src today : string) (client : bool) (pr : peer) : string := join nl (create_lines src today client pr).

End JSON.

(* the lines the parser does not skip (for the correspondence: what a reader of the file sees as settings) *)
Definition setting_lines (ls : list string) : list string := filter (fun l => negb (skip_line (strip l))) ls.

(* ================================================================== SPEC
   Written from the property statement: a policy made from a peer lists the peer's host keys, key exchanges,
   ciphers and MACs in order, the peer's host-key / CA sizes (CA only when the peer has one) and group-exchange
   modulus sizes, ignores banner and compressions, and uses the default exact-match settings. *)
Definition opt_map_nonempty {A} (l : list A) : option (list A) := match l with [] => None | _ => Some l end.
Definition policy_of (src today : string) (client : bool) (pr : peer) : policy :=
  {| p_name := Some (unescape (policy_name src today)); p_version := Some "1"; p_banner := None; p_compressions := None;
     p_host_keys := Some (pr_key pr); p_optional_host_keys := None; p_kex := Some (pr_kex pr);
     p_ciphers := Some (pr_enc pr); p_macs := Some (pr_mac pr);
     p_hostkey_sizes := opt_map_nonempty (map_snd (fun h => norm_hk (trim_hk h)) (pr_host_keys pr));
     p_dh_modulus_sizes := opt_map_nonempty (pr_dh_modulus_sizes pr);
     p_server_policy := negb client; p_subset := false; p_larger := false |}.

(* well-formed inputs of the round trip: names as in RFC 4251 section 6 but for the length limit - ASCII, no
   comma, no line feed, no white space at either end ('=', '+', '/', '@', inner blanks allowed); the empty name is
   allowed (an empty name-list arrives as ['']); lists are never [] (str.split never returns []) *)
Fixpoint forall_c (f : ascii -> bool) (s : string) : bool :=
  match s with EmptyString => true | String c r => f c && forall_c f r end.
Definition is_ascii (c : ascii) : bool := (nat_of_ascii c <? 128)%nat.
Definition no_lf (s : string) : bool := forall_c (fun c => negb (Ascii.eqb c c_lf)) s.
Definition wf_name (s : string) : bool :=
  forall_c (fun c => is_ascii c && negb (Ascii.eqb c c_comma) && negb (Ascii.eqb c c_lf)) s && (strip s =? s)%string.
Definition wf_names (l : list string) : bool := negb (match l with [] => true | _ => false end) && forallb wf_name l.
Definition wf_peer (pr : peer) : bool :=
  no_lf (pr_banner pr) && forallb no_lf (pr_compression pr) &&
  wf_names (pr_kex pr) && wf_names (pr_key pr) && wf_names (pr_enc pr) && wf_names (pr_mac pr) &&
  nodup_str (keys (pr_host_keys pr)) && nodup_str (keys (pr_dh_modulus_sizes pr)).

(* what the theorems assume of the json module: loads inverts dumps on dicts (unique keys), and the dumped text is one
   line without outer white space (json.dumps output starts with a brace and escapes control characters) *)
Definition json_inverse {A} (dumps : list (string * A) -> string) (loads : string -> res (list (string * A))) : Prop :=
  forall m, nodup_str (keys m) = true -> loads (dumps m) = Ok m /\ strip (dumps m) = dumps m /\ no_lf (dumps m) = true.
(* the source (host name) and the date go into the name line *)
Definition wf_text (s : string) : bool := no_lf s.

(* a peer that differs from pr in ONE covered attribute, and the field an error must name *)
Definition with_kex (pr : peer) (l : list string) : peer :=
  Build_peer (pr_banner pr) (pr_compression pr) l (pr_key pr) (pr_enc pr) (pr_mac pr) (pr_host_keys pr) (pr_dh_modulus_sizes pr).
Definition with_key (pr : peer) (l : list string) : peer :=
  Build_peer (pr_banner pr) (pr_compression pr) (pr_kex pr) l (pr_enc pr) (pr_mac pr) (pr_host_keys pr) (pr_dh_modulus_sizes pr).
Definition with_enc (pr : peer) (l : list string) : peer :=
  Build_peer (pr_banner pr) (pr_compression pr) (pr_kex pr) (pr_key pr) l (pr_mac pr) (pr_host_keys pr) (pr_dh_modulus_sizes pr).
Definition with_mac (pr : peer) (l : list string) : peer :=
  Build_peer (pr_banner pr) (pr_compression pr) (pr_kex pr) (pr_key pr) (pr_enc pr) l (pr_host_keys pr) (pr_dh_modulus_sizes pr).
Definition with_host_keys (pr : peer) (m : list (string * hk)) : peer :=
  Build_peer (pr_banner pr) (pr_compression pr) (pr_kex pr) (pr_key pr) (pr_enc pr) (pr_mac pr) m (pr_dh_modulus_sizes pr).
Definition with_dh (pr : peer) (m : list (string * Z)) : peer :=
  Build_peer (pr_banner pr) (pr_compression pr) (pr_kex pr) (pr_key pr) (pr_enc pr) (pr_mac pr) (pr_host_keys pr) m.

(* the three list perturbations of the statement *)
Inductive list_drift : list string -> list string -> Prop :=
| LD_add l1 x l2 : list_drift (l1 ++ l2) (l1 ++ x :: l2)
| LD_remove l1 x l2 : list_drift (l1 ++ x :: l2) (l1 ++ l2)
| LD_reorder l l' : Permutation l l' -> l <> l' -> list_drift l l'.

(* the policy covers the CA of an entry when the peer has one: type not empty and size > 0 *)
Definition has_ca (h : hk) : Prop := hk_ca_type h <> "" /\ 0 < hk_ca_size h.

(* drift pr pr' e: pr' is pr with one covered attribute changed; e is the error evaluate must report *)
Inductive drift (pr : peer) : peer -> perr -> Prop :=
| D_kex l' : pr_kex pr <> l' -> drift pr (with_kex pr l') (PErr "Key exchanges" (pr_kex pr) [""] l')
| D_key l' : pr_key pr <> l' -> drift pr (with_key pr l') (PErr "Host keys" (pr_key pr) [""] l')
| D_enc l' : pr_enc pr <> l' -> drift pr (with_enc pr l') (PErr "Ciphers" (pr_enc pr) [""] l')
| D_mac l' : pr_mac pr <> l' -> drift pr (with_mac pr l') (PErr "MACs" (pr_mac pr) [""] l')
| D_hk_size t h s' : assoc t (pr_host_keys pr) = Some h -> s' <> hk_size h ->
    drift pr (with_host_keys pr (update t (fun _ => HK s' (hk_ca_type h) (hk_ca_size h)) (pr_host_keys pr)))
          (PErr ("Host key (" ^^ t ^^ ") sizes") [z_dec (hk_size h)] [""] [z_dec s'])
| D_ca_size t h s' : assoc t (pr_host_keys pr) = Some h -> has_ca h -> s' <> hk_ca_size h ->
    drift pr (with_host_keys pr (update t (fun _ => HK (hk_size h) (hk_ca_type h) s') (pr_host_keys pr)))
          (PErr ("CA signature size (" ^^ hk_ca_type h ^^ ")") [z_dec (hk_ca_size h)] [""] [z_dec s'])
| D_ca_type t h ty' : assoc t (pr_host_keys pr) = Some h -> has_ca h -> ty' <> hk_ca_type h ->
    drift pr (with_host_keys pr (update t (fun _ => HK (hk_size h) ty' (hk_ca_size h)) (pr_host_keys pr)))
          (PErr "CA signature type" [hk_ca_type h] [""] [ty'])
| D_dh t s s' : assoc t (pr_dh_modulus_sizes pr) = Some s -> s' <> s ->
    drift pr (with_dh pr (update t (fun _ => s') (pr_dh_modulus_sizes pr)))
          (PErr ("Group exchange (" ^^ t ^^ ") modulus sizes") [z_dec s] [""] [z_dec s']).

(* ------------------------------------------------------------------ built-in policies (VGen.Tables.builtin_policies) *)
Definition rawpolicy_t := (string * (string * bool * (option string * option (list string) * option (list string) * option (list string)
  * option (list string) * option (list string) * option (list string) * option (list (string * Z * string * Z)) * option (list (string * Z)))))%type.
Definition raw_hk (e : string * Z * string * Z) : string * hk :=
  match e with (t, size, ca_type, ca_size) => (t, HK size ca_type ca_size) end.
(* load_builtin_policy (the code cuts the version suffix off the name; evaluate does not read the name) *)
Definition policy_of_raw (r : rawpolicy_t) : policy :=
  match r with
  | (name, (version, server, (banner, comps, host_keys, optional, kex, ciphers, macs, hks, dh))) =>
      Build_policy (Some name) (Some version) banner comps host_keys optional kex ciphers macs (option_map (map raw_hk) hks) dh server false false
  end.
(* a peer configured exactly as the policy lists: its lists, its key and modulus sizes *)
Definition peer_of_policy (p : policy) (extra_keys : list string) : peer :=
  Build_peer (match p_banner p with Some b => b | None => "SSH-2.0-OpenSSH_9.9" end)
             (match p_compressions p with Some c => c | None => ["none"; "zlib@openssh.com"] end)
             (or_empty (p_kex p)) (or_empty (p_host_keys p) ++ extra_keys) (or_empty (p_ciphers p)) (or_empty (p_macs p))
             (or_empty (p_hostkey_sizes p)) (or_empty (p_dh_modulus_sizes p)).
Definition peer_of_raw (r : rawpolicy_t) : peer := peer_of_policy (policy_of_raw r) [].
(* ... that also offers every optional host key type of the policy *)
Definition peer_of_raw_all (r : rawpolicy_t) : peer :=
  let p := policy_of_raw r in peer_of_policy p (or_empty (p_optional_host_keys p)).
Definition passes (p : policy) (pr : peer) : bool :=
  match evaluate p pr with (true, []) => true | _ => false end.

(* ------------------------------------------------------------------ comparison helpers for the correspondence case files *)
Definition hk_eqb (a b : hk) : bool :=
  (hk_size a =? hk_size b) && String.eqb (hk_ca_type a) (hk_ca_type b) && (hk_ca_size a =? hk_ca_size b).
Definition hkj_eqb (a b : hkj) : bool :=
  (j_size a =? j_size b) && opt_eqb String.eqb (j_ca_type a) (j_ca_type b) && opt_eqb Z.eqb (j_ca_size a) (j_ca_size b).
Definition dict_eqb {A} (eqb : A -> A -> bool) : list (string * A) -> list (string * A) -> bool :=
  list_eqb (pair_eqb String.eqb eqb).
Definition policy_eqb (a b : policy) : bool :=
  opt_eqb String.eqb (p_name a) (p_name b) && opt_eqb String.eqb (p_version a) (p_version b) &&
  opt_eqb String.eqb (p_banner a) (p_banner b) && opt_eqb strs_eqb (p_compressions a) (p_compressions b) &&
  opt_eqb strs_eqb (p_host_keys a) (p_host_keys b) && opt_eqb strs_eqb (p_optional_host_keys a) (p_optional_host_keys b) &&
  opt_eqb strs_eqb (p_kex a) (p_kex b) && opt_eqb strs_eqb (p_ciphers a) (p_ciphers b) && opt_eqb strs_eqb (p_macs a) (p_macs b) &&
  opt_eqb (dict_eqb hk_eqb) (p_hostkey_sizes a) (p_hostkey_sizes b) &&
  opt_eqb (dict_eqb Z.eqb) (p_dh_modulus_sizes a) (p_dh_modulus_sizes b) &&
  Bool.eqb (p_server_policy a) (p_server_policy b) && Bool.eqb (p_subset a) (p_subset b) && Bool.eqb (p_larger a) (p_larger b).
(* json.loads / json.dumps observed on the implementation side, as finite tables *)
Definition tbl_loads {A} (t : list (string * res A)) (s : string) : res A :=
  match assoc s t with Some r => r | None => Raise KeyError end.
Definition tbl_dumps {A} (eqb : A -> A -> bool) (t : list (list (string * A) * string)) (m : list (string * A)) : string :=
  match find (fun e => dict_eqb eqb (fst e) m) t with Some e => snd e | None => "<json.dumps: value not observed>" end.
(* text compared by length and the two running sums of PolicyM.str_sums *)
Definition text_hash_eqb (s : string) (len sa sb : Z) : bool :=
  (Z.of_nat (String.length s) =? len) && (let (a, b) := str_sums s 0 0 in (a =? sa) && (b =? sb)).
