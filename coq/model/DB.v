(* The rating database as the code sees it: raw nested lists, indexed positionally. *)
From VModel Require Export Base.
From VGen Require Export Tables.
Open Scope string_scope. Open Scope list_scope.

Definition desc := list (list (option string)).
Definition category := list (string * desc).
Definition db := list (string * category).

Definition db_cat (d : db) (c : string) : category :=
  match assoc c d with Some x => x | None => [] end.
Definition db_get (d : db) (c n : string) : option desc := assoc n (db_cat d c).

(* alg_desc[i] if len(alg_desc) > i else [] ; None leaves skipped (output_algorithm) *)
Definition somes (l : list (option string)) : list string :=
  flat_map (fun o => match o with Some s => [s] | None => [] end) l.
Definition comp (e : desc) (i : nat) : list string := somes (nth i e []).
Definition versions (e : desc) : list (option string) := nth 0 e [].
Definition fails (e : desc) := comp e 1.
Definition warns (e : desc) := comp e 2.
Definition infos (e : desc) := comp e 3.
Definition has_fail (e : desc) : bool := match fails e with [] => false | _ => true end.
Definition has_warn (e : desc) : bool := match warns e with [] => false | _ => true end.
