(* C16 - identification strings: Banner.parse / Banner.__str__ (banner.py), Utils.to_print_ascii /
   is_print_ascii (utils.py), the header/banner separation loop of SSH_Socket.get_banner
   (ssh_socket.py) and Software.parse product recognition (software.py).
   Executable definitions only.  The regular-expression engine is NOT modelled: `parse_ascii`,
   `ver_split`, `openssh_split` are hand-written recognisers for RX_BANNER and the product
   expressions; the correspondence check (harness/props/c16.py) is what ties them to `re`. *)
From VModel Require Export Base.
Open Scope string_scope. Open Scope list_scope.

(* ---- characters ---- *)
Definition is_digit (c : ascii) : bool := (48 <=? code c)%nat && (code c <=? 57)%nat.
(* after to_print_ascii the only character that \s can match is the space *)
Definition is_space (c : ascii) : bool := Ascii.eqb c " ".
Definition not_space (c : ascii) : bool := negb (is_space c).

Fixpoint span (p : ascii -> bool) (s : string) : string * string :=
  match s with
  | EmptyString => (EmptyString, EmptyString)
  | String c r => if p c then let (a, b) := span p r in (String c a, b) else (EmptyString, s)
  end.
Fixpoint all_str (p : ascii -> bool) (s : string) : bool :=
  match s with EmptyString => true | String c r => p c && all_str p r end.
Fixpoint strip_prefix (p s : string) : option string :=
  match p, s with
  | EmptyString, _ => Some s
  | String a p', String b s' => if Ascii.eqb a b then strip_prefix p' s' else None
  | String _ _, EmptyString => None
  end.
Fixpoint sdrop (n : nat) (s : string) : string :=
  match n, s with
  | O, _ => s
  | S k, String _ r => sdrop k r
  | S _, EmptyString => EmptyString
  end.
Definition nonempty (s : string) : bool := match s with EmptyString => false | _ => true end.

(* ---- utils.py: _to_ascii / _is_ascii with the printable filter, over code points ---- *)
Definition printable (z : Z) : bool := (32 <=? z)%Z && (z <=? 126)%Z.
Definition pchar (z : Z) : ascii := if printable z then ascii_of_nat (Z.to_nat z) else "?"%char.
Definition to_print_ascii (l : list Z) : string := of_chars (map pchar l).
Definition is_print_ascii (l : list Z) : bool := forallb printable l.
Definition cps (s : string) : list Z := map (fun c => Z.of_nat (code c)) (chars s).

(* ---- banner.py ---- *)
Record parts := mkP { p_major : ascii; p_minor : string; p_software : option string; p_comments : option string }.

(* one protocol token  SSH-\d\.\s*?\d+  at the start of s: (major digit, minor digits, rest) *)
Definition proto (s : string) : option (ascii * string * string) :=
  match strip_prefix "SSH-" s with
  | Some (String d (String dot r)) =>
      if is_digit d && Ascii.eqb dot "." then
        let (ds, r2) := span is_digit (snd (span is_space r)) in
        match ds with EmptyString => None | _ => Some (d, ds, r2) end
      else None
  | _ => None
  end.

Definition tok := (ascii * string)%type.

(* (?:-P)* followed by the optional rest group and $, with the regex's preference order:
   extend the chain when the continuation can still match, otherwise the rest group starts here.
   s is the text after a protocol token; result = further tokens and the text of the rest group
   ("" or starting with "-").  None = no match.  fuel = String.length s is always enough. *)
Fixpoint chain (fuel : nat) (s : string) : option (list tok * string) :=
  match s with
  | EmptyString => Some ([], EmptyString)
  | String c r =>
      if Ascii.eqb c "-" then
        match fuel with
        | O => Some ([], s)
        | S f =>
            match proto r with
            | Some (d, ds, r2) =>
                match chain f r2 with
                | Some (l, e) => Some ((d, ds) :: l, e)
                | None => Some ([], s)
                end
            | None => Some ([], s)
            end
        end
      else None
  end.

(* min() over tuples of str: code-point order, first minimum *)
Definition tok_ltb (a b : tok) : bool :=
  match Ascii.compare (fst a) (fst b) with
  | Lt => true
  | Gt => false
  | Eq => match String.compare (snd a) (snd b) with Lt => true | _ => false end
  end.
Fixpoint tok_min (m : tok) (l : list tok) : tok :=
  match l with [] => m | t :: r => tok_min (if tok_ltb t m then t else m) r end.

(* str(int(ds)) for a digit string *)
Fixpoint strip0 (s : string) : string :=
  match s with String c r => if Ascii.eqb c "0" then strip0 r else s | EmptyString => EmptyString end.
Definition canon (s : string) : string := match strip0 s with EmptyString => "0" | t => t end.
Definition digit_val (c : ascii) : Z := Z.of_nat (code c) - 48.
Fixpoint dec_acc (s : string) (acc : Z) : Z :=
  match s with EmptyString => acc | String c r => dec_acc r (10 * acc + digit_val c) end.
Definition dec_val (s : string) : Z := dec_acc s 0.

(* Python s.split(' ') *)
Fixpoint split_sp (s : string) : list string :=
  match s with
  | EmptyString => [EmptyString]
  | String c r =>
      if is_space c then EmptyString :: split_sp r
      else match split_sp r with [] => [String c EmptyString] | w :: ws => String c w :: ws end
  end.
Definition words (s : string) : list string := filter nonempty (split_sp s).
(* (group4 or '').strip() or None, then re.sub('\s+', ' ') *)
Definition norm_comments (t : string) : option string :=
  match words t with [] => None | ws => Some (join " " ws) end.

(* the rest group of RX_BANNER (dash, spaces, software token, optionally spaces and comments) applied to "" or "-..." *)
Definition rpart (e : string) : option string * option string :=
  match e with
  | EmptyString => (None, None)
  | String _ t =>
      let (sw, t2) := span not_space (snd (span is_space t)) in
      (Some sw, norm_comments t2)
  end.

Definition parse_ascii (s : string) : option parts :=
  match proto s with
  | None => None
  | Some (d, ds, r) =>
      match chain (String.length r) r with
      | None => None
      | Some (l, e) =>
          let m := tok_min (d, ds) l in
          let (sw, cm) := rpart e in
          Some (mkP (fst m) (canon (snd m)) sw cm)
      end
  end.

(* Banner.parse on a str given as code points: (parts, valid_ascii) *)
Definition parse (l : list Z) : option (parts * bool) :=
  match parse_ascii (to_print_ascii l) with
  | Some p => Some (p, is_print_ascii l)
  | None => None
  end.

(* Banner.__str__ *)
Definition show (b : parts) : string :=
  "SSH-" ++ String (p_major b) ("." ++ p_minor b)
  ++ match p_software b with Some s => "-" ++ s | None => "" end
  ++ match p_comments b with Some c => if nonempty c then " " ++ c else "" | None => "" end.

(* ---- ssh_socket.py get_banner: lines of one received chunk, header/banner separation ----
   Bytes are 7-bit here
   (UTF-8 decoding is the identity); Banner.parse above covers all code points. *)
Definition is_bws (z : Z) : bool := ((z =? 32) || ((9 <=? z) && (z <=? 13)))%Z.      (* bytes.rstrip() *)
Definition is_uws (z : Z) : bool :=                                                  (* str.strip() *)
  (is_bws z || ((28 <=? z) && (z <=? 31)) || (z =? 133) || (z =? 160) || (z =? 5760)
   || ((8192 <=? z) && (z <=? 8202)) || (z =? 8232) || (z =? 8233) || (z =? 8239) || (z =? 8287) || (z =? 12288))%Z.
Fixpoint dropw (p : Z -> bool) (l : list Z) : list Z :=
  match l with [] => [] | x :: r => if p x then dropw p r else l end.
Definition rstrip (l : list Z) : list Z := rev (dropw is_bws (rev l)).
(* BytesIO.readline() until the chunk is exhausted *)
Fixpoint raw_lines (s : list Z) : list (list Z) :=
  match s with
  | [] => []
  | c :: r =>
      if (c =? 10)%Z then [c] :: raw_lines r
      else match raw_lines r with [] => [[c]] | l :: ls => (c :: l) :: ls end
  end.
Definition lines_of_chunk (c : list Z) : list (list Z) := map rstrip (raw_lines c).
Definition blank (l : list Z) : bool := forallb is_uws l.
Fixpoint banner_loop (ls : list (list Z)) : option (parts * bool) * list (list Z) :=
  match ls with
  | [] => (None, [])
  | l :: r =>
      if blank l then banner_loop r
      else match parse l with
           | Some b => (Some b, [])
           | None => let (b, h) := banner_loop r in (b, l :: h)
           end
  end.
(* complete lines (terminated by LF) of the unread data, and the unterminated rest *)
Fixpoint split_complete (s : list Z) : list (list Z) * list Z :=
  match s with
  | [] => ([], [])
  | c :: r =>
      let (ls, p) := split_complete r in
      if (c =? 10)%Z then ([c] :: ls, p)
      else match ls with [] => ([], c :: p) | l :: ls' => ((c :: l) :: ls', p) end
  end.
(* get_banner after commit ddbb5b8: after every recv() only complete lines are consumed, the
   unterminated rest waits for the next segment; when the stream ends (close / timeout) what is
   left is read as lines.  Returns at the first line that parses.  Chunks are non-empty. *)
Fixpoint gb_loop (pend : list Z) (chunks : list (list Z)) : option (parts * bool) * list (list Z) :=
  match chunks with
  | [] => banner_loop (lines_of_chunk pend)
  | c :: r =>
      let (ls, p) := split_complete (pend ++ c) in
      match banner_loop (map rstrip ls) with
      | (Some b, h) => (Some b, h)
      | (None, h) => let (b, h2) := gb_loop p r in (b, h ++ h2)
      end
  end.
Definition get_banner (chunks : list (list Z)) : option (parts * bool) * list (list Z) := gb_loop [] chunks.

(* a stream of lines, each terminated by CR LF (true) or LF (false) *)
Definition eol (crlf : bool) : list Z := if crlf then [13; 10]%Z else [10]%Z.
Fixpoint encode_lines (ls : list (list Z * bool)) : list Z :=
  match ls with [] => [] | (l, e) :: r => l ++ eol e ++ encode_lines r end.

(* ---- software.py Software.parse: vendor, product, version, patch (os is not modelled) ---- *)
Record software := mkS { s_vendor : option string; s_product : string; s_version : string; s_patch : option string }.

Definition is_dot (c : ascii) : bool := Ascii.eqb c ".".
Definition is_vd (c : ascii) : bool := is_digit c || is_dot c.
Definition is_sep (c : ascii) : bool := Ascii.eqb c "_" || is_dot c || Ascii.eqb c "-".
Fixpoint trim_dots (s : string) : string :=
  match s with
  | EmptyString => EmptyString
  | String c r => match trim_dots r with
                  | EmptyString => if is_dot c then EmptyString else String c EmptyString
                  | t => String c t
                  end
  end.
(* the version expression [\d\.]+\d+ followed by any-rest, at the start of s: the longest run of digits and dots, cut after its last
   digit, at least two characters (greedy [\d\.]+ gives back until \d+ can match) *)
Definition ver_split (s : string) : option (string * string) :=
  let v := trim_dots (fst (span is_vd s)) in
  if (2 <=? String.length v)%nat then Some (v, sdrop (String.length v) s) else None.
(* re.sub('^[-_\.]+', '', patch) or None *)
Definition fix_patch (p : string) : option string :=
  match snd (span is_sep p) with EmptyString => None | t => Some t end.
Definition fam (pre s : string) : option (string * string) :=
  match strip_prefix pre s with Some t => ver_split t | None => None end.
(* OpenSSH[_\.-]+ then the version expression: the separator run gives characters back while the version fails *)
Fixpoint sep_try (k : nat) (t : string) : option (string * string) :=
  match k with
  | O => None
  | S k' => match ver_split (sdrop k t) with Some r => Some r | None => sep_try k' t end
  end.
Definition openssh_split (s : string) : option (string * string) :=
  match strip_prefix "OpenSSH" s with
  | Some t => sep_try (String.length (fst (span is_sep t))) t
  | None => None
  end.

Definition sw_parse_str (s : string) : option software :=
  match fam "dropbear_" s with Some (v, p) => Some (mkS None "Dropbear SSH" v (fix_patch p)) | None =>
  match openssh_split s with Some (v, p) => Some (mkS None "OpenSSH" v (fix_patch p)) | None =>
  match fam "libssh-" s with Some (v, p) => Some (mkS None "libssh" v (fix_patch p)) | None =>
  match fam "libssh_" s with Some (v, p) => Some (mkS None "libssh" v (fix_patch p)) | None =>
  match fam "RomSShell_" s with Some (v, p) => Some (mkS (Some "Allegro Software") "RomSShell" v (fix_patch p)) | None =>
  match fam "mpSSH_" s with Some (v, _) => Some (mkS (Some "HP") "iLO (Integrated Lights-Out) sshd" v None) | None =>
  match fam "Cisco-" s with Some (v, _) => Some (mkS (Some "Cisco") "IOS/PIX sshd" v None) | None =>
  match strip_prefix "tinyssh_" s with Some v => Some (mkS None "TinySSH" v None) | None =>
  match strip_prefix "PuTTY_Release_" s with Some v => Some (mkS None "PuTTY" v None) | None =>
  match strip_prefix "lancom" s with Some v => Some (mkS (Some "LANcom") "LCOS sshd" v None) | None =>
  None end end end end end end end end end end.
(* software = str(banner.software): None becomes the text "None" *)
Definition sw_parse (b : parts) : option software :=
  sw_parse_str (match p_software b with Some s => s | None => "None" end).

(* ---- equality tests for the case files ---- *)
Definition ostr_eqb := opt_eqb String.eqb.
Definition parts_eqb (a b : parts) : bool :=
  Ascii.eqb (p_major a) (p_major b) && String.eqb (p_minor a) (p_minor b)
  && ostr_eqb (p_software a) (p_software b) && ostr_eqb (p_comments a) (p_comments b).
Definition banner_eqb (a b : parts * bool) : bool := parts_eqb (fst a) (fst b) && Bool.eqb (snd a) (snd b).
Definition software_eqb (a b : software) : bool :=
  ostr_eqb (s_vendor a) (s_vendor b) && String.eqb (s_product a) (s_product b)
  && String.eqb (s_version a) (s_version b) && ostr_eqb (s_patch a) (s_patch b).
(* what the harness observes of a Banner object: protocol as integers, software, comments, flag, str() *)
Definition obs_eqb (r : option (parts * bool)) (exp : option (Z * Z * option string * option string * bool * string)) : bool :=
  match r, exp with
  | None, None => true
  | Some (p, v), Some (mj, mn, sw, cm, va, st) =>
      (digit_val (p_major p) =? mj)%Z && (dec_val (p_minor p) =? mn)%Z
      && ostr_eqb (p_software p) sw && ostr_eqb (p_comments p) cm && Bool.eqb v va && String.eqb (show p) st
  | _, _ => false
  end.
Definition gb_eqb (r : option (parts * bool) * list (list Z))
                  (exp : option (Z * Z * option string * option string * bool * string) * list (list Z)) : bool :=
  obs_eqb (fst r) (fst exp) && list_eqb zs_eqb (snd r) (snd exp).

(* ---- vocabulary of the theorem statements (specification side, not code) ---- *)
Fixpoint spaces (n : nat) : string := match n with O => EmptyString | S k => String " " (spaces k) end.
(* comments as written on the line: words separated (and preceded) by 1+gap blanks, then `trail` blanks *)
Fixpoint tail (gw : list (nat * string)) (trail : nat) : string :=
  match gw with [] => spaces trail | (n, w) :: r => spaces (S n) ++ w ++ tail r trail end.
(* SSH-<maj>.<min>-<sw><comments> *)
Definition line (maj : ascii) (min sw : string) (gw : list (nat * string)) (trail : nat) : string :=
  "SSH-" ++ String maj ("." ++ min ++ "-" ++ sw ++ tail gw trail).
Definition word_ok (w : string) : Prop := all_str not_space w = true /\ w <> EmptyString.
Definition wf_line (maj : ascii) (min sw : string) (gw : list (nat * string)) : Prop :=
  is_digit maj = true /\ all_str is_digit min = true /\ min <> EmptyString
  /\ all_str not_space sw = true /\ (sw = EmptyString -> gw = []) /\ Forall (fun x => word_ok (snd x)) gw.
Definition comments_of (gw : list (nat * string)) : option string :=
  match gw with [] => None | _ => Some (join " " (map snd gw)) end.
(* the text after the dash starts with a protocol token that is followed by "-" or by the end of the
   line: the multi-protocol prefix rule of RX_BANNER takes it as part of the protocol chain *)
Definition absorbs (t : string) : bool :=
  match proto t with
  | Some (_, _, r2) => match r2 with EmptyString => true | String c _ => Ascii.eqb c "-" end
  | None => false
  end.
(* the text str(banner) puts after "SSH-x.y-" *)
Definition shown_rest (b : parts) : string :=
  match p_software b with
  | Some s => s ++ match p_comments b with Some c => if nonempty c then " " ++ c else "" | None => "" end
  | None => EmptyString
  end.
Definition printable_char (c : ascii) : bool := (32 <=? code c)%nat && (code c <=? 126)%nat.
Definition in_range (z : Z) : Prop := (32 <= z <= 126)%Z.
Definition nonblank (l : list Z) : bool := negb (blank l).
(* version text of the product expressions: digits and dots, at least two characters, last one a digit *)
Fixpoint last_digit (s : string) : bool :=
  match s with
  | EmptyString => false
  | String c EmptyString => is_digit c
  | String _ r => last_digit r
  end.
Definition first_ok (p : ascii -> bool) (s : string) : bool := match s with EmptyString => false | String c _ => p c end.
Definition head_not (p : ascii -> bool) (s : string) : bool := match s with EmptyString => true | String c _ => negb (p c) end.
Definition ver_ok (v : string) : Prop := all_str is_vd v = true /\ last_digit v = true /\ (2 <= String.length v)%nat.
(* what follows the version does not start with a digit or a dot *)
Definition patch_ok (p : string) : Prop := head_not is_vd p = true.
