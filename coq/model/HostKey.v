(* Host-key probing: kexdh.py KexDH.recv_reply / __parse_ca_key / __get_bytes / __adjust_key_size,
   hostkeytest.py HostKeyTest.perform_test (decision logic, RSA-family fan-out, database edits) and the
   fingerprint selection of ssh_audit.py output_fingerprints / build_struct.
   Bytes are `list Z` as in Wire.v.  Executable definitions only. *)
From VModel Require Export Wire Terrapin.
Open Scope string_scope. Open Scope list_scope. Open Scope Z_scope.

(* ---- KexDH.__get_bytes(buf, ptr): the code keeps a pointer into an immutable buffer; the model keeps the
        suffix buf[ptr:].  Python slices never raise and are clamped (Wire.take / Wire.drop); struct.unpack on a
        slice shorter than four bytes raises struct.error.  Returns (bytes, DECLARED length, rest). ---- *)
Definition get_bytes (buf : list Z) : res (list Z * Z * list Z) :=
  do (n, r) <- dec_u32 buf; Ok (take n r, n, drop n r).

(* bytes.decode('ascii') *)
Definition ascii_ok (l : list Z) : bool := forallb (fun b => (0 <=? b) && (b <? 128)) l.
Definition str_of (l : list Z) : string := of_chars (map (fun b => ascii_of_nat (Z.to_nat b)) l).
Definition decode_ascii (l : list Z) : res string := if ascii_ok l then Ok (str_of l) else Raise UnicodeDecodeError.
Definition bytes_of (s : string) : list Z := map (fun c => Z.of_nat (nat_of_ascii c)) (chars s).

(* int(binascii.hexlify(b), 16): ValueError on the empty string; the value itself is only used for the
   certificate type *)
Definition nonempty_or_valueerror {A} (l : list Z) (k : res A) : res A :=
  match l with [] => Raise ValueError | _ => k end.

Definition t_rsa_cert_prefix : string := "ssh-rsa-cert-v0".
Definition t_ed25519_cert_prefix : string := "ssh-ed25519-cert-v0".
Definition t_ecdsa_prefix : string := "ecdsa-sha2-nistp".

(* __parse_ca_key(hostkey, hostkey_type, ptr) on the suffix hostkey[ptr:] -> (ca_key_type, ca_key_n_len) *)
Definition parse_ca_blob (ca_key : list Z) : res (string * Z) :=
  do (tb, _, c) <- get_bytes ca_key;
  do ca_type <- decode_ascii tb;
  if String.eqb ca_type "ssh-ed25519" then Ok (ca_type, 32)
  else
    do (_, _, c) <- get_bytes c;                 (* exponent / curve name *)
    do (n, nlen, _) <- get_bytes c;              (* modulus / curve point *)
    if starts_with t_ecdsa_prefix ca_type && (0 <? nlen) then
      match n with
      | [] => Raise IndexError                    (* ca_key_n[0] on an empty slice *)
      | b0 :: _ => if b0 =? 4 then Ok (ca_type, (nlen - 1) / 2) else Ok (ca_type, nlen)
      end
    else Ok (ca_type, nlen).

Definition parse_ca_key (rem : list Z) : res (string * Z) :=
  let rem := drop 8 rem in                         (* serial *)
  let ct := take 4 rem in                          (* hostkey[ptr:ptr+4]: may be short *)
  nonempty_or_valueerror ct (
    let rem := drop 4 rem in
    if val ct =? 2 then
      do (_, _, rem) <- get_bytes rem;             (* key id *)
      do (_, _, rem) <- get_bytes rem;             (* principals *)
      let rem := drop 16 rem in                    (* valid after, valid before *)
      do (_, _, rem) <- get_bytes rem;             (* critical options *)
      do (_, _, rem) <- get_bytes rem;             (* extensions *)
      do (_, _, rem) <- get_bytes rem;             (* reserved ("another nonce") *)
      do (ca_key, _, _) <- get_bytes rem;
      parse_ca_blob ca_key
    else Ok ("", 0)).

(* what recv_reply leaves behind: returned blob, hostkey type, modulus byte length, CA type, CA modulus byte length *)
Record reply := { r_blob : list Z; r_type : string; r_nlen : Z; r_ca_type : string; r_ca_nlen : Z }.

(* the second half of recv_reply: picking the host key blob apart *)
Definition parse_hostkey (hostkey : list Z) : res reply :=
  do (tb, _, h) <- get_bytes hostkey;
  do ty <- decode_ascii tb;
  do h <- (if starts_with t_rsa_cert_prefix ty then do (_, _, h') <- get_bytes h; Ok h' else Ok h);   (* nonce *)
  do (e, _, h) <- get_bytes h;
  nonempty_or_valueerror e (
    do (nlen, h) <- (if String.eqb ty "ssh-ed25519" then Ok (32, h)
                     else if String.eqb ty "ssh-ed448" then Ok (57, h)
                     else do (n, nlen, h') <- get_bytes h; nonempty_or_valueerror n (Ok (nlen, h')));
    do (cat, cal) <- (if starts_with t_rsa_cert_prefix ty || starts_with t_ed25519_cert_prefix ty
                      then parse_ca_key h else Ok ("", 0));
    Ok {| r_blob := hostkey; r_type := ty; r_nlen := nlen; r_ca_type := cat; r_ca_nlen := cal |}).

(* recv_reply on the payload of a KEXDH_REPLY / KEX_DH_GEX_REPLY packet (after the packet type byte):
   host key blob, f, signature; then the blob is parsed *)
Definition parse_reply (payload : list Z) : res reply :=
  do (hostkey, _, p) <- get_bytes payload;
  do (_, _, p) <- get_bytes p;                     (* f *)
  do (_, _, _) <- get_bytes p;                     (* signature *)
  parse_hostkey hostkey.

(* __adjust_key_size: bytes -> bits, minus 8 when the byte count is odd *)
Definition adjust_key_size (size : Z) : Z :=
  let s := size * 8 in if Z.odd (Z.shiftr s 3) then s - 8 else s.

Definition hostkey_size (r : reply) : Z := adjust_key_size (r_nlen r).
Definition ca_size (r : reply) : Z := adjust_key_size (r_ca_nlen r).

(* ---- specification-level encoders (RFC 4253 section 6.6, RFC 8709, RFC 5656, OpenSSH PROTOCOL.certkeys):
        used by the theorems to say "the key in the presented blob" ---- *)
Definition estr (s : list Z) : list Z := be_bytes 4 (zlen s) ++ s.
Definition reply_payload (blob f sig : list Z) : list Z := estr blob ++ estr f ++ estr sig.
Definition rsa_key_blob (e n : list Z) : list Z := estr (bytes_of "ssh-rsa") ++ estr e ++ estr n.
(* the RFC 4251 mpint body of a number: Wire.create_mpint signed *)
Definition mpint_body (n : Z) : list Z := create_mpint n true (bitlen n).
Definition rsa_key_blob_of (e n : Z) : list Z := rsa_key_blob (mpint_body e) (mpint_body n).
Definition ed25519_key_blob (pk : list Z) : list Z := estr (bytes_of "ssh-ed25519") ++ estr pk.
Definition ed448_key_blob (pk : list Z) : list Z := estr (bytes_of "ssh-ed448") ++ estr pk.
Definition ecdsa_key_blob (curve : string) (xy : list Z) : list Z :=
  estr (bytes_of ("ecdsa-sha2-" ++ curve)) ++ estr (bytes_of curve) ++ estr (4 :: xy).
Record cert_fields := {
  cf_nonce : list Z; cf_serial : list Z; cf_keyid : list Z; cf_principals : list Z;
  cf_after : list Z; cf_before : list Z; cf_critical : list Z; cf_extensions : list Z;
  cf_reserved : list Z; cf_signature : list Z }.
Definition cert_tail (c : cert_fields) (ca_blob : list Z) : list Z :=
  cf_serial c ++ be_bytes 4 2 ++ estr (cf_keyid c) ++ estr (cf_principals c) ++ cf_after c ++ cf_before c
  ++ estr (cf_critical c) ++ estr (cf_extensions c) ++ estr (cf_reserved c) ++ estr ca_blob ++ estr (cf_signature c).
Definition rsa_cert_name : string := "ssh-rsa-cert-v01@openssh.com".
Definition ed25519_cert_name : string := "ssh-ed25519-cert-v01@openssh.com".
Definition rsa_cert_blob (c : cert_fields) (e n ca_blob : list Z) : list Z :=
  estr (bytes_of rsa_cert_name) ++ estr (cf_nonce c) ++ estr e ++ estr n ++ cert_tail c ca_blob.
Definition ed25519_cert_blob (c : cert_fields) (pk ca_blob : list Z) : list Z :=
  estr (bytes_of ed25519_cert_name) ++ estr (cf_nonce c) ++ estr pk ++ cert_tail c ca_blob.

(* ---- HostKeyTest.perform_test ---- *)
Inductive outcome := NoReply | Failed | Got (r : reply).
(* one probe connection: None = the server closed / stalled (packet type -1), Some payload = a KEXDH reply *)
Definition probe_outcome (p : option (list Z)) : outcome :=
  match p with
  | None => NoReply
  | Some pl => match parse_reply pl with Ok r => Got r | Raise _ => Failed end
  end.

(* the host-key type test also knows ssh-ed448 (fix af30915); the CA type test does not *)
Definition is_ecc_host (t : string) : bool := starts_with "ssh-ed25519" t || starts_with "ssh-ed448" t || starts_with t_ecdsa_prefix t.
Definition is_ecc (t : string) : bool := starts_with "ssh-ed25519" t || starts_with t_ecdsa_prefix t.
Definition note_small (what : string) (s : Z) : string := "using small " +++ z_to_string s +++ "-bit " +++ what +++ "modulus".
Definition note_nsa_ca : string :=
  "CA key uses elliptic curves that are suspected as being backdoored by the U.S. National Security Agency".

(* key_fail_comments, key_warn_comments of one probed type *)
Definition size_notes (name : string) (cert : bool) (hs : Z) (cat : string) (cs : Z) : list string * list string :=
  if (0 <? hs) || (0 <? cs) then
    let hecc := is_ecc_host name in let cecc := is_ecc cat in
    let hgood := if hecc then hk_min_good_ecc else hk_min_good_rsa in
    let hwarn := if hecc then hk_min_warn_ecc else hk_min_warn_rsa in
    let hstr := if hecc then hk_small_ecc_warning else hk_two2k_warning in
    let cgood := if cecc then hk_min_good_ecc else hk_min_good_rsa in
    let cwarn := if cecc then hk_min_warn_ecc else hk_min_warn_rsa in
    let cstr := if cecc then hk_small_ecc_warning else hk_two2k_warning in
    let fw :=
      if negb cert && (hs <? hgood) && negb (String.eqb name "ssh-dss") then
        (if hs <? hwarn then ([note_small "" hs], []) else ([], [hstr]))
      else if cert && ((hs <? hgood) || ((0 <? cs) && (cs <? cgood))) then
        let fw1 := if hs <? hwarn then ([note_small "hostkey " hs], [])
                   else if hs <? hgood then ([], [hstr]) else ([], []) in
        if (0 <? cs) && (cs <? cwarn) then (fst fw1 ++ [note_small "CA key " cs], snd fw1)
        else if (0 <? cs) && (cs <? cgood) && negb (mem cstr (snd fw1)) then (fst fw1, snd fw1 ++ [cstr])
        else fw1
      else ([], []) in
    (fst fw ++ (if starts_with t_ecdsa_prefix cat then [note_nsa_ca] else []), snd fw)
  else ([], []).

Record hkrec := { h_blob : list Z; h_info : hostkey_info }.
Record hkstate := { st_parsed : list string; st_hostkeys : list (string * hkrec); st_db : db }.

(* SSH2_Kex.set_host_key: the first record of a type wins *)
Definition set_host_key (k : string) (v : hkrec) (hks : list (string * hkrec)) : list (string * hkrec) :=
  if mem k (keys hks) then hks else hks ++ [(k, v)].
(* while len(e) < 3: e.append([]) ; e[1].extend(fails) ; e[2].extend(warns) *)
Definition extend_notes (fs ws : list string) (e : desc) : desc :=
  fold_left (fun e s => append_at 2 s e) ws (fold_left (fun e s => append_at 1 s e) fs (pad_to 3 e)).
Definition add_notes (fs ws : list string) (d : db) (name : string) : db := db_update d "key" name (extend_notes fs ws).

Definition hk_step (server_keys : list string) (probe : string -> outcome) (st : hkstate) (entry : string * bool * bool) : hkstate :=
  match entry with (name, cert, _) =>
    if mem name (st_parsed st) then st
    else if negb (mem name server_keys) then st
    else match probe name with
         | NoReply => st
         | Failed => st
         | Got r =>
             let v := {| h_blob := r_blob r;
                         h_info := {| hk_size := hostkey_size r; hk_ca_type := r_ca_type r; hk_ca_size := ca_size r |} |} in
             let hks := set_host_key name v (st_hostkeys st) in
             let hks := if negb cert && mem name rsa_family then fold_left (fun h t => set_host_key t v h) rsa_family hks else hks in
             let fw := size_notes name cert (hostkey_size r) (r_ca_type r) (ca_size r) in
             let targets := if mem name rsa_family then rsa_family else [name] in
             {| st_parsed := st_parsed st ++ targets; st_hostkeys := hks;
                st_db := fold_left (add_notes (fst fw) (snd fw)) targets (st_db st) |}
         end
  end.
Definition hk_init (d : db) : hkstate := {| st_parsed := []; st_hostkeys := []; st_db := d |}.
Definition perform_test_on (tbl : list (string * bool * bool)) (server_keys : list string) (probe : string -> outcome) (d : db) : hkstate :=
  fold_left (hk_step server_keys probe) tbl (hk_init d).
Definition perform_test := perform_test_on host_key_types.

Definition infos_of (hks : list (string * hkrec)) : list (string * hostkey_info) := map (fun kv => (fst kv, h_info (snd kv))) hks.

(* the "(key) ..." part of the text report after the probes: shown name and notes per advertised name *)
Definition key_items (server_keys : list string) (st : hkstate) : list (string * string * list (level * string)) :=
  flat_map (fun n => match alg_texts (st_db st) "key" n with
                     | None => []
                     | Some t => [(n, shown_name "key" n (infos_of (st_hostkeys st)) [], t)]
                     end) server_keys.

(* build_struct: keysize / ca_algorithm / casize of one key entry *)
Definition json_key_fields (name : string) (hks : list (string * hkrec)) : option Z * option (string * Z) :=
  match assoc name hks with
  | None => (None, None)
  | Some v =>
      ((if mem name rsa_family || starts_with t_rsa_cert_prefix name
           || starts_with "rsa-sha2-256-cert-v0" name || starts_with "rsa-sha2-512-cert-v0" name   (* fix 13b23e2 *)
        then Some (hk_size (h_info v)) else None),
       (if 0 <? hk_ca_size (h_info v) then Some (hk_ca_type (h_info v), hk_ca_size (h_info v)) else None))
  end.

(* ---- fingerprints: output_fingerprints (text) and build_struct (JSON) ---- *)
Definition has_cert_tag (t : string) : bool := match index 0 "-cert-" t with Some _ => true | None => false end.
Definition fp_name (t : string) : string := if mem t rsa_family then "ssh-rsa" else t.
(* dict assignment fps[k] = v *)
Fixpoint dict_set {A} (k : string) (v : A) (l : list (string * A)) : list (string * A) :=
  match l with
  | [] => [(k, v)]
  | (k', v') :: r => if String.eqb k k' then (k', v) :: r else (k', v') :: dict_set k v r
  end.
Definition fp_step (acc : list (string * list Z)) (kv : string * hkrec) : list (string * list Z) :=
  let t := fp_name (fst kv) in if has_cert_tag t then acc else dict_set t (h_blob (snd kv)) acc.
Fixpoint insert_kv {A} (x : string * A) (l : list (string * A)) : list (string * A) :=
  match l with [] => [x] | y :: r => if String.leb (fst x) (fst y) then x :: l else y :: insert_kv x r end.
Definition sort_kv {A} (l : list (string * A)) : list (string * A) := fold_right insert_kv [] l.
(* (fingerprint name, hashed bytes), sorted by name: what both views print *)
Definition fingerprint_entries (hks : list (string * hkrec)) : list (string * list Z) :=
  sort_kv (fold_left fp_step hks []).

Section Hashes.
Variable sha256 md5 : list Z -> string.     (* Fingerprint.sha256 / .md5 including their "SHA256:" / "MD5:" prefixes *)
Definition fin_hidden (t : string) : bool := starts_with "ecdsa-" t || String.eqb t "ssh-dss".
Definition fin_lines (verbose : bool) (hks : list (string * hkrec)) : list string :=
  flat_map (fun e =>
    let t := fst e in
    let md5l := if verbose then [t +++ ": " +++ md5 (snd e) +++ " -- [info] do not rely on MD5 fingerprints for server identification; it is insecure for this use case"] else [] in
    if fin_hidden t then
      (if verbose then (t +++ ": " +++ sha256 (snd e) +++ " -- [info] this fingerprint type is insecure and should not be relied upon") :: md5l else [])
    else (t +++ ": " +++ sha256 (snd e)) :: md5l) (fingerprint_entries hks).
(* JSON: (hostkey, hash_alg, hash) *)
Definition fin_json (hks : list (string * hkrec)) : list (string * string * string) :=
  flat_map (fun e => [(fst e, "SHA256", str_skip 7 (sha256 (snd e))); (fst e, "MD5", str_skip 4 (md5 (snd e)))]) (fingerprint_entries hks).
End Hashes.

(* ---- severity of the size notes (for the monotonicity statements): 2 fail, 1 warn, 0 none ---- *)
Definition severity (fw : list string * list string) : Z :=
  match fst fw with _ :: _ => 2 | [] => match snd fw with _ :: _ => 1 | [] => 0 end end.

(* ---- decidable equalities for the case files ---- *)
Definition reply_view (r : reply) : list Z * string * Z * string * Z :=
  (r_blob r, r_type r, hostkey_size r, r_ca_type r, ca_size r).
Definition reply_eqb (a b : reply) : bool :=
  zs_eqb (r_blob a) (r_blob b) && String.eqb (r_type a) (r_type b) && (r_nlen a =? r_nlen b)
  && String.eqb (r_ca_type a) (r_ca_type b) && (r_ca_nlen a =? r_ca_nlen b).
(* what the harness observes of a successful recv_reply: blob, hostkey size, CA type, CA size *)
Definition observed_eqb (r : res reply) (exp : res (list Z * Z * string * Z)) : bool :=
  match r, exp with
  | Ok a, Ok (b, hs, ct, cs) => zs_eqb (r_blob a) b && (hostkey_size a =? hs) && String.eqb (r_ca_type a) ct && (ca_size a =? cs)
  | Raise e, Raise f => exn_eqb e f
  | _, _ => false
  end.
Definition hkinfo_eqb (a b : hostkey_info) : bool :=
  (hk_size a =? hk_size b) && String.eqb (hk_ca_type a) (hk_ca_type b) && (hk_ca_size a =? hk_ca_size b).
Definition hkrec_eqb (a b : hkrec) : bool := zs_eqb (h_blob a) (h_blob b) && hkinfo_eqb (h_info a) (h_info b).
Definition hostkeys_eqb (a b : list (string * hkrec)) : bool := list_eqb (pair_eqb String.eqb hkrec_eqb) a b.
Definition mk_hk (blob : list Z) (s : Z) (ct : string) (cs : Z) : hkrec :=
  {| h_blob := blob; h_info := {| hk_size := s; hk_ca_type := ct; hk_ca_size := cs |} |}.
(* components 1.. of a database entry, with the None leaves dropped *)
Definition entry_notes (d : db) (name : string) : list (list string) :=
  match db_get d "key" name with Some e => map somes (tl e) | None => [] end.
Definition notes_eqb (a b : list (list string)) : bool := list_eqb strs_eqb a b.
Definition kitem_eqb (a b : string * string * list (level * string)) : bool :=
  match a, b with (n, s, t), (n', s', t') =>
    String.eqb n n' && String.eqb s s' && list_eqb (fun x y => level_eqb (fst x) (fst y) && String.eqb (snd x) (snd y)) t t' end.
(* hashes are supplied by the harness as a finite table (hashlib on the blobs the scripted server sent) *)
Definition table_hash (tbl : list (list Z * string)) (b : list Z) : string :=
  match find (fun p => zs_eqb (fst p) b) tbl with Some p => snd p | None => "?" end.
Definition jkey := (string * (option Z * option (string * Z)) * (list string * list string * list string))%type.
Definition json_key_view (st : hkstate) (n : string) : jkey :=
  let j := json_notes (st_db st) "key" n in (n, json_key_fields n (st_hostkeys st), (j_fail j, j_warn j, j_info j)).
Definition jkey_eqb (a b : jkey) : bool :=
  match a, b with (n, (ks, ca), (f, w, i)), (n', (ks', ca'), (f', w', i')) =>
    String.eqb n n' && opt_eqb Z.eqb ks ks' && opt_eqb (pair_eqb String.eqb Z.eqb) ca ca'
    && strs_eqb f f' && strs_eqb w w' && strs_eqb i i' end.
Definition fpj_eqb (a b : string * string * string) : bool :=
  match a, b with (x, y, z), (x', y', z') => String.eqb x x' && String.eqb y y' && String.eqb z z' end.
Definition probe_of (script : list (string * option (list Z))) (name : string) : outcome :=
  match assoc name script with Some p => probe_outcome p | None => NoReply end.
