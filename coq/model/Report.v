(* ssh_audit.output() / build_struct(): the standard audit report of one SSH-2 peer, structurally. *)
From VModel Require Export Recs.
Open Scope string_scope. Open Scope list_scope. Open Scope Z_scope.

Record peer := {
  pr_client_audit : bool;
  pr_banner_software : option string;      (* banner.software, None when there is no banner/software part *)
  pr_software : option software;           (* Software.parse(banner) reduced to product + availability *)
  pr_k : kexlists;
  pr_hostkeys : list (string * hostkey_info);
  pr_dh : list (string * Z);
  pr_rate_notes : string;
  pr_general : list level }.               (* findings of the general section that carry a level: SSH-1 protocol banner (fail), non-printable banner (warn) *)

Definition item := (string * string * string * list (level * string))%type.   (* category, advertised name, shown name, notes *)

Record report := {
  rp_status : Z;
  rp_items : list item;
  rp_unknown : list string;
  rp_recs : list recommendation;
  rp_notes : list string;
  rp_suppress : list string;
  rp_db : db }.

Definition cat_lists (k : kexlists) : list (string * list string) :=
  [("kex", kl_kex k); ("key", kl_key k); ("enc", kl_enc k); ("mac", kl_mac k)].

Definition items_of (d : db) (p : peer) : list item :=
  flat_map (fun cl => flat_map (fun n =>
      match alg_texts d (fst cl) n with
      | None => []
      | Some t => [(fst cl, n, display (shown_name (fst cl) n (pr_hostkeys p) (pr_dh p)), t)]
      end) (snd cl)) (cat_lists (pr_k p)).

Definition levels_of (its : list item) : list level := flat_map (fun it => map fst (snd it)) its.
(* output(): the banner line of a protocol-1.x peer and 'protocol SSH1 enabled' are failures, a banner with non-printable characters a warning *)
Definition general_levels (ssh1_banner nonprintable : bool) : list level := (if ssh1_banner then [LFail] else []) ++ (if nonprintable then [LWarn] else []).

Definition unknown_of (d : db) (p : peer) : list string :=
  flat_map (fun cl => flat_map (fun n =>
      let ln := lookup_name (fst cl) n in
      if str_is_blank ln then [] else match db_get d (fst cl) ln with Some _ => [] | None => [ln] end) (snd cl)) (cat_lists (pr_k p)).

(* d0 = the per-scan database after the host-key and group-exchange probes edited it *)
Definition report_of (p : peer) (d0 : db) : report :=
  let pp := post_process (pr_client_audit p) (pr_banner_software p) (pr_k p) (pr_dh p) (pr_rate_notes p) d0 in
  let d := p_db pp in
  let its := items_of d p in
  {| rp_status := status_fold exit_GOOD (pr_general p ++ levels_of its);
     rp_items := its;
     rp_unknown := unknown_of d p;
     rp_recs := recommendations (pr_software p) d (pr_k p) (p_suppress pp);
     rp_notes := p_notes pp;
     rp_suppress := p_suppress pp;
     rp_db := d |}.

(* JSON view: per category (name, notes) exactly as advertised (no blank-name skipping in build_struct) *)
Definition json_items (d : db) (p : peer) : list (string * string * jnotes) :=
  flat_map (fun cl => map (fun n => (fst cl, n, json_notes d (fst cl) n)) (snd cl)) (cat_lists (pr_k p)).

(* ---- decidable equalities used by the correspondence case files ---- *)
Definition note_eqb (a b : level * string) : bool := level_eqb (fst a) (fst b) && String.eqb (snd a) (snd b).
Definition item_eqb (a b : item) : bool :=
  match a, b with (c, n, s, t), (c', n', s', t') => String.eqb c c' && String.eqb (display n) n' && String.eqb s s' && list_eqb note_eqb t t' end.   (* b = parsed from the printed report: its name is the displayed one *)
Definition rlevel_eqb (a b : rlevel) : bool :=
  match a, b with Critical, Critical | Warning, Warning | Informational, Informational => true | _, _ => false end.
Definition rec_eqb (a b : recommendation) : bool :=
  rlevel_eqb (r_level a) (r_level b) && action_eqb (r_action a) (r_action b) && String.eqb (r_cat a) (r_cat b)
  && String.eqb (r_name a) (r_name b) && String.eqb (r_notes a) (r_notes b).
Definition same_set {A} (eqb : A -> A -> bool) (a b : list A) : bool :=
  Nat.eqb (List.length a) (List.length b) && forallb (fun x => existsb (eqb x) b) a && forallb (fun x => existsb (eqb x) a) b.
Definition jnotes_eqb (a b : jnotes) : bool :=
  strs_eqb (j_fail a) (j_fail b) && strs_eqb (j_warn a) (j_warn b) && strs_eqb (j_info a) (j_info b).
Definition jitem_eqb (a b : string * string * jnotes) : bool :=
  match a, b with (c, n, j), (c', n', j') => String.eqb c c' && String.eqb n n' && jnotes_eqb j j' end.
(* availability as a finite table computed by the implementation for the tokens of the current database *)
Definition avail_table (t : list (string * bool)) (v : string) : bool := match assoc v t with Some b => b | None => false end.
Definition mk_rec (l : rlevel) (a : action) (c n notes : string) : recommendation :=
  {| r_level := l; r_action := a; r_cat := c; r_name := n; r_notes := notes |}.
