(* C01 - the report lists exactly the algorithms the peer advertised. *)
From VModel Require Import Wire Report.
From VProofs Require Import WireProofs RatingProofs MsgProofs.
Open Scope string_scope. Open Scope list_scope. Open Scope Z_scope.

(* wire -> lists: parsing what a peer encoded gives back exactly its lists, for every well-formed KEXINIT *)
Theorem c01_kexinit_roundtrip : forall k p r, wf_kexinit k -> write_kexinit k = Ok p -> parse_kexinit (p ++ r) = Ok (k, r).
Proof. exact kexinit_roundtrip. Qed.

(* lists -> text report: per category, the shown names are the advertised non-blank names, once per occurrence, in order *)
Theorem c01_text_names_exact : forall d p,
  shown_pairs (items_of d p) =
  flat_map (fun cl => map (fun n => (fst cl, n)) (filter (fun n => negb (str_is_blank (lookup_name (fst cl) n))) (snd cl))) (cat_lists (pr_k p)).
Proof. exact text_names_exact. Qed.

(* lists -> JSON report: every advertised name, as sent *)
Theorem c01_json_names_exact : forall d p,
  map (fun x => match x with (c, n, _) => (c, n) end) (json_items d p) =
  flat_map (fun cl => map (fun n => (fst cl, n)) (snd cl)) (cat_lists (pr_k p)).
Proof. exact json_names_exact. Qed.

Theorem c01_no_cross_category : forall d p c n s t,
  In (c, n, s, t) (items_of d p) -> In n (match assoc c (cat_lists (pr_k p)) with Some l => l | None => [] end).
Proof. exact no_cross_category. Qed.

(* gss-* names are shown under the advertised name; size suffixes only append *)
Theorem c01_shown_name_keeps_name : forall c n hk dh, starts_with n (shown_name c n hk dh) = true.
Proof. exact shown_name_keeps_name. Qed.

(* SSH-1: for EVERY mask, the decoded names are exactly the table entries whose bit is set, in table order *)
Theorem c01_ssh1_mask_names : forall mask tbl i,
  mask_names mask i tbl =
  map snd (filter (fun p => Z.testbit mask (Z.of_nat (fst p))) (combine (seq i (List.length tbl)) tbl)).
Proof. exact mask_names_is_filter. Qed.
Theorem c01_ssh1_mask_names_spec : forall mask tbl i x,
  In x (mask_names mask i tbl) <-> exists j, nth_error tbl j = Some x /\ Z.testbit mask (Z.of_nat (i + j)) = true.
Proof. exact mask_names_spec. Qed.

(* the name shown in the text report is the advertised one with non-printable characters replaced (fix 331ebe3): printable names are shown unchanged *)
Theorem c01_display_printable : forall s, forallb (fun c => negb (is_control c)) (chars s) = true -> display s = s.
Proof. exact display_printable. Qed.

(* which decoded name-list reaches which category of the report object is read off the current source: SSH2_Kex.parse, translated with symbolic evaluation of
   the constructors and properties (gen/Codecs.v), is the model's parser *)
From VGen Require Import Codecs.
From VProofs Require Import TieC10.
Theorem c01_tie_parse_kexinit : forall p, parse_kexinit p = src_parse_kexinit p.
Proof. exact tie_parse_kexinit. Qed.
Theorem c01_tie_parse_pkm : forall p, parse_pkm p = src_parse_pkm p.
Proof. exact tie_parse_pkm. Qed.
