(* C19 - a standard audit's footprint on the target is small and bounded. *)
From VModel Require Import AuditSM.
From VProofs Require Import AuditProofs.
Open Scope string_scope. Open Scope list_scope. Open Scope Z_scope.

(* whatever the server answers: at most one connection per host-key type of the probe table that it advertises *)
Theorem c19_hostkey_conns_bound : forall kex key env,
  (List.length (hostkey_conns kex key env) <= List.length (filter (fun x => match x with (t, _, _) => mem t key end) host_key_types))%nat.
Proof. exact hostkey_conns_bound. Qed.
Theorem c19_hostkey_conns_are_probes : forall types adv parsed env c,
  In c (hk_loop types adv parsed env) ->
  exists t s, c = CHostKey t s /\ In t (map (fun x => match x with (t, _, _) => t end) types) /\ mem t adv = true /\ mem t parsed = false.
Proof. exact hk_loop_types. Qed.

(* a fixed handful (first probe + the seven sizes + the OpenSSH second pass = 9) per offered GEX algorithm *)
Theorem c19_gex_alg_bound : forall alg ans openssh,
  (List.length (fst (fst (gex_alg alg ans openssh))) <= 2 + List.length gex_probe_sizes)%nat.
Proof. exact gex_alg_bound. Qed.
Theorem c19_gex_probe_count : (2 + List.length gex_probe_sizes = 9)%nat.
Proof. exact gex_probe_count. Qed.

(* the connection-rate check: never more than the cap, for every clock budget and every server behaviour; none when skipped *)
Theorem c19_rate_conns_bound : forall skip kex ticks env, 0 <= rate_conns skip kex ticks env <= rate_max_connections.
Proof. exact rate_conns_bound. Qed.
Theorem c19_rate_skipped : forall kex ticks env, rate_conns true kex ticks env = 0.
Proof. exact rate_skipped. Qed.
Theorem c19_rate_needs_dh : forall kex ticks env, has_dh kex = false -> rate_conns false kex ticks env = 0.
Proof. exact rate_needs_dh. Qed.

(* the whole audit *)
Theorem c19_audit_conns_bound : forall ca skip k pe,
  let key := kex_names (k_key k) in let kex := kex_names (k_kex k) in
  Z.of_nat (List.length (fst (audit_conns ca skip k pe))) + snd (audit_conns ca skip k pe) <=
  1 + Z.of_nat (List.length (filter (fun x => match x with (t, _, _) => mem t key end) host_key_types))
    + 9 * Z.of_nat (List.length (filter (fun a => mem a kex) gex_algs)) + (if skip then 0 else rate_max_connections).
Proof. exact audit_conns_bound. Qed.

(* key-exchange computation requests exist only on probe connections *)
Theorem c19_kex_init_only_in_probes : forall ca skip k pe c,
  In c (fst (audit_conns ca skip k pe)) -> sends_kex_init c = true -> exists t, (exists b, c = CHostKey t b) \/ (exists r b, c = CGex t r b).
Proof. exact kex_init_only_in_probes. Qed.

(* which phases run is decided by one block of audit(); the following are theorems about that block as it reads in the current source (T1c translation) *)
From VGen Require Import Tables.
From VProofs Require Import TieC19.
Theorem c19_dos_only_on_request : forall dheat flood ca gt skip,
  (In "dheat"%string (src_audit_phases dheat flood ca gt skip) -> dheat = true) /\
  (In "rate-flood"%string (src_audit_phases dheat flood ca gt skip) -> flood = true).
Proof. exact dos_only_on_request. Qed.
Theorem c19_standard_audit_phases : forall ca skip,
  src_audit_phases false false ca ""%string skip =
  if ca then [] else ["hostkey"; "gex"]%string ++ (if skip then [] else ["rate-check"%string]).
Proof. exact standard_audit_phases. Qed.
Theorem c19_skip_means_no_rate_check : forall dheat flood ca gt, ~ In "rate-check"%string (src_audit_phases dheat flood ca gt true).
Proof. exact skip_means_no_rate_check. Qed.
Theorem c19_model_phases_agree : forall ca skip k pe,
  (In "hostkey"%string (src_audit_phases false false ca ""%string skip) \/ fst (audit_conns ca skip k pe) = [CFirst]) /\
  (In "rate-check"%string (src_audit_phases false false ca ""%string skip) \/ snd (audit_conns ca skip k pe) = 0%Z).
Proof. exact model_phases_agree. Qed.
Theorem c19_tie_extract_ok_rate_check_arguments : extract_ok_rate_check_arguments = true.
Proof. exact tie_extract_ok_rate_check_arguments. Qed.
Theorem c19_tie_extract_ok_send_kexinit_defaults : extract_ok_send_kexinit_defaults = true.
Proof. exact tie_extract_ok_send_kexinit_defaults. Qed.
(* the loop conditions of the connection-rate check as they read in the current source (T1c translation) are the model's *)
Theorem c19_tie_rate_stop_opened : forall opened, (rate_max_connections <=? opened)%Z = src_rate_stop_time_or_opened false false opened rate_max_connections.
Proof. exact tie_rate_stop_opened. Qed.
Theorem c19_tie_rate_stop_attempts : forall attempted pending,
  ((rate_max_connections <=? attempted) && (pending =? 0))%Z = src_rate_stop_attempts false attempted rate_max_connections pending.
Proof. exact tie_rate_stop_attempts. Qed.
Theorem c19_tie_rate_open_more : forall pending opened attempted,
  ((pending <? rate_concurrent_sockets) && (pending + opened <? rate_max_connections) && (attempted <? rate_max_connections))%Z
  = src_rate_open_more false pending rate_concurrent_sockets opened attempted rate_max_connections.
Proof. exact tie_rate_open_more. Qed.
Theorem c19_rate_time_up_stops : forall opened maxc, src_rate_stop_time_or_opened false true opened maxc = true.
Proof. exact rate_time_up_stops. Qed.
