(* C17 - The tool's knowledge tables agree with each other.
   Only statements; every proof is `exact <lemma from proofs/>`. *)
From VModel Require Import TablesSpec.
From VProofs Require Import TablesProofs PolicyPeerProofs.
From VModel Require Import PolicyPeer.
Open Scope string_scope. Open Scope list_scope.

Theorem c17_policies_known :
  forall p c n, In p builtin_policies -> In (c, n) (policy_refs p) -> exists e, db_get ssh2_db c n = Some e.
Proof. exact policies_known_thm. Qed.

Theorem c17_policies_no_fail :
  forall p c n e, In p builtin_policies -> In (c, n) (policy_refs p) -> db_get ssh2_db c n = Some e -> has_fail e = false.
Proof. exact policies_no_fail_thm. Qed.

Theorem c17_hostkey_table_known :
  forall n, In n (map (fun x => match x with (t, _, _) => t end) host_key_types ++ rsa_family) ->
  exists e, db_get ssh2_db "key" n = Some e.
Proof. exact hostkey_table_known_thm. Qed.

Theorem c17_dheat_tables_known :
  forall n, In n (dheat_gex_algs ++ dheat_alg_priority ++ map fst dheat_alg_modulus_sizes ++ dheat_tested_algs
                  ++ gex_algs ++ map fst hk_kex_to_group) ->
  exists e, db_get ssh2_db "kex" n = Some e.
Proof. exact dheat_tables_known_thm. Qed.

Theorem c17_ssh1_tables_known : ssh1_tables_unknown = [].
Proof. exact ssh1_tables_unknown_nil. Qed.

Theorem c17_ssh2_broken_primitives_failed :
  forall c cat n e, In (c, cat) ssh2_db -> In (n, e) cat -> broken_matches n <> [] -> has_fail e = true.
Proof. exact ssh2_broken_primitives_failed_thm. Qed.

(* full statement for SSH-1 is refuted by exactly three entries (known findings C17/ssh1-NAME) *)
Theorem c17_ssh1_broken_primitives_failed_partial :
  forall c cat n e, In (c, cat) ssh1_db -> In (n, e) cat -> broken_matches n <> [] ->
  pair_in (c, n) ssh1_known_gaps = false -> has_fail e = true.
Proof. exact ssh1_broken_primitives_failed_partial_thm. Qed.

Theorem c17_ssh1_broken_refuted_exactly :
  map fst (broken_without_failure ssh1_db) = ssh1_known_gaps.
Proof. exact ssh1_broken_is_known_gaps. Qed.

Theorem c17_entries_shaped :
  forall c cat n e, (In (c, cat) ssh2_db \/ In (c, cat) ssh1_db) -> In (n, e) cat -> entry_shape_ok e = true.
Proof. exact entries_shaped_thm. Qed.

Theorem c17_keys_unique : duplicate_keys ssh2_db = [] /\ duplicate_keys ssh1_db = [].
Proof. exact (conj ssh2_keys_nodup ssh1_keys_nodup). Qed.

Theorem c17_nonvacuous : builtin_policies <> [].
Proof. exact builtin_nonempty. Qed.

(* a peer configured exactly per a built-in policy shows no failure in a standard audit (through the report model of
   C01-C04: rating lookup, Terrapin post-processing in the policy's role, status fold) *)
Theorem c17_policy_peer_no_failure :
  forall p, In p builtin_policies -> rp_status (report_of (peer_of_policy p) ssh2_db) <> exit_FAILURE.
Proof. exact policy_peer_no_failure_thm. Qed.

(* ... and the key / modulus sizes the policies list are not small enough for a probe-phase failure note *)
Theorem c17_policy_sizes_not_failing : policy_sizes_failing = [].
Proof. exact policy_sizes_failing_nil. Qed.
