(* C05 - a policy made from a target passes on that target and fails on any drift.
   Statements only; proofs are `exact <lemma>` from proofs/PolicyIOProofs.v.
   Model: model/PolicyIO.v (create_text = the text Policy.create returns / -M writes; parse_text = Policy(policy_data=...);
   policy_of / drift / wf_peer = the SPEC) on top of model/PolicyM.v (evaluate = Policy.evaluate on a fresh object).
   json.dumps / json.loads of the two size maps are not modelled: every statement about the text takes the pair
   (dumps, loads) with the hypothesis json_inverse (loads (dumps m) = Ok m on dicts; the dumped text is one line
   without outer white space); the check runs the real json module on every generated case. *)
From Coq Require Import Permutation.
From VModel Require Import PolicyIO.
From VGen Require Import Tables.
From VProofs Require Import PolicyIOProofs.
Open Scope string_scope. Open Scope list_scope. Open Scope Z_scope.

(* the policy text written for ANY well-formed peer (name-lists over RFC 4251 names incl. = + / @, host-key / CA / modulus
   size maps, any host name and date without a line feed, server or client audit) loads without error, as exactly
   the policy the SPEC describes: the peer's four lists in order, its sizes, exact-match settings *)
Theorem c05_create_loads : forall dumps_hk dumps_dh loads_hk loads_dh,
  json_inverse dumps_hk loads_hk -> json_inverse dumps_dh loads_dh ->
  forall src today client pr, wf_text src = true -> wf_text today = true -> wf_peer pr = true ->
  parse_text loads_hk loads_dh (create_text dumps_hk dumps_dh src today client pr) = Ok (policy_of src today client pr).
Proof. exact create_loads. Qed.

(* evaluated against the same peer, that policy passes with no errors (peers whose size maps are dicts: unique keys) *)
Theorem c05_create_passes : forall src today client pr,
  nodup_str (keys (pr_host_keys pr)) = true -> nodup_str (keys (pr_dh_modulus_sizes pr)) = true ->
  evaluate (policy_of src today client pr) pr = (true, []).
Proof. exact create_passes. Qed.

(* ... and it is satisfied in the sense of C06's specification *)
Theorem c05_create_satisfies : forall src today client pr,
  nodup_str (keys (pr_host_keys pr)) = true -> nodup_str (keys (pr_dh_modulus_sizes pr)) = true ->
  satisfies (policy_of src today client pr) pr.
Proof. exact create_satisfies. Qed.

(* every single-attribute drift (any different kex / host-key / cipher / MAC list; a different host-key size, CA size or
   CA type of one key type - all positions, all values -; a different group-exchange modulus size) fails, and the
   error list is exactly the one error naming the drifted field with the policy's value and the peer's value *)
Theorem c05_drift_fails : forall src today client pr pr' e,
  nodup_str (keys (pr_host_keys pr)) = true -> nodup_str (keys (pr_dh_modulus_sizes pr)) = true ->
  drift pr pr' e -> evaluate (policy_of src today client pr) pr' = (false, [e]).
Proof. exact drift_fails. Qed.

(* an added, a removed, or a reordered algorithm makes a different list: the three cases of the statement are drifts *)
Theorem c05_list_drift_is_drift : forall l l', list_drift l l' -> l <> l'.
Proof. exact list_drift_neq. Qed.

(* the property in one statement, from the written text to the verdicts *)
Theorem c05_made_policy_guards : forall src today client pr dumps_hk dumps_dh loads_hk loads_dh,
  json_inverse dumps_hk loads_hk -> json_inverse dumps_dh loads_dh ->
  wf_text src = true -> wf_text today = true -> wf_peer pr = true ->
  exists p, parse_text loads_hk loads_dh (create_text dumps_hk dumps_dh src today client pr) = Ok p /\
            evaluate p pr = (true, []) /\
            forall pr' e, drift pr pr' e -> evaluate p pr' = (false, [e]).
Proof. exact made_policy_guards. Qed.

(* every built-in policy (generated table) is passed by the peer configured exactly as it lists ... *)
Theorem c05_builtin_self_pass : forallb (fun r => passes (policy_of_raw r) (peer_of_raw r)) builtin_policies = true.
Proof. exact builtin_self_pass. Qed.

(* ... also when that peer offers every optional host key type of the policy; the table is not empty *)
Theorem c05_builtin_self_pass_with_optional :
  forallb (fun r => passes (policy_of_raw r) (peer_of_raw_all r)) builtin_policies = true.
Proof. exact builtin_self_pass_with_optional. Qed.

Theorem c05_builtin_nonempty : (0 < List.length builtin_policies)%nat.
Proof. exact builtin_nonempty. Qed.

(* the key tests of the policy file parser are those of the current source (T1c translation of Policy.__init__) *)
From VGen Require Import Tables.
From VProofs Require Import TieC05.
Theorem c05_tie_policy_key_invalid : forall key,
  (negb (mem key valid_keys) && negb (starts_with "hostkey_size_" key) && negb (starts_with "cakey_size_" key) && negb (starts_with "dh_modulus_size_" key)) = src_policy_key_invalid key.
Proof. exact tie_policy_key_invalid. Qed.
Theorem c05_tie_policy_key_groups : list_keys = src_policy_list_keys /\ ["name"; "banner"]%string = src_policy_quoted_keys.
Proof. exact tie_policy_key_groups. Qed.
