(* C09 - no peer can crash, hang or fool the auditor. *)
From VModel Require Import AuditSM.
From VProofs Require Import AuditProofs SegProofs.
Open Scope string_scope. Open Scope list_scope. Open Scope Z_scope.

(* the packet reader: for EVERY byte sequence, segmentation and close/stall point, no exception escapes *)
Theorem c09_read_packet2_never_raises : forall s x, snd (read_packet2 s) <> PktRaise x.
Proof. exact read_packet2_never_raises. Qed.
Theorem c09_read_packet1_never_raises : forall s x, snd (read_packet1 s) <> PktRaise x.
Proof. exact read_packet1_never_raises. Qed.

(* whatever the peer does during the initial handshake (incl. the SSH-1 fallback), the audit ends through
   a documented status 0, 1, 2 or 3 -- never through an uncaught exception *)
Theorem c09_documented_exit : forall sshv a c0 b0 s0 c1 b1 s1 st,
  documented st ->
  exists st', audit_exit sshv a (handshake_of sshv c0 b0 s0) (handshake_of 1 c1 b1 s1) st = Exit st' /\ documented st'.
Proof. exact documented_exit. Qed.

(* the status that a complete report contributes is 0, 2 or 3 *)
Theorem c09_report_status_documented : forall p d0, documented (rp_status (report_of p d0)).
Proof. exact report_status_documented. Qed.

(* a handshake that did not yield the peer's algorithm lists exits 1; no report exists on that path *)
Theorem c09_bad_handshake_exit1 : forall sshv a hs hs1 st,
  (forall k, match hs with HsPacket p => classify sshv a p <> ApKex k | _ => True end) ->
  (forall m, match hs with HsPacket p => classify sshv a p <> ApPkm m | _ => True end) ->
  (forall k, match hs1 with HsPacket p => classify 1 a p <> ApKex k | _ => True end) ->
  (forall m, match hs1 with HsPacket p => classify 1 a p <> ApPkm m | _ => True end) ->
  (forall e, audit_exit sshv a hs hs1 st <> Uncaught e) ->
  audit_exit sshv a hs hs1 st = Exit exit_CONNECTION_ERROR.
Proof. exact bad_handshake_exit1. Qed.

(* waits are bounded by the data that arrives: ensure_read succeeds only when enough bytes are buffered,
   and it is structurally recursive on the peer's finite script (one recv per chunk, then close or timeout) *)
Theorem c09_ensure_read_enough : forall s size s', ensure_read s size = (s', None) -> size <= zlen (s_buf s').
Proof. exact ensure_read_enough. Qed.

(* the reader's result depends only on the byte stream, not on how it is cut into TCP segments (incl. 1-byte
   segmentation), for every buffer content, every segmentation into non-empty chunks, close or stall at the end *)
Theorem c09_read_packet2_segmentation : forall buf cs e, nonempty_chunks cs ->
  snd (read_packet2 {| s_buf := buf; s_chunks := cs; s_end := e |}) = snd (read_packet2 {| s_buf := buf ++ List.concat cs; s_chunks := []; s_end := e |}).
Proof. exact read_packet2_segmentation. Qed.
Theorem c09_read_packet1_segmentation : forall buf cs e, nonempty_chunks cs ->
  snd (read_packet1 {| s_buf := buf; s_chunks := cs; s_end := e |}) = snd (read_packet1 {| s_buf := buf ++ List.concat cs; s_chunks := []; s_end := e |}).
Proof. exact read_packet1_segmentation. Qed.

(* literals the model repeats from the source are the ones the translator extracts from the current source (gen/Tables.v) *)
From VGen Require Import Tables.
From VModel Require Import AuditSM.
From VProofs Require Import TieC09.
Theorem c09_tie_protocol_mismatch : protocol_mismatch_text = str_bytes src_protocol_mismatch_text.
Proof. exact tie_protocol_mismatch. Qed.

(* the decisions of audit() on the first packet as they read in the current source (T1c translation): automatic SSH-1 retry, wrong message type *)
Theorem c09_tie_classify_error_packet : forall sshv a e,
  classify sshv a (PktErr e) = if src_ssh1_retry (zs_eqb e protocol_mismatch_text) sshv a then ApFallbackSsh1 else ApExit1.
Proof. exact tie_classify_error_packet. Qed.
Theorem c09_tie_classify_wrong_type : forall sshv a t payload, (sshv = 1 \/ sshv = 2)%Z ->
  src_first_packet_wrong_type sshv t = true -> classify sshv a (PktOk t payload) = ApExit1.
Proof. exact tie_classify_wrong_type. Qed.
Theorem c09_tie_classify_right_type : forall sshv a t payload, (sshv = 1 \/ sshv = 2)%Z ->
  src_first_packet_wrong_type sshv t = false ->
  classify sshv a (PktOk t payload) =
  if (sshv =? 1)%Z then match parse_pkm payload with Ok (m, _) => ApPkm m | Raise _ => ApExit1 end
  else match parse_kexinit payload with Ok (k, _) => ApKex k | Raise _ => ApExit1 end.
Proof. exact tie_classify_right_type. Qed.
