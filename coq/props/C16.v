(* C16 - identification strings are recognised, decomposed and sanitised.
   Statements only; proofs are `exact <lemma>` from proofs/BannerProofs.v.
   The model (model/BannerM.v) is a hand-written recogniser for the regular expressions of banner.py and
   software.py; it is tied to the code by the differential run of harness/props/c16.py, not by a model of `re`. *)
From VModel Require Import BannerM.
From VProofs Require Import BannerProofs.
Open Scope list_scope. Open Scope string_scope.

(* (a) every line SSH-<maj>.<min>-<sw>[ <comments>] is accepted; protocol, software and comments are the
   parts of the line (minor as the decimal text of its value, comment words joined by single blanks),
   for any gaps between the words and trailing blanks - unless the multi-protocol prefix rule absorbs
   the beginning of the software token *)
Theorem c16_accepts_grammar_partial : forall maj min sw gw k,
  wf_line maj min sw gw -> absorbs (sw ++ tail gw k) = false ->
  parse_ascii (line maj min sw gw k) = Some (mkP maj (canon min) (Some sw) (comments_of gw)).
Proof. exact accepts_grammar_partial. Qed.

(* in particular for every software token that does not begin with "SSH-" *)
Theorem c16_accepts_grammar_plain : forall maj min sw gw k,
  wf_line maj min sw gw -> strip_prefix "SSH-" sw = None ->
  parse_ascii (line maj min sw gw k) = Some (mkP maj (canon min) (Some sw) (comments_of gw)).
Proof. exact accepts_grammar_plain. Qed.

(* recorded finding software-token-looks-like-protocol: full strength does not hold *)
Theorem c16_accepts_grammar_refuted : exists maj min sw gw k,
  wf_line maj min sw gw /\ parse_ascii (line maj min sw gw k) <> Some (mkP maj (canon min) (Some sw) (comments_of gw)).
Proof. exact accepts_grammar_refuted. Qed.

(* recorded finding software-token-protocol-split-by-space: the token alone is not a protocol token *)
Theorem c16_accepts_grammar_refuted_space : exists maj min sw gw k,
  wf_line maj min sw gw /\ absorbs sw = false
  /\ parse_ascii (line maj min sw gw k) <> Some (mkP maj (canon min) (Some sw) (comments_of gw)).
Proof. exact accepts_grammar_refuted_space. Qed.

Theorem c16_accepts_bare : forall maj min, is_digit maj = true -> all_str is_digit min = true -> min <> "" ->
  parse_ascii ("SSH-" ++ String maj ("." ++ min)) = Some (mkP maj (canon min) None None).
Proof. exact accepts_bare. Qed.

(* the fuel argument of the chain recogniser is immaterial once it covers the text (parse_ascii passes the length) *)
Theorem c16_chain_fuel : forall f g s, (String.length s <= f)%nat -> (String.length s <= g)%nat -> chain f s = chain g s.
Proof. exact chain_fuel. Qed.

(* (b) rendering a parsed banner and parsing it again gives the same parts *)
Theorem c16_parse_show_parse_partial : forall s b,
  parse_ascii s = Some b -> absorbs (shown_rest b) = false -> parse_ascii (show b) = Some b.
Proof. exact parse_show_parse_partial. Qed.

Theorem c16_parse_show_parse_refuted : exists s b, parse_ascii s = Some b /\ parse_ascii (show b) <> Some b.
Proof. exact parse_show_parse_refuted. Qed.

(* the same on code points: the rendered text is printable, so the second parse is flagged valid *)
Theorem c16_roundtrip_codepoints : forall l p v, parse l = Some (p, v) -> absorbs (shown_rest p) = false ->
  parse (cps (show p)) = Some (p, true).
Proof. exact roundtrip_codepoints. Qed.

(* (c) sanitising: the filter output is printable ASCII of the same length, a code point is kept iff it
   is in 32..126 and shown as "?" otherwise; the flag is true iff nothing was replaced; everything the
   banner shows is printable *)
Theorem c16_filter_printable : forall l, all_str printable_char (to_print_ascii l) = true.
Proof. exact to_print_ascii_printable. Qed.
Theorem c16_filter_length : forall l, String.length (to_print_ascii l) = List.length l.
Proof. exact to_print_ascii_length. Qed.
Theorem c16_filter_pointwise : forall a z b,
  to_print_ascii (a ++ z :: b)%list
  = to_print_ascii a ++ String (if printable z then ascii_of_nat (Z.to_nat z) else "?"%char) (to_print_ascii b).
Proof. exact to_print_ascii_pointwise. Qed.
Theorem c16_flag_iff : forall l, is_print_ascii l = true <-> Forall in_range l.
Proof. exact is_print_ascii_iff. Qed.
Theorem c16_filter_identity : forall l, is_print_ascii l = true -> cps (to_print_ascii l) = l.
Proof. exact to_print_ascii_id. Qed.
Theorem c16_shown_printable : forall l p v, parse l = Some (p, v) ->
  v = is_print_ascii l /\ all_str printable_char (show p) = true.
Proof. exact shown_printable. Qed.
Theorem c16_parse_printable : forall s, all_str printable_char s = true ->
  parse (cps s) = match parse_ascii s with Some p => Some (p, true) | None => None end.
Proof. exact parse_printable. Qed.

(* (d) header / banner separation over received lines, and over the byte stream cut anywhere *)
Theorem c16_header_separation : forall hs b rest x,
  (forall h, In h hs -> blank h = false -> parse h = None) -> parse b = Some x ->
  banner_loop (hs ++ b :: rest)%list = (Some x, filter nonblank hs).
Proof. exact header_separation. Qed.
Theorem c16_no_banner_all_header : forall hs,
  (forall h, In h hs -> blank h = false -> parse h = None) -> banner_loop hs = (None, filter nonblank hs).
Proof. exact no_banner_all_header. Qed.
Theorem c16_header_never_banner : forall ls b hd, banner_loop ls = (b, hd) ->
  Forall (fun h => parse h = None /\ blank h = false) hd.
Proof. exact header_never_banner. Qed.
(* commit ddbb5b8: however the byte stream is cut into recv() results (any offsets, 1-byte segments included),
   banner and header text are those of the uncut stream *)
Theorem c16_segmentation_independent : forall chunks,
  get_banner chunks = banner_loop (lines_of_chunk (List.concat chunks)).
Proof. exact segmentation_independent. Qed.
Theorem c16_segmentation_irrelevant : forall c1 c2, List.concat c1 = List.concat c2 -> get_banner c1 = get_banner c2.
Proof. exact segmentation_irrelevant. Qed.
(* hence: header lines, banner line, further lines, anything after them, CR LF or LF, cut anywhere *)
Theorem c16_stream_banner : forall chunks ls hs b e rest later x,
  List.concat chunks = (encode_lines ls ++ later)%list -> no_lf ls -> ls = (hs ++ (b, e) :: rest)%list ->
  (forall h, In h hs -> blank (rstrip (fst h)) = false -> parse (rstrip (fst h)) = None) ->
  parse (rstrip b) = Some x ->
  get_banner chunks = (Some x, filter nonblank (map (fun h => rstrip (fst h)) hs)).
Proof. exact stream_banner. Qed.

(* (e) product and version extraction, for every version text (digits and dots, two or more characters,
   ending in a digit) and every patch text that does not start with a digit or a dot *)
Theorem c16_product_dropbear : forall v p, ver_ok v -> patch_ok p ->
  sw_parse_str ("dropbear_" ++ v ++ p) = Some (mkS None "Dropbear SSH" v (fix_patch p)).
Proof. exact product_dropbear. Qed.
Theorem c16_product_openssh : forall sep v p, sep_ok sep -> ver_ok v -> first_ok is_digit v = true -> patch_ok p ->
  sw_parse_str ("OpenSSH" ++ sep ++ v ++ p) = Some (mkS None "OpenSSH" v (fix_patch p)).
Proof. exact product_openssh. Qed.
Theorem c16_product_libssh_dash : forall v p, ver_ok v -> patch_ok p ->
  sw_parse_str ("libssh-" ++ v ++ p) = Some (mkS None "libssh" v (fix_patch p)).
Proof. exact product_libssh_dash. Qed.
Theorem c16_product_libssh_underscore : forall v p, ver_ok v -> patch_ok p ->
  sw_parse_str ("libssh_" ++ v ++ p) = Some (mkS None "libssh" v (fix_patch p)).
Proof. exact product_libssh_underscore. Qed.
Theorem c16_product_romsshell : forall v p, ver_ok v -> patch_ok p ->
  sw_parse_str ("RomSShell_" ++ v ++ p) = Some (mkS (Some "Allegro Software") "RomSShell" v (fix_patch p)).
Proof. exact product_romsshell. Qed.
Theorem c16_product_mpssh : forall v p, ver_ok v -> patch_ok p ->
  sw_parse_str ("mpSSH_" ++ v ++ p) = Some (mkS (Some "HP") "iLO (Integrated Lights-Out) sshd" v None).
Proof. exact product_mpssh. Qed.
Theorem c16_product_cisco : forall v p, ver_ok v -> patch_ok p ->
  sw_parse_str ("Cisco-" ++ v ++ p) = Some (mkS (Some "Cisco") "IOS/PIX sshd" v None).
Proof. exact product_cisco. Qed.
Theorem c16_product_tinyssh : forall v, sw_parse_str ("tinyssh_" ++ v) = Some (mkS None "TinySSH" v None).
Proof. exact product_tinyssh. Qed.
Theorem c16_product_putty : forall v, sw_parse_str ("PuTTY_Release_" ++ v) = Some (mkS None "PuTTY" v None).
Proof. exact product_putty. Qed.
Theorem c16_product_lancom : forall v, sw_parse_str ("lancom" ++ v) = Some (mkS (Some "LANcom") "LCOS sshd" v None).
Proof. exact product_lancom. Qed.
(* boundary of the version expression (not a finding: no product has one-character versions) *)
Theorem c16_version_needs_two_characters : forall d p, is_digit d = true -> patch_ok p -> ver_split (String d p) = None.
Proof. exact product_single_digit_unrecognised. Qed.

(* literals the model repeats from the source are the ones the translator extracts from the current source (gen/Tables.v) *)
From VGen Require Import Tables.
From VModel Require Import BannerM.
From VProofs Require Import TieC16.
Theorem c16_tie_banner_products : forall v, sw_parse_str (String.append "tinyssh_" v) = Some (mkS None product_TinySSH v None) /\ sw_parse_str (String.append "PuTTY_Release_" v) = Some (mkS None product_PuTTY v None).
Proof. exact tie_banner_products. Qed.
(* the printable filter and the replacement character are those of the current utils.py (T1c translation) *)
Theorem c16_tie_printable : forall z, printable z = src_is_print_ascii_filter z /\ printable z = src_to_print_ascii_filter z.
Proof. exact tie_printable. Qed.
Theorem c16_tie_replacement : forall z, printable z = false -> pchar z = ascii_of_nat (Z.to_nat src_to_ascii_replacement).
Proof. exact tie_replacement. Qed.
