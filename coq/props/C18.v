From VModel Require Import Target.
From VProofs Require Import TargetProofs.
Theorem c18_stub : True.
Proof. exact stub_true. Qed.
