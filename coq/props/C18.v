(* C18 - the tool connects to, and reports on, exactly the target that was named.
   Statements only; proofs are `exact <lemma>` from proofs/TargetProofs.v.  Model: model/Target.v
   (utils.parse_host_and_port / is_ipv6_address, process_commandline, the -T loop, AuditConf port setter,
   SSH_Socket._resolve / connect, DHEat._resolve_hostname, the labels of output() / evaluate_policy()). *)
From VModel Require Import Target.
From VProofs Require Import TargetProofs.
Open Scope string_scope. Open Scope list_scope. Open Scope Z_scope.

(* str(port) is read back by int() for every port *)
Theorem c18_int_of_dec : forall n, 0 <= n -> int_of_string (dec n) = Ok n.
Proof. exact int_of_string_dec. Qed.

(* every documented spelling (hostname/IPv4, host:port, bare IPv6, [IPv6], [IPv6]:port), any host text, any port,
   any default: the parser returns exactly the host and port the spelling names *)
Theorem c18_forms_parse : forall f d, form_ok f = true -> parse_host_and_port (spell f) d = Ok (endpoint f d).
Proof. exact forms_parse. Qed.

(* command line, with or without -p P: every spelling is accepted with exactly the endpoint it names; -p is only the
   default port (repaired by fix 9a2ac5a; before it, host:port / [IPv6] / [IPv6]:port were not parsed when -p was given) *)
Theorem c18_cli_forms : forall f oport, form_ok f = true -> oport_ok oport = true -> port_ok (form_port f (default_port oport)) = true ->
  cli_single (spell f) oport = COk (form_host f) (form_port f (default_port oport)).
Proof. exact cli_forms. Qed.
Theorem c18_cli_forms_no_port_option : forall f, form_ok f = true -> port_ok (form_port f 22) = true ->
  cli_single (spell f) None = COk (form_host f) (form_port f 22).
Proof. exact cli_forms_no_port_option. Qed.
Theorem c18_cli_port_option : forall f P, form_ok f = true -> port_ok P = true -> port_ok (form_port f P) = true ->
  cli_single (spell f) (Some P) = COk (form_host f) (form_port f P).
Proof. exact cli_port_option. Qed.

(* targets file: any number of blank or whitespace-only lines (`Blank pad`) and padded lines (spaces, tabs, ...), each
   other line a documented spelling: the targets are exactly the named endpoints, in order, with the given default port
   (whitespace-only lines: repaired by fix b3020b9) *)
Theorem c18_file_forms : forall items d, forallb item_ok items = true ->
  file_targets (render items) d = Ok (map (fun f => endpoint f d) (forms_of items)).
Proof. exact file_forms. Qed.
(* the same when the last line has no newline *)
Theorem c18_file_forms_no_final_newline : forall items a f b d, forallb item_ok items = true -> item_ok (Tgt a f b) = true ->
  file_targets (render items ++ a ++ spell f ++ b)%string d = Ok (map (fun g => endpoint g d) (forms_of items ++ [f])).
Proof. exact file_forms_no_final_newline. Qed.
Theorem c18_file_whitespace_line_skipped : forall pad, forall_s pad_char pad = true -> file_lines (pad ++ String c_nl "")%string = [].
Proof. exact file_whitespace_line_skipped. Qed.
(* a file that names no target is a usage error: nothing is audited (fix b3020b9) *)
Theorem c18_file_no_target_rejected : forall content oport flags r, file_lines content = [] -> run_file content oport flags r = RExit.
Proof. exact run_file_no_target. Qed.

(* one audit resolves exactly (host, port) with the family of a single -4/-6, dials at most one address, and that
   address is a stream answer of the resolver for that host, of the requested family, with that port *)
Theorem c18_audit_dials_named : forall pref r h p,
  o_gai (audit_refused pref r h p) = [(h, p, gai_family pref)]
  /\ (List.length (o_conn (audit_refused pref r h p)) <= 1)%nat
  /\ forall c, In c (o_conn (audit_refused pref r h p)) ->
       exists e, In e (table r h) /\ e_type e = SOCK_STREAM /\ (gai_family pref = 0 \/ e_fam e = gai_family pref)
                 /\ c = (e_fam e, e_ip e, p).
Proof. exact audit_dials_named. Qed.

(* a whole single-target run of a documented spelling, with or without -p: exactly one audit, of the named endpoint *)
Theorem c18_run_single_named : forall f oport flags r, form_ok f = true -> oport_ok oport = true ->
  port_ok (form_port f (default_port oport)) = true ->
  run_single (spell f) oport flags r = RDone [audit_refused (pref_of_flags flags) r (form_host f) (form_port f (default_port oport))].
Proof. exact run_single_named. Qed.
(* a whole -T run of documented spellings with valid ports, with or without -p: one audit per named endpoint, in order *)
Theorem c18_run_file_forms : forall items oport flags r, forallb item_ok items = true -> forms_of items <> [] -> oport_ok oport = true ->
  forallb (fun f => port_ok (form_port f (default_port oport))) (forms_of items) = true ->
  run_file (render items) oport flags r
  = RDone (map (fun f => audit_refused (pref_of_flags flags) r (form_host f) (form_port f (default_port oport))) (forms_of items)).
Proof. exact run_file_forms. Qed.

(* ports: nothing is ever resolved or dialled with a port outside 1..65535, for ANY argument / file / option *)
Theorem c18_single_ports_valid : forall arg oport flags r o, In o (obs_of (run_single arg oport flags r)) -> ports_valid o.
Proof. exact run_single_ports. Qed.
Theorem c18_file_ports_valid : forall content oport flags r o, In o (obs_of (run_file content oport flags r)) -> ports_valid o.
Proof. exact run_file_ports. Qed.
(* a run that does not complete (usage error or exception) has resolved and dialled NOTHING, for any input *)
Theorem c18_single_rejected_before_connect : forall arg oport flags r,
  match run_single arg oport flags r with RDone _ => True | o => obs_of o = [] end.
Proof. exact run_single_rejected_clean. Qed.
Theorem c18_file_rejected_before_connect : forall content oport flags r,
  match run_file content oport flags r with RDone _ => True | o => obs_of o = [] end.
Proof. exact run_file_rejected_clean. Qed.
(* a bad -p: nothing resolved or dialled (usage error for a documented spelling and for any targets file) *)
Theorem c18_bad_port_option_rejected : forall arg P flags r, port_ok P = false -> obs_of (run_single arg (Some P) flags r) = [].
Proof. exact run_single_bad_option. Qed.
Theorem c18_bad_port_option_rejected_form : forall f P flags r, form_ok f = true -> port_ok P = false -> run_single (spell f) (Some P) flags r = RExit.
Proof. exact run_single_bad_option_form. Qed.
Theorem c18_bad_port_option_rejected_file : forall content P flags r, port_ok P = false -> run_file content (Some P) flags r = RExit.
Proof. exact run_file_bad_option. Qed.
(* a bad port written with the target, with or without a (valid) -p: the run ends before anything is resolved *)
Theorem c18_bad_port_named_rejected : forall f oport flags r, form_ok f = true -> oport_ok oport = true ->
  port_ok (form_port f (default_port oport)) = false -> run_single (spell f) oport flags r = RCrash [].
Proof. exact run_single_bad_named. Qed.
(* one out-of-range port anywhere in a targets file: usage error before ANY target is scanned (fix b3020b9; before it
   the other targets were dialled and the run died with a traceback) *)
Theorem c18_file_bad_port_rejected : forall items oport flags r, forallb item_ok items = true ->
  forallb (fun f => port_ok (form_port f (default_port oport))) (forms_of items) = false ->
  run_file (render items) oport flags r = RExit.
Proof. exact run_file_bad_port_rejected. Qed.

(* IP version options: with a single -4 / -6 every address tried has that family *)
Theorem c18_family_filter : forall pref r h l e, gai_family pref <> 0 ->
  gai r h (gai_family pref) = Some l -> In e (resolve_list pref l) -> e_fam e = gai_family pref.
Proof. exact family_filter. Qed.
(* with a two-family preference the answers are tried family by family, resolver order kept inside a family *)
Theorem c18_family_order : forall l, dual l ->
  order_pref [4; 6] l = filter (fam_is AF_INET) l ++ filter (fam_is AF_INET6) l
  /\ order_pref [6; 4] l = filter (fam_is AF_INET6) l ++ filter (fam_is AF_INET) l.
Proof. exact family_order. Qed.
Theorem c18_first_of_preferred : forall l e t, dual l -> resolve_list [4; 6] l = e :: t ->
  (exists x, In x l /\ e_fam x = AF_INET /\ e_type x = SOCK_STREAM) -> e_fam e = AF_INET.
Proof. exact first_of_preferred. Qed.
(* the options -4, -6, -46 give the preference they name ... *)
Theorem c18_flag_order_partial : pref_of_flags [] = [] /\ pref_of_flags [4] = [4] /\ pref_of_flags [6] = [6] /\ pref_of_flags [4; 6] = [4; 6].
Proof. exact flag_order_partial. Qed.
(* ... recorded finding: -64 does not; IPv4 is dialled although IPv6 was given precedence and is offered *)
Theorem c18_flag_order_refuted : exists flags r h p ip4 ip6,
  flags = [6; 4] /\ table r h = [{| e_fam := AF_INET; e_type := SOCK_STREAM; e_ip := ip4 |}; {| e_fam := AF_INET6; e_type := SOCK_STREAM; e_ip := ip6 |}]
  /\ o_conn (audit_refused (pref_of_flags flags) r h p) = [(AF_INET, ip4, p)].
Proof. exact flag_order_refuted. Qed.
(* the connection rate test picks the address the audit dials first, for every preference (fix 976e983) *)
Theorem c18_rate_test_same_address : forall pref l, rate_first pref l = hd_error (resolve_list pref l).
Proof. exact rate_test_same_address. Qed.

(* labels: the text label ("(gen) target:", policy "Host:") is a documented spelling of exactly (host, port) *)
Theorem c18_text_label_name : forall h p, name_ok h = true -> port_ok p = true -> parse_host_and_port (text_label h p) 22 = Ok (h, p).
Proof. exact text_label_name. Qed.
Theorem c18_text_label_v6 : forall a p, is_ipv6 a = true -> forall_s host_char a = true -> port_ok p = true ->
  parse_host_and_port (text_label a p) 22 = Ok (a, p).
Proof. exact text_label_v6. Qed.
(* the JSON "target" is one for names and IPv4 ... *)
Theorem c18_json_label_name : forall h p d, name_ok h = true -> port_ok p = true -> parse_host_and_port (json_label h p) d = Ok (h, p).
Proof. exact json_label_name. Qed.
(* ... recorded finding: not for IPv6 hosts (no brackets) *)
Theorem c18_json_label_v6_refuted : exists a p, is_ipv6 a = true /\ forall_s host_char a = true /\ port_ok p = true
  /\ parse_host_and_port (json_label a p) 22 <> Ok (a, p).
Proof. exact json_label_v6_refuted. Qed.

(* every port-range test of the source, translated from the current code, rejects exactly the ports outside 1..65535 (the model's port_ok) *)
From VGen Require Import Tables.
From VProofs Require Import TieC18.
Theorem c18_tie_port_tests : forall p, Forall (fun b => b = negb (port_ok p)) (src_port_invalid_all p).
Proof. exact tie_port_tests. Qed.
(* the address family asked of the resolver and the sort direction for -46 / -64 are the expressions of the current SSH_Socket._resolve (T1c translation) *)
Theorem c18_tie_resolve_family : forall pref, gai_family pref = src_resolve_family pref.
Proof. exact tie_resolve_family. Qed.
Theorem c18_tie_resolve_reverse : forall a b, (a =? 6) = src_resolve_reverse [a; b].
Proof. exact tie_resolve_reverse. Qed.
