(* C18 - the tool connects to, and reports on, exactly the target that was named.
   Statements only; proofs are `exact <lemma>` from proofs/TargetProofs.v.  Model: model/Target.v
   (utils.parse_host_and_port / is_ipv6_address, process_commandline, the -T loop, AuditConf port setter,
   SSH_Socket._resolve / connect, DHEat._resolve_hostname, the labels of output() / evaluate_policy()). *)
From VModel Require Import Target.
From VProofs Require Import TargetProofs.
Open Scope string_scope. Open Scope list_scope. Open Scope Z_scope.

(* str(port) is read back by int() for every port *)
Theorem c18_int_of_dec : forall n, 0 <= n -> int_of_string (dec n) = Ok n.
Proof. exact int_of_string_dec. Qed.

(* every documented spelling (hostname/IPv4, host:port, bare IPv6, [IPv6], [IPv6]:port), any host text, any port,
   any default: the parser returns exactly the host and port the spelling names *)
Theorem c18_forms_parse : forall f d, form_ok f = true -> parse_host_and_port (spell f) d = Ok (endpoint f d).
Proof. exact forms_parse. Qed.

(* command line without -p: accepted with exactly that endpoint (default 22) *)
Theorem c18_cli_forms_no_port_option : forall f, form_ok f = true -> port_ok (form_port f 22) = true ->
  cli_single (spell f) None = COk (form_host f) (form_port f 22).
Proof. exact cli_forms_no_port_option. Qed.

(* command line with -p P: holds for the spellings without own port and without brackets ... *)
Theorem c18_cli_port_option_partial : forall f P, form_ok f = true -> form_has_port_or_brackets f = false -> port_ok P = true ->
  cli_single (spell f) (Some P) = COk (form_host f) P.
Proof. exact cli_port_option_partial. Qed.
(* ... recorded finding: with -p the positional host:port / [IPv6] / [IPv6]:port is not parsed at all *)
Theorem c18_cli_port_option_refuted : exists f P, form_ok f = true /\ port_ok P = true /\ port_ok (form_port f P) = true
  /\ cli_single (spell f) (Some P) <> COk (form_host f) (form_port f P).
Proof. exact cli_port_option_refuted. Qed.
Theorem c18_cli_port_option_bracket_refuted : exists f P, form_ok f = true /\ port_ok P = true
  /\ cli_single (spell f) (Some P) <> COk (form_host f) (form_port f P).
Proof. exact cli_port_option_bracket_refuted. Qed.

(* targets file: any number of blank lines and padded lines (spaces, tabs, ...), each line a documented spelling:
   the targets are exactly the named endpoints, in order, with the given default port *)
Theorem c18_file_forms : forall items d, forallb item_ok items = true ->
  file_targets (render items) d = Ok (map (fun f => endpoint f d) (forms_of items)).
Proof. exact file_forms. Qed.
(* recorded finding: a whitespace-only line becomes a target named '' *)
Theorem c18_file_whitespace_line_refuted : exists pad, pad <> "" /\ forall_s pad_char pad = true
  /\ file_targets (pad ++ String c_nl "")%string 22 = Ok [("", 22)].
Proof. exact file_whitespace_line_refuted. Qed.
(* recorded finding: a file without any target makes the tool audit the host '' *)
Theorem c18_file_no_target_refuted : exists content r, file_lines content = [] /\ run_file content None [] r = RDone [audit_refused [] r "" 22].
Proof. exact run_file_no_target_refuted. Qed.

(* one audit resolves exactly (host, port) with the family of a single -4/-6, dials at most one address, and that
   address is a stream answer of the resolver for that host, of the requested family, with that port *)
Theorem c18_audit_dials_named : forall pref r h p,
  o_gai (audit_refused pref r h p) = [(h, p, gai_family pref)]
  /\ (List.length (o_conn (audit_refused pref r h p)) <= 1)%nat
  /\ forall c, In c (o_conn (audit_refused pref r h p)) ->
       exists e, In e (table r h) /\ e_type e = SOCK_STREAM /\ (gai_family pref = 0 \/ e_fam e = gai_family pref)
                 /\ c = (e_fam e, e_ip e, p).
Proof. exact audit_dials_named. Qed.

(* a whole single-target run of a documented spelling: exactly one audit, of the named endpoint *)
Theorem c18_run_single_named : forall f flags r, form_ok f = true -> port_ok (form_port f 22) = true ->
  run_single (spell f) None flags r = RDone [audit_refused (pref_of_flags flags) r (form_host f) (form_port f 22)].
Proof. exact run_single_named. Qed.
(* a whole -T run of documented spellings with valid ports: one audit per named endpoint, in order *)
Theorem c18_run_file_forms : forall items flags r, forallb item_ok items = true -> forms_of items <> [] ->
  forallb (fun f => port_ok (form_port f 22)) (forms_of items) = true ->
  run_file (render items) None flags r
  = RDone (map (fun f => audit_refused (pref_of_flags flags) r (form_host f) (form_port f 22)) (forms_of items)).
Proof. exact run_file_forms. Qed.

(* ports: nothing is ever resolved or dialled with a port outside 1..65535, for ANY argument / file / option *)
Theorem c18_single_ports_valid : forall arg oport flags r o, In o (obs_of (run_single arg oport flags r)) -> ports_valid o.
Proof. exact run_single_ports. Qed.
Theorem c18_file_ports_valid : forall content oport flags r o, In o (obs_of (run_file content oport flags r)) -> ports_valid o.
Proof. exact run_file_ports. Qed.
(* a bad -p is a usage error, a bad port in the argument ends the run before anything is resolved *)
Theorem c18_bad_port_option_rejected : forall arg P flags r, port_ok P = false -> run_single arg (Some P) flags r = RExit.
Proof. exact run_single_bad_option. Qed.
Theorem c18_bad_port_option_rejected_file : forall content P flags r, port_ok P = false -> run_file content (Some P) flags r = RExit.
Proof. exact run_file_bad_option. Qed.
Theorem c18_bad_port_named_rejected : forall f flags r, form_ok f = true -> port_ok (form_port f 22) = false ->
  run_single (spell f) None flags r = RCrash [].
Proof. exact run_single_bad_named. Qed.
(* recorded finding: an out-of-range port in a targets file aborts the run AFTER the other targets were dialled *)
Theorem c18_file_bad_port_refuted : exists content r o,
  run_file content None [] r = RCrash [o] /\ o_conn o <> [] /\ file_targets content 22 = Ok [("a", 22); ("b", 70000)].
Proof. exact run_file_bad_port_refuted. Qed.

(* IP version options: with a single -4 / -6 every address tried has that family *)
Theorem c18_family_filter : forall pref r h l e, gai_family pref <> 0 ->
  gai r h (gai_family pref) = Some l -> In e (resolve_list pref l) -> e_fam e = gai_family pref.
Proof. exact family_filter. Qed.
(* with a two-family preference the answers are tried family by family, resolver order kept inside a family *)
Theorem c18_family_order : forall l, dual l ->
  order_pref [4; 6] l = filter (fam_is AF_INET) l ++ filter (fam_is AF_INET6) l
  /\ order_pref [6; 4] l = filter (fam_is AF_INET6) l ++ filter (fam_is AF_INET) l.
Proof. exact family_order. Qed.
Theorem c18_first_of_preferred : forall l e t, dual l -> resolve_list [4; 6] l = e :: t ->
  (exists x, In x l /\ e_fam x = AF_INET /\ e_type x = SOCK_STREAM) -> e_fam e = AF_INET.
Proof. exact first_of_preferred. Qed.
(* the options -4, -6, -46 give the preference they name ... *)
Theorem c18_flag_order_partial : pref_of_flags [] = [] /\ pref_of_flags [4] = [4] /\ pref_of_flags [6] = [6] /\ pref_of_flags [4; 6] = [4; 6].
Proof. exact flag_order_partial. Qed.
(* ... recorded finding: -64 does not; IPv4 is dialled although IPv6 was given precedence and is offered *)
Theorem c18_flag_order_refuted : exists flags r h p ip4 ip6,
  flags = [6; 4] /\ table r h = [{| e_fam := AF_INET; e_type := SOCK_STREAM; e_ip := ip4 |}; {| e_fam := AF_INET6; e_type := SOCK_STREAM; e_ip := ip6 |}]
  /\ o_conn (audit_refused (pref_of_flags flags) r h p) = [(AF_INET, ip4, p)].
Proof. exact flag_order_refuted. Qed.
(* the connection rate test picks the same address as the audit unless two families are enabled ... *)
Theorem c18_rate_test_partial : forall pref l, List.length pref <> 2%nat -> rate_first l = hd_error (resolve_list pref l).
Proof. exact rate_test_partial. Qed.
(* ... recorded finding: with two families it ignores their order *)
Theorem c18_rate_test_order_refuted : exists pref l, pref = [4; 6] /\ dual l /\ rate_first l <> hd_error (resolve_list pref l).
Proof. exact rate_test_order_refuted. Qed.

(* labels: the text label ("(gen) target:", policy "Host:") is a documented spelling of exactly (host, port) *)
Theorem c18_text_label_name : forall h p, name_ok h = true -> port_ok p = true -> parse_host_and_port (text_label h p) 22 = Ok (h, p).
Proof. exact text_label_name. Qed.
Theorem c18_text_label_v6 : forall a p, is_ipv6 a = true -> forall_s host_char a = true -> port_ok p = true ->
  parse_host_and_port (text_label a p) 22 = Ok (a, p).
Proof. exact text_label_v6. Qed.
(* the JSON "target" is one for names and IPv4 ... *)
Theorem c18_json_label_name : forall h p d, name_ok h = true -> port_ok p = true -> parse_host_and_port (json_label h p) d = Ok (h, p).
Proof. exact json_label_name. Qed.
(* ... recorded finding: not for IPv6 hosts (no brackets) *)
Theorem c18_json_label_v6_refuted : exists a p, is_ipv6 a = true /\ forall_s host_char a = true /\ port_ok p = true
  /\ parse_host_and_port (json_label a p) 22 <> Ok (a, p).
Proof. exact json_label_v6_refuted. Qed.
