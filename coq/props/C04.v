(* C04 - Terrapin (CVE-2023-48795) exposure is flagged exactly per the published rule. *)
From VModel Require Import Report.
From VProofs Require Import TerrapinProofs.
Open Scope string_scope. Open Scope list_scope. Open Scope Z_scope.

(* for every peer, both roles, every database without prior Terrapin marks, every name the database knows:
   the warning is carried EXACTLY by the ciphers/MACs of the rule; the <-> is the "and no other algorithm" half *)
Theorem c04_terrapin_rule : forall ca bs k dh rn d c n e0,
  terrapin_free d -> db_get d c n = Some e0 ->
  (carries (p_db (post_process ca bs k dh rn d)) c n <->
   has_marker ca k = false /\
   ((c = "enc" /\ is_chacha n = true /\ In n (tp_ciphers ca k)) \/
    (c = "enc" /\ is_cbc n = true /\ In n (tp_ciphers ca k) /\ exists m, In m (tp_macs ca k) /\ is_etm m = true) \/
    (c = "mac" /\ is_etm n = true /\ In n (tp_macs ca k) /\ exists x, In x (tp_ciphers ca k) /\ is_cbc x = true))).
Proof. exact terrapin_rule. Qed.

(* the hypothesis holds of the table generated from the current tree *)
Theorem c04_table_has_no_terrapin_marks : terrapin_free ssh2_db.
Proof. exact ssh2_db_terrapin_free. Qed.

Theorem c04_marked_enc_spec : forall ca k n,
  In n (marked_enc ca k) <->
  (is_chacha n = true /\ In n (tp_ciphers ca k)) \/
  (is_cbc n = true /\ In n (tp_ciphers ca k) /\ exists m, In m (tp_macs ca k) /\ is_etm m = true).
Proof. exact marked_enc_spec. Qed.
Theorem c04_marked_mac_spec : forall ca k n,
  In n (marked_mac ca k) <->
  (is_etm n = true /\ In n (tp_macs ca k) /\ exists c, In c (tp_ciphers ca k) /\ is_cbc c = true).
Proof. exact marked_mac_spec. Qed.

(* marker present: the advisory note names exactly the marked algorithms; marker absent: no advisory *)
Theorem c04_advisory_names_exactly_the_marked : forall ca bs k dh rn d,
  has_marker ca k = true ->
  p_notes (post_process ca bs k dh rn d) =
  (match marked_enc ca k ++ marked_mac ca k with [] => [] | l => [advisory_prefix +++ join ", " l +++ advisory_suffix] end)
  ++ (if String.eqb rn "" then [] else [rn]).
Proof. exact terrapin_advisory. Qed.
Theorem c04_no_advisory_without_marker : forall ca bs k dh rn d,
  has_marker ca k = false -> p_notes (post_process ca bs k dh rn d) = (if String.eqb rn "" then [] else [rn]).
Proof. exact terrapin_no_advisory_without_marker. Qed.

(* ciphers/MACs the operator disabled are on the suppression list, and nothing on it is ever recommended *)
Theorem c04_disabled_algs_suppressed : forall ca bs k dh rn d n,
  (In n (keys (db_cat (p_db (post_process ca bs k dh rn d)) "enc")) /\
     ((is_chacha n = true /\ ~ In n (tp_ciphers ca k)) \/ (is_cbc n = true /\ ~ In n (tp_ciphers ca k))))
  \/ (In n (keys (db_cat (p_db (post_process ca bs k dh rn d)) "mac")) /\ is_etm n = true /\ ~ In n (tp_macs ca k)) ->
  In n (p_suppress (post_process ca bs k dh rn d)).
Proof. exact disabled_terrapin_algs_suppressed. Qed.
Theorem c04_suppressed_never_recommended : forall sw d k suppress r,
  In r (recommendations sw d k suppress) -> ~ In (r_name r) suppress.
Proof. exact recs_never_suppressed. Qed.

(* literals the model repeats from the source are the ones the translator extracts from the current source (gen/Tables.v) *)
From VGen Require Import Tables.
From VModel Require Import Terrapin.
From VProofs Require Import TieC04.
Theorem c04_tie_terrapin_markers : [marker_c; marker_s] = src_pp_markers.
Proof. exact tie_terrapin_markers. Qed.
Theorem c04_tie_advisory : advisory_prefix = src_advisory_prefix /\ advisory_suffix = src_advisory_suffix.
Proof. exact tie_advisory. Qed.

(* the three name tests (ChaCha20-Poly1305, CBC, ETM) and the choice of the direction lists are the expressions of the current source:
   each _get_*_enabled / _get_*_not_enabled helper of post_process_findings() is translated on every run (T1c) and equals the model's predicate for every name *)
Theorem c04_tie_is_chacha : forall n, is_chacha n = src_is_chacha_ciphers n /\ is_chacha n = src_is_chacha_ciphers_db n.
Proof. exact tie_is_chacha. Qed.
Theorem c04_tie_is_cbc : forall n, is_cbc n = src_is_cbc_ciphers n /\ is_cbc n = src_is_cbc_ciphers_db n.
Proof. exact tie_is_cbc. Qed.
Theorem c04_tie_is_etm : forall n, is_etm n = src_is_etm_macs n /\ is_etm n = src_is_etm_macs_db n.
Proof. exact tie_is_etm. Qed.
Theorem c04_tie_directions : forall ca k,
  tp_ciphers ca k = src_chacha_ciphers_list ca (kl_enc_c k) (kl_enc k) (kl_mac_c k) (kl_mac k) /\
  tp_ciphers ca k = src_cbc_ciphers_list ca (kl_enc_c k) (kl_enc k) (kl_mac_c k) (kl_mac k) /\
  tp_macs ca k = src_etm_macs_list ca (kl_enc_c k) (kl_enc k) (kl_mac_c k) (kl_mac k).
Proof. exact tie_directions. Qed.
(* the rule over the source's own name tests and choice of lists (T1c translation): exactly the names passing those tests in those lists carry the warning *)
Theorem c04_src_terrapin_rule : forall ca bs k dh rn d c n e0,
  terrapin_free d -> db_get d c n = Some e0 ->
  (carries (p_db (post_process ca bs k dh rn d)) c n <->
   has_marker ca k = false /\
   ((c = "enc" /\ src_is_chacha_ciphers n = true /\ In n (src_ciphers ca k)) \/
    (c = "enc" /\ src_is_cbc_ciphers n = true /\ In n (src_ciphers ca k) /\ exists m, In m (src_macs ca k) /\ src_is_etm_macs m = true) \/
    (c = "mac" /\ src_is_etm_macs n = true /\ In n (src_macs ca k) /\ exists x, In x (src_ciphers ca k) /\ src_is_cbc_ciphers x = true))).
Proof. exact src_terrapin_rule. Qed.
Theorem c04_tie_extract_ok_terrapin_texts : extract_ok_terrapin_texts = true.
Proof. exact tie_extract_ok_terrapin_texts. Qed.
Theorem c04_tie_has_marker : forall ca k, has_marker ca k = src_has_marker ca (kl_kex k).
Proof. exact tie_has_marker. Qed.
