(* C07 - each target's result is independent of the other targets in the run. *)
From VModel Require Import Multi.
From VProofs Require Import MultiProofs.
Open Scope list_scope.

(* For EVERY well-formed schedule -- any number of targets, any number of worker threads, threads re-used for
   several targets, events of different targets interleaved in any order -- the database each report of target g
   is produced from equals the one a lone run of g's own events produces it from.  D and its edits are arbitrary,
   so this covers every channel through which a scan annotates its per-thread copy (Terrapin marks, key-size
   and modulus notes, OpenSSH note) and both databases. *)
Theorem c07_isolation : forall (D : Type) (master : D) (tr : list (event D)) (g : nat),
  wf D [] [] tr ->
  renders_of D g (run_trace D master [] tr) = renders_of D g (run_trace D master [] (project D g tr)).
Proof. exact isolation. Qed.

(* the statements implementing the per-thread protocol the theorem is about are the ones of the current source (literal match by the translator on every run) *)
From VGen Require Import Tables.
From VProofs Require Import TieC07.
Theorem c07_tie_thread_protocol : List.length src_thread_protocol = 6%nat.
Proof. exact tie_thread_protocol. Qed.
