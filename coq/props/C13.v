(* C13 - recommendations are consistent with the ratings shown. *)
From VModel Require Import Report.
From VProofs Require Import RecsProofs.
Open Scope string_scope. Open Scope list_scope. Open Scope Z_scope.

Theorem c13_del_chg_sound : forall sw d k suppress r,
  In r (recommendations sw d k suppress) -> r_action r <> Add ->
  In (r_name r) (adv_of k (r_cat r)) /\ exists e, In (r_name r, e) (db_cat d (r_cat r)) /\ 0 < faults_of e.
Proof. exact del_chg_sound. Qed.

Theorem c13_del_chg_complete : forall s d k suppress cat n e,
  In cat ["kex"; "key"; "enc"; "mac"] -> In (n, e) (db_cat d cat) -> In n (adv_of k cat) -> 0 < faults_of e ->
  (match versions e with Some v0 :: _ => version_matches (Some s) (negb (mem (sw_product s) rec_vproducts)) true v0 = true | _ => True end) ->
  ~ In n suppress ->
  exists r, In r (recommendations (Some s) d k suppress) /\ r_cat r = cat /\ r_name r = n /\ r_action r <> Add /\ r_level r = level_of_points (faults_of e).
Proof. exact del_chg_complete. Qed.

Theorem c13_critical_iff_fail : forall sw d k suppress r,
  few_warnings d -> In r (recommendations sw d k suppress) -> r_action r <> Add ->
  exists e, In (r_name r, e) (db_cat d (r_cat r)) /\
    (r_level r = Critical <-> nth 1 e [] <> []) /\ (r_level r = Warning <-> nth 1 e [] = []) /\ r_level r <> Informational.
Proof. exact critical_iff_fail. Qed.

Theorem c13_add_sound : forall sw d k suppress r,
  In r (recommendations sw d k suppress) -> r_action r = Add ->
  exists s e v0 vr, sw = Some s /\ mem (sw_product s) rec_vproducts = true /\
    ~ In (r_name r) (adv_of k (r_cat r)) /\ In (r_name r, e) (db_cat d (r_cat r)) /\ faults_of e = 0 /\
    never_add (r_cat r) (r_name r) = false /\ versions e = Some v0 :: vr /\
    version_matches sw false true v0 = true /\ r_level r = Informational.
Proof. exact add_sound. Qed.

Theorem c13_add_del_disjoint : forall sw d k suppress r1 r2,
  In r1 (recommendations sw d k suppress) -> In r2 (recommendations sw d k suppress) ->
  r_cat r1 = r_cat r2 -> r_name r1 = r_name r2 -> r_action r1 = Add -> r_action r2 <> Add -> False.
Proof. exact add_del_disjoint. Qed.

Theorem c13_unknown_software_no_add : forall sw d k suppress r,
  In r (recommendations sw d k suppress) -> r_action r = Add -> exists s, sw = Some s /\ In (sw_product s) rec_vproducts.
Proof. exact unknown_software_no_add. Qed.

Theorem c13_no_software_no_recommendations : forall d k suppress, recommendations None d k suppress = [].
Proof. exact no_software_no_recommendations. Qed.

(* literals the model repeats from the source are the ones the translator extracts from the current source (gen/Tables.v) *)
From VGen Require Import Tables.
From VModel Require Import Recs.
From VProofs Require Import TieC13.
Theorem c13_tie_chg_note : chg_notes = src_chg_note.
Proof. exact tie_chg_note. Qed.

(* the decisions of the recommendation pass as they read now (T1c translation of Algorithms.get_recommendations and get_algorithm_recommendations) *)
Theorem c13_tie_rec_faults : forall e : desc,
  faults_of e = src_rec_faults (Z.of_nat (List.length e)) (Z.of_nat (List.length (nth 1 e []))) (Z.of_nat (List.length (nth 2 e []))).
Proof. exact tie_rec_faults. Qed.
Theorem c13_tie_rec_skip_add : forall faults cat n empty_version,
  ((0 <? faults)%Z || never_add cat n || empty_version) = src_rec_skip_add faults cat n empty_version.
Proof. exact tie_rec_skip_add. Qed.
Theorem c13_tie_rec_token : forall (s : software) for_server v cmp,
  sw_available s (snd (fst (ssh_version v))) = (0 <=? cmp)%Z ->
  (match ssh_version v with
   | (prod, ver, cli) => negb (String.eqb ver "") && String.eqb prod (sw_product s) && negb (cli && for_server) && sw_available s ver
   end) = negb (src_rec_token_skipped (fst (fst (ssh_version v))) (snd (fst (ssh_version v))) (snd (ssh_version v)) for_server true (sw_product s) cmp).
Proof. exact tie_rec_token. Qed.
Theorem c13_tie_rec_level : forall p, rlevel_text (level_of_points p) = src_rec_level p.
Proof. exact tie_rec_level. Qed.
Theorem c13_tie_rec_notes : forall a, (match a with Chg => chg_notes | _ => "" end) = src_rec_notes (action_text a).
Proof. exact tie_rec_notes. Qed.
Theorem c13_tie_rec_orders : map action_text [Del; Add; Chg] = src_rec_actions /\ ["kex"; "key"; "enc"; "mac"] = src_rec_categories.
Proof. exact tie_rec_orders. Qed.
Theorem c13_tie_extract_ok_recommendation_lists : extract_ok_recommendation_lists = true.
Proof. exact tie_extract_ok_recommendation_lists. Qed.
