(* C15 - output options change presentation only, never findings or verdict. *)
From VModel Require Import OutBuf Report.
From VProofs Require Import OutBufProofs RatingProofs.
Open Scope string_scope. Open Scope list_scope.

(* Raising the minimum level only removes lines: for EVERY write-free program of buffer operations (sections,
   heads, separators, sorted sections), the report at the higher level is a subsequence of the one at the lower level.
   Stated for any sort that maps subsequences to subsequences ... *)
Theorem c15_level_only_removes : forall (sortf : list string -> list string),
  (forall a b, Sub a b -> Sub (sortf a) (sortf b)) ->
  forall c l1 l2 prog, (l1 <= l2)%nat -> write_free prog ->
  Sub (fst (run sortf (with_level c l2) prog)) (fst (run sortf (with_level c l1) prog)).
Proof. exact level_only_removes_report. Qed.

(* ... and for lexicographic sorting by code point (what list.sort() does on the section's strings) outright *)
Theorem c15_level_only_removes_sorted : forall c l1 l2 prog, (l1 <= l2)%nat -> write_free prog ->
  Sub (fst (run isort (with_level c l2) prog)) (fst (run isort (with_level c l1) prog)).
Proof. exact level_only_removes_isort. Qed.

Theorem c15_sort_preserves_subsequences : forall a b, Sub a b -> Sub (isort a) (isort b).
Proof. exact isort_sub. Qed.

(* a line at or above the minimum level is never removed or altered *)
Theorem c15_findings_at_or_above_level_preserved : forall c l lns lv s al,
  In (lv, s, al) lns -> passes (with_level c l) lv al = true -> In (colourise c lv s) (emits (with_level c l) lns).
Proof. exact findings_at_or_above_level_preserved. Qed.

(* the verdict is computed from the report's findings (general section and items), never from what is printed: it has no option argument at all *)
Theorem c15_status_is_function_of_items : forall (p : peer) (d0 : db),
  rp_status (report_of p d0) = status_fold exit_GOOD (pr_general p ++ levels_of (rp_items (report_of p d0))).
Proof. exact status_is_function_of_items. Qed.

(* recorded finding: an immediate write (verbose "Starting audit" line) prints a blank line once the level filters it *)
Theorem c15_immediate_write_refuted :
  exists c prog, stdout_lines isort (with_level c 1) prog = [""] /\ stdout_lines isort (with_level c 0) prog = ["Starting audit"].
Proof. exact immediate_write_refuted. Qed.

(* the level filter, the colouring decision and the colour numbers are the statements of the current outputbuffer.py (T1c translation, gen/Tables.v) *)
From VGen Require Import Tables.
From VProofs Require Import TieC15.
Theorem c15_tie_get_level : forall l, src_get_level (olevel_text l) = match lvl_num l with Some k => Z.of_nat k | None => src_maxsize end.
Proof. exact tie_get_level. Qed.
Theorem c15_tie_passes : forall c l always, (c_level c <= 2)%nat ->
  passes c l always = negb (src_print_filtered always (c_json c) (src_get_level (olevel_text l)) (Z.of_nat (c_level c))).
Proof. exact tie_passes. Qed.
Theorem c15_tie_coloured : forall c l s,
  (c_colors c && negb (String.eqb s "") && (match l with OInfo => false | _ => true end)) = src_print_coloured (c_colors c) s (olevel_text l).
Proof. exact tie_coloured. Qed.
Theorem c15_tie_colour_codes : forall l, l <> OInfo -> option_map z_to_string (assoc (olevel_text l) src_outbuf_colors) = Some (colour_code l).
Proof. exact tie_colour_codes. Qed.
