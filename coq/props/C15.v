(* C15 - output options change presentation only, never findings or verdict. *)
From VModel Require Import OutBuf Report.
From VProofs Require Import OutBufProofs RatingProofs.
Open Scope string_scope. Open Scope list_scope.

(* Raising the minimum level only removes lines: for EVERY write-free program of buffer operations (sections,
   heads, separators, sorted sections), the report at the higher level is a subsequence of the one at the lower level.
   Stated for any sort that maps subsequences to subsequences ... *)
Theorem c15_level_only_removes : forall (sortf : list string -> list string),
  (forall a b, Sub a b -> Sub (sortf a) (sortf b)) ->
  forall c l1 l2 prog, (l1 <= l2)%nat -> write_free prog ->
  Sub (fst (run sortf (with_level c l2) prog)) (fst (run sortf (with_level c l1) prog)).
Proof. exact level_only_removes_report. Qed.

(* ... and for lexicographic sorting by code point (what list.sort() does on the section's strings) outright *)
Theorem c15_level_only_removes_sorted : forall c l1 l2 prog, (l1 <= l2)%nat -> write_free prog ->
  Sub (fst (run isort (with_level c l2) prog)) (fst (run isort (with_level c l1) prog)).
Proof. exact level_only_removes_isort. Qed.

Theorem c15_sort_preserves_subsequences : forall a b, Sub a b -> Sub (isort a) (isort b).
Proof. exact isort_sub. Qed.

(* a line at or above the minimum level is never removed or altered *)
Theorem c15_findings_at_or_above_level_preserved : forall c l lns lv s al,
  In (lv, s, al) lns -> passes (with_level c l) lv al = true -> In (colourise c lv s) (emits (with_level c l) lns).
Proof. exact findings_at_or_above_level_preserved. Qed.

(* the verdict is computed from the report's findings (general section and items), never from what is printed: it has no option argument at all *)
Theorem c15_status_is_function_of_items : forall (p : peer) (d0 : db),
  rp_status (report_of p d0) = status_fold exit_GOOD (pr_general p ++ levels_of (rp_items (report_of p d0))).
Proof. exact status_is_function_of_items. Qed.

(* recorded finding: an immediate write (verbose "Starting audit" line) prints a blank line once the level filters it *)
Theorem c15_immediate_write_refuted :
  exists c prog, stdout_lines isort (with_level c 1) prog = [""] /\ stdout_lines isort (with_level c 0) prog = ["Starting audit"].
Proof. exact immediate_write_refuted. Qed.
