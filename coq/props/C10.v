(* C10 - wire encoding and decoding are exact inverses; packets are well-framed. *)
From VModel Require Import Wire.
From VProofs Require Import WireProofs.
Open Scope list_scope. Open Scope Z_scope.

Theorem c10_be_bytes_length : forall k v, List.length (be_bytes k v) = k.
Proof. exact be_bytes_length. Qed.
