(* C10 - wire encoding and decoding are exact inverses; packets are well-framed.
   Statements only; proofs are `exact <lemma>` from proofs/WireProofs.v and proofs/NetProofs.v. *)
From VModel Require Import Net.
From VProofs Require Import WireProofs NetProofs.
Open Scope list_scope. Open Scope Z_scope.

Theorem c10_byte_roundtrip : forall v r bs, enc_byte v = Ok bs -> dec_byte (bs ++ r) = Ok (v, r).
Proof. exact byte_roundtrip. Qed.

Theorem c10_bool_roundtrip : forall b r, dec_bool (enc_bool b ++ r) = Ok (b, r).
Proof. exact bool_roundtrip. Qed.

Theorem c10_u32_roundtrip : forall v r bs, enc_u32 v = Ok bs -> dec_u32 (bs ++ r) = Ok (v, r).
Proof. exact u32_roundtrip. Qed.

Theorem c10_string_roundtrip : forall s r bs, enc_string s = Ok bs -> dec_string (bs ++ r) = Ok (s, r).
Proof. exact string_roundtrip. Qed.

(* name-lists: non-empty list, no name contains a comma (RFC 4251 names never do) *)
Theorem c10_namelist_roundtrip : forall l r bs,
  l <> [] -> Forall (no_sep 44) l -> enc_namelist l = Ok bs -> dec_namelist (bs ++ r) = Ok (l, r).
Proof. exact namelist_roundtrip. Qed.

(* decoding then re-encoding the text of a name-list gives the same text, for EVERY byte string *)
Theorem c10_namelist_reencode : forall s, join_bytes 44 (split_bytes 44 s) = s.
Proof. exact (join_split 44). Qed.

(* SSH-2 mpint, both signs, unbounded: the reader's 32-bit word loop inverts the writer *)
Theorem c10_mpint2_roundtrip : forall n r bs, enc_mpint2 n = Ok bs -> dec_mpint2 (bs ++ r) = Ok (n, r).
Proof. exact mpint2_roundtrip. Qed.

(* the reader computes the RFC 4251 two's complement value of ANY well-formed string *)
Theorem c10_mpint2_reader_is_twos_complement : forall v r bs,
  wfb v -> enc_string v = Ok bs -> dec_mpint2 (bs ++ r) = Ok (mpint2_value v, r).
Proof. exact dec_mpint2_value. Qed.

(* the writer emits the two's complement value in at most bitlen/8+1 bytes (no redundant sign byte) *)
Theorem c10_mpint2_writer_value : forall n, mpint2_value (create_mpint n true (bitlen n)) = n.
Proof. exact mpint2_value_create. Qed.
Theorem c10_mpint2_writer_minimal : forall n, zlen (create_mpint n true (bitlen n)) <= mp_len n.
Proof. exact create_mpint_signed_length. Qed.

(* recorded finding: SSH-1 mpints of negative numbers cannot round-trip *)
Theorem c10_mpint1_negative_refuted : exists n bs, n < 0 /\ enc_mpint1 n = Ok bs /\ dec_mpint1 bs <> Ok (n, []).
Proof. exact mpint1_negative_refuted. Qed.

(* RFC 4253 section 6, for every payload *)
Theorem c10_frame_wf : forall payload data,
  frame payload = Ok data ->
  let pad := pad_len (zlen payload) in
  data = be_bytes 4 (zlen payload + pad + 1) ++ [pad] ++ payload ++ repeat 0 (Z.to_nat pad)
  /\ zlen data = 4 + (zlen payload + pad + 1)
  /\ zlen data mod 8 = 0
  /\ 4 <= pad <= 255
  /\ val (firstn 4 data) = zlen data - 4.
Proof. exact frame_wf. Qed.

(* the tool's own packet reader returns exactly what was framed, whatever follows, for all lengths *)
Theorem c10_read_frame : forall t pl data rest cs e,
  frame (t :: pl) = Ok data ->
  read_packet2 (mk (data ++ rest) cs e) = (mk rest cs e, PktOk t pl).
Proof. exact read_frame. Qed.

(* whole KEXINIT messages *)
From VProofs Require Import MsgProofs.
Theorem c10_kexinit_roundtrip : forall k p r, wf_kexinit k -> write_kexinit k = Ok p -> parse_kexinit (p ++ r) = Ok (k, r).
Proof. exact kexinit_roundtrip. Qed.

(* SSH-1 mpint (unsigned, 16-bit bit count) for every non-negative integer that fits, and whole SSH-1 public key messages *)
Theorem c10_mpint1_roundtrip : forall n r bs, 0 <= n -> enc_mpint1 n = Ok bs -> dec_mpint1 (bs ++ r) = Ok (n, r).
Proof. exact mpint1_roundtrip. Qed.
Theorem c10_pkm_roundtrip : forall m p r, wf_pkm m -> write_pkm m = Ok p -> parse_pkm (p ++ r) = Ok (m, r).
Proof. exact pkm_roundtrip. Qed.

(* SSH-1 CRC-32: the table built by SSH1_CRC32.__init__ (dumped from the running code) is the model's table, the table-driven byte step
   is eight steps of the bit-serial shift register with polynomial 0xedb88320 for every register value and byte, so the checksum of every
   byte string is the bit-serial CRC, and it always fits the 32-bit field it is packed into *)
From VGen Require Import Tables.
From VProofs Require Import CrcProofs.
Theorem c10_crc_table : py_crc_table = crc_table.
Proof. exact py_crc_table_is_model_table. Qed.
Theorem c10_crc_step_bitserial : forall crc b, 0 <= b < 256 -> crc_step crc b = crc_bits 8 crc b.
Proof. exact crc_step_is_bitserial. Qed.
Theorem c10_crc_calc_bitserial : forall v, Forall (fun b => 0 <= b < 256) v -> crc_calc v = fold_left (crc_bits 8) v 0.
Proof. exact crc_calc_is_bitserial. Qed.
Theorem c10_crc_calc_u32 : forall v, Forall (fun b => 0 <= b < 256) v -> 0 <= crc_calc v < 2 ^ 32.
Proof. exact crc_calc_u32. Qed.

(* a connection carries more than one packet: after returning a packet the reader stands exactly behind it, for every segmentation
   of the byte stream, so every framed packet of a stream is read back unchanged in turn (whatever follows the last one) *)
From VProofs Require Import SegProofs SeqProofs.
Theorem c10_reader_state_segmentation : forall buf cs e, nonempty_chunks cs -> wfb (buf ++ List.concat cs) ->
  norm (read_packet2 {| s_buf := buf; s_chunks := cs; s_end := e |}) = norm (read_packet2 {| s_buf := buf ++ List.concat cs; s_chunks := []; s_end := e |}).
Proof. exact read_packet2_segmentation_state. Qed.
Theorem c10_read_stream : forall ps ds cs e tail, Forall2 framed ps ds -> nonempty_chunks cs -> wfb (List.concat cs) ->
  List.concat cs = List.concat ds ++ tail ->
  read_many (List.length ps) {| s_buf := []; s_chunks := cs; s_end := e |} = map (fun p => PktOk (fst p) (snd p)) ps.
Proof. exact read_stream_fresh. Qed.

(* the padding and length arithmetic of the model is what the translator derives, statement by statement, from the current
   ssh_socket.py (send_packet; SSH-1 branch of read_packet) *)
From VProofs Require Import TieC10.
Theorem c10_tie_send_packet_padding : forall n, pad_len n = src_send_packet_padding n.
Proof. exact tie_send_packet_padding. Qed.
Theorem c10_tie_send_packet_length : forall n, n + pad_len n + 1 = src_send_packet_length n.
Proof. exact tie_send_packet_length. Qed.
Theorem c10_tie_ssh1_padding_length : forall plen, 8 - plen mod 8 = src_ssh1_padding_length plen.
Proof. exact tie_ssh1_padding_length. Qed.
Theorem c10_tie_ssh2_payload_length : forall plen padlen, plen - padlen - 1 = src_ssh2_payload_length plen padlen.
Proof. exact tie_ssh2_payload_length. Qed.
Theorem c10_tie_ssh2_block_test : forall paylen padlen, (4 + 1 + paylen + padlen) mod 8 = src_ssh2_check_size paylen padlen mod src_block_size.
Proof. exact tie_ssh2_block_test. Qed.
Theorem c10_tie_ssh1_block_test : forall padlen plen, (padlen + plen) mod 8 = src_ssh1_check_size padlen plen mod src_block_size.
Proof. exact tie_ssh1_block_test. Qed.
(* SSH1_CRC32 as it reads now (T1c translation of calc()'s loop body and of the constructor's inner loop body) *)
Theorem c10_tie_crc_step : forall crc b, src_crc_step crc_table crc b = crc_step crc b.
Proof. exact tie_crc_step. Qed.
Theorem c10_tie_crc_bit_step : forall k crc n, crc_bits (S k) crc n = crc_bits k (fst (src_crc_bit_step crc n)) (snd (src_crc_bit_step crc n)).
Proof. exact tie_crc_bit_step. Qed.
(* the message codecs are the statement sequences of the current source (T1d translation, gen/Codecs.v): field order, primitive per field, and the
   property each decoded value reaches *)
From VGen Require Import Codecs.
Theorem c10_tie_parse_kexinit : forall p, parse_kexinit p = src_parse_kexinit p.
Proof. exact tie_parse_kexinit. Qed.
Theorem c10_tie_write_kexinit : forall k, write_kexinit k = src_write_kexinit k.
Proof. exact tie_write_kexinit. Qed.
Theorem c10_tie_parse_pkm : forall p, parse_pkm p = src_parse_pkm p.
Proof. exact tie_parse_pkm. Qed.
Theorem c10_tie_write_pkm : forall m, write_pkm m = src_write_pkm m.
Proof. exact tie_write_pkm. Qed.
(* the checksum as computed by the statements of the current source: loop body of calc() folded over the table the constructor's loop builds *)
Theorem c10_src_crc_calc_bitserial : forall v, Forall (fun b => 0 <= b < 256) v ->
  fold_left (src_crc_step py_crc_table) v 0 = fold_left (crc_bits 8) v 0 /\ 0 <= fold_left (src_crc_step py_crc_table) v 0 < 2 ^ 32.
Proof. exact src_crc_calc_bitserial. Qed.
Theorem c10_src_crc_table_built : py_crc_table = map (fun i => fst (iter_bit_step 8 (0, Z.of_nat i))) (seq 0 256).
Proof. exact src_crc_table_built. Qed.
Theorem c10_tie_dheat_padding : forall n, pad_len n = src_dheat_padding n.
Proof. exact tie_dheat_padding. Qed.
