(* C02 - exit status reflects the worst finding; incomplete audits never look clean. *)
From VModel Require Import Report.
From VProofs Require Import RatingProofs AuditProofs.
From VModel Require Import AuditSM.
Open Scope string_scope. Open Scope list_scope. Open Scope Z_scope.

Theorem c02_exit_codes_documented : exit_GOOD = 0 /\ exit_CONNECTION_ERROR = 1 /\ exit_WARNING = 2 /\ exit_FAILURE = 3.
Proof. exact exit_codes_documented. Qed.

(* for every sequence of note levels, in every order: failure is sticky, warning never downgrades it *)
Theorem c02_status_fold_spec : forall ls,
  (status_fold exit_GOOD ls = exit_FAILURE <-> In LFail ls) /\
  (status_fold exit_GOOD ls = exit_WARNING <-> ~ In LFail ls /\ In LWarn ls) /\
  (status_fold exit_GOOD ls = exit_GOOD <-> ~ In LFail ls /\ ~ In LWarn ls).
Proof. exact status_fold_spec. Qed.

(* the status of a standard audit of ANY peer is the worst level among the levelled findings of its report: the general section's
   (a protocol-1.x banner is a failure, a banner with non-printable characters a warning) and the notes of the algorithm items *)
Theorem c02_report_status_is_worst : forall (p : peer) (d0 : db),
  let r := report_of p d0 in
  (rp_status r = exit_FAILURE <-> In LFail (report_levels p r)) /\
  (rp_status r = exit_WARNING <-> ~ In LFail (report_levels p r) /\ In LWarn (report_levels p r)) /\
  (rp_status r = exit_GOOD <-> ~ In LFail (report_levels p r) /\ ~ In LWarn (report_levels p r)).
Proof. exact report_status_is_worst. Qed.
Theorem c02_report_levels : forall p r l,
  In l (report_levels p r) <-> In l (pr_general p) \/ exists it, In it (rp_items r) /\ In l (map fst (snd it)).
Proof. exact report_levels_in. Qed.
Theorem c02_failure_iff : forall (p : peer) (d0 : db),
  let r := report_of p d0 in
  rp_status r = exit_FAILURE <-> In LFail (pr_general p) \/ exists it, In it (rp_items r) /\ In LFail (map fst (snd it)).
Proof. exact report_status_failure_iff. Qed.

Theorem c02_policy_status : forall passed,
  (policy_exit passed = exit_GOOD <-> passed = true) /\ (policy_exit passed = exit_FAILURE <-> passed = false).
Proof. exact policy_status. Qed.

(* an audit that could not obtain and parse the peer's algorithm lists exits 1 (never 0, 2 or 3); no report exists on that path *)
Theorem c02_incomplete_never_clean : forall sshv a hs hs1 st,
  (forall k, match hs with HsPacket p => classify sshv a p <> ApKex k | _ => True end) ->
  (forall m, match hs with HsPacket p => classify sshv a p <> ApPkm m | _ => True end) ->
  (forall k, match hs1 with HsPacket p => classify 1 a p <> ApKex k | _ => True end) ->
  (forall m, match hs1 with HsPacket p => classify 1 a p <> ApPkm m | _ => True end) ->
  (forall e, audit_exit sshv a hs hs1 st <> Uncaught e) ->
  audit_exit sshv a hs hs1 st = Exit exit_CONNECTION_ERROR.
Proof. exact bad_handshake_exit1. Qed.

(* the status update is the statement of the current source: output_algorithm()'s `if level == 'fail': ... elif level == 'warn' and
   program_retval != exitcodes.FAILURE: ...`, translated by the T1c translator on every run (gen/Tables.v), equals the model's status_step *)
From VGen Require Import Tables.
From VProofs Require Import TieC02.
Theorem c02_tie_status_step : forall st l, status_step st l = src_status_step st (level_text l).
Proof. exact tie_status_step. Qed.
Theorem c02_tie_status_step_other : forall st s, s <> "fail"%string -> s <> "warn"%string -> src_status_step st s = st.
Proof. exact tie_status_step_other. Qed.
Theorem c02_tie_policy_exit : forall passed, policy_exit passed = src_policy_exit passed.
Proof. exact tie_policy_exit. Qed.
(* hence, for the update as it reads in the current source: folding it over the note levels of a report, in any order, yields the worst one *)
Theorem c02_src_status_fold_spec : forall ls,
  let f := fold_left (fun s l => src_status_step s (level_text l)) ls exit_GOOD in
  (f = exit_FAILURE <-> In LFail ls) /\ (f = exit_WARNING <-> ~ In LFail ls /\ In LWarn ls) /\ (f = exit_GOOD <-> ~ In LFail ls /\ ~ In LWarn ls).
Proof. exact src_status_fold_spec. Qed.
