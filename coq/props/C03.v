(* C03 - an algorithm's rating depends only on the algorithm (and the documented measured attributes), in every view. *)
From VModel Require Import Report.
From VProofs Require Import RatingProofs TerrapinProofs.
Open Scope string_scope. Open Scope list_scope. Open Scope Z_scope.

(* the ONLY channels through which a scan changes an entry: the OpenSSH-2048 note and the Terrapin marks,
   each a function of the peer's context, never of position or neighbours *)
Theorem c03_final_db_pointwise : forall ca bs k dh rn d c n,
  db_get (p_db (post_process ca bs k dh rn d)) c n = option_map (edit_of ca bs k dh c n) (db_get d c n).
Proof. exact final_db_pointwise. Qed.

Theorem c03_texts_depend_only_on_entry : forall d1 d2 c n,
  db_get d1 c (lookup_name c n) = db_get d2 c (lookup_name c n) ->
  alg_texts d1 c n = alg_texts d2 c n /\ json_notes d1 c n = json_notes d2 c n.
Proof. exact texts_depend_only_on_entry. Qed.

Theorem c03_item_is_pointwise : forall d p c n s t,
  In (c, n, s, t) (items_of d p) ->
  alg_texts d c n = Some t /\ s = display (shown_name c n (pr_hostkeys p) (pr_dh p)) /\ In n (match assoc c (cat_lists (pr_k p)) with Some l => l | None => [] end).
Proof. exact item_is_pointwise. Qed.

Theorem c03_text_json_agree : forall d c n e,
  str_is_blank (lookup_name c n) = false -> db_get d c (lookup_name c n) = Some e ->
  exists t, alg_texts d c n = Some t /\
    (forall s, In (LFail, s) t <-> In s (j_fail (json_notes d c n))) /\
    (forall s, In (LWarn, s) t <-> In s (j_warn (json_notes d c n))) /\
    (forall s, s <> "" -> (In (LInfo, s) t <-> In s (j_info (json_notes d c n)))).
Proof. exact text_json_agree. Qed.

Theorem c03_unknown_flagged : forall d c n,
  str_is_blank (lookup_name c n) = false -> db_get d c (lookup_name c n) = None ->
  alg_texts d c n = Some [(LWarn, unknown_text)] /\ j_fail (json_notes d c n) = [k2_FAIL_UNKNOWN].
Proof. exact unknown_flagged. Qed.

Theorem c03_unknown_never_good : forall p d0 c n,
  let r := report_of p d0 in
  In (c, n) (map (fun it => match it with (c, n, _, _) => (c, n) end) (rp_items r)) ->
  db_get (rp_db r) c (lookup_name c n) = None ->
  rp_status r <> exit_GOOD.
Proof. exact unknown_makes_status_nonzero. Qed.

(* literals the model repeats from the source are the ones the translator extracts from the current source (gen/Tables.v) *)
From VGen Require Import Tables.
From VModel Require Import Rating.
From VProofs Require Import TieC03.
Theorem c03_tie_unknown_text : unknown_text = src_unknown_text.
Proof. exact tie_unknown_text. Qed.
(* the reading of one "available since" token (product, version, client-only flag) is Algorithm.get_ssh_version as it reads now (T1c translation) *)
Theorem c03_tie_ssh_version : forall v, ssh_version v = src_get_ssh_version v.
Proof. exact tie_ssh_version. Qed.
(* the "available since" text is Algorithm.get_since_text as it reads now (T1c translation of its loop body, its token reader and its final join) *)
Theorem c03_tie_since_text : forall vers,
  since_text vers =
  match vers with
  | Some v0 :: _ =>
      match flat_map (fun v => src_since_token (fst (fst (src_get_ssh_version v))) (snd (fst (src_get_ssh_version v))) (snd (src_get_ssh_version v))) (split_on ","%char v0) with
      | [] => None
      | tv => Some (src_since_join tv)
      end
  | _ => None
  end.
Proof. exact tie_since_text. Qed.
(* what is shown for a name the database knows is the notes assembly of output_algorithm() as it reads now (T1c translation: the loop over the three levels, the
   optional notes of each component, the "available since" text), for every entry *)
Theorem c03_tie_alg_texts_known : forall e,
  map (fun p => (level_text (fst p), snd p)) (known_texts e) = src_alg_texts_known e (since_text (versions e)).
Proof. exact tie_alg_texts_known. Qed.
Theorem c03_alg_texts_known_texts : forall d cat name e,
  str_is_blank (lookup_name cat name) = false -> db_get d cat (lookup_name cat name) = Some e -> alg_texts d cat name = Some (known_texts e).
Proof. exact alg_texts_known_texts. Qed.
Theorem c03_tie_gss_lookup : forall cat name,
  (String.eqb cat "kex" && starts_with "gss-" name) = src_gss_lookup_text cat name /\ (String.eqb cat "kex" && starts_with "gss-" name) = src_gss_lookup_json cat name.
Proof. exact tie_gss_lookup. Qed.
