(* C11 - host-key sizes, CA details and fingerprints are measured and rated correctly.
   Statements only; proofs are `exact <lemma>` from proofs/HostKeyProofs.v.
   Model: model/HostKey.v (kexdh.py recv_reply / __parse_ca_key / __adjust_key_size, hostkeytest.py perform_test,
   ssh_audit.py fingerprint selection).  `small l` = the byte string fits an SSH string (length < 2^32). *)
From VModel Require Import HostKey.
From VProofs Require Import WireProofs HostKeyProofs.
Open Scope string_scope. Open Scope list_scope. Open Scope Z_scope.

(* ---------- measured sizes ---------- *)
(* the modulus field of a k-bit key, k a multiple of 16 (every step-64 size), with or without the leading zero byte *)
Theorem c11_modulus_field_size : forall k len, 0 < k -> k mod 16 = 0 -> (len = k / 8 \/ len = k / 8 + 1) -> adjust_key_size len = k.
Proof. exact adjust_multiple_of_16. Qed.

(* an ssh-rsa key (e, n) encoded as RFC 4251 mpints in a KEXDH reply: the reported size is the bit length of n
   whenever that is a multiple of 16; the returned blob (fingerprint input) is the presented blob; no CA *)
Theorem c11_rsa_size : forall e n k f sig, rsa_reply_ok e n f sig -> bitlen n = k -> k mod 16 = 0 ->
  exists r, parse_reply (reply_payload (rsa_key_blob_of e n) f sig) = Ok r
            /\ r_blob r = rsa_key_blob_of e n /\ hostkey_size r = k /\ r_ca_type r = "" /\ ca_size r = 0.
Proof. exact rsa_size. Qed.

(* recorded finding: for bit lengths = 8 mod 16 the byte-parity heuristic reports 8 bits too many ... *)
Theorem c11_rsa_size_refuted :
  exists e n f sig r, rsa_reply_ok e n f sig /\ bitlen n mod 16 = 8
    /\ parse_reply (reply_payload (rsa_key_blob_of e n) f sig) = Ok r /\ hostkey_size r <> bitlen n.
Proof. exact rsa_size_refuted. Qed.
Theorem c11_rsa_size_mod8_is_plus8 : forall e n k f sig, rsa_reply_ok e n f sig -> bitlen n = k -> k mod 16 = 8 ->
  exists r, parse_reply (reply_payload (rsa_key_blob_of e n) f sig) = Ok r /\ hostkey_size r = k + 8.
Proof. exact rsa_size_mod8. Qed.
(* ... and the strongest true statement for every modulus: 16 * ((bits/8 + 1) / 2), within -7 .. +8 of the truth *)
Theorem c11_rsa_size_partial : forall e n f sig, rsa_reply_ok e n f sig ->
  exists r, parse_reply (reply_payload (rsa_key_blob_of e n) f sig) = Ok r
            /\ r_blob r = rsa_key_blob_of e n /\ r_ca_type r = "" /\ ca_size r = 0
            /\ hostkey_size r = measured (bitlen n)
            /\ bitlen n - 7 <= hostkey_size r <= bitlen n + 8.
Proof. exact rsa_size_general. Qed.

Theorem c11_ed25519_size : forall pk f sig, small pk -> pk <> [] -> small (ed25519_key_blob pk) -> small f -> small sig ->
  exists r, parse_reply (reply_payload (ed25519_key_blob pk) f sig) = Ok r
            /\ r_blob r = ed25519_key_blob pk /\ hostkey_size r = 256 /\ r_ca_type r = "" /\ ca_size r = 0.
Proof. exact ed25519_size. Qed.
Theorem c11_ed448_size : forall pk f sig, small pk -> pk <> [] -> small (ed448_key_blob pk) -> small f -> small sig ->
  exists r, parse_reply (reply_payload (ed448_key_blob pk) f sig) = Ok r
            /\ r_blob r = ed448_key_blob pk /\ hostkey_size r = 448 /\ r_ca_type r = "" /\ ca_size r = 0.
Proof. exact ed448_size. Qed.

(* ---------- certificates: CA type and size ---------- *)
(* whatever the certificate's other fields contain, the CA reported is the CA key embedded in the blob *)
Theorem c11_cert_reports_ca_rsa_cert : forall c e n ca cat cal f sig,
  cert_ok c -> small e -> small n -> e <> [] -> n <> [] -> small ca -> small (rsa_cert_blob c e n ca) -> small f -> small sig ->
  parse_ca_blob ca = Ok (cat, cal) ->
  exists r, parse_reply (reply_payload (rsa_cert_blob c e n ca) f sig) = Ok r
            /\ r_blob r = rsa_cert_blob c e n ca /\ hostkey_size r = adjust_key_size (zlen n)
            /\ r_ca_type r = cat /\ ca_size r = adjust_key_size cal.
Proof. exact cert_reports_ca_rsa_cert. Qed.
Theorem c11_cert_reports_ca_ed25519_cert : forall c pk ca cat cal f sig,
  cert_ok c -> zlen pk = 32 -> cf_nonce c <> [] -> small ca -> small (ed25519_cert_blob c pk ca) -> small f -> small sig ->
  parse_ca_blob ca = Ok (cat, cal) ->
  exists r, parse_reply (reply_payload (ed25519_cert_blob c pk ca) f sig) = Ok r
            /\ r_blob r = ed25519_cert_blob c pk ca /\ hostkey_size r = 256
            /\ r_ca_type r = cat /\ ca_size r = adjust_key_size cal.
Proof. exact cert_reports_ca_ed25519_cert. Qed.
(* the three CA kinds *)
Theorem c11_ca_rsa : forall e n k, 0 < e -> 0 < n -> small (mpint_body e) -> small (mpint_body n) -> bitlen n = k -> k mod 16 = 0 ->
  exists cal, parse_ca_blob (rsa_key_blob_of e n) = Ok ("ssh-rsa", cal) /\ adjust_key_size cal = k.
Proof. exact ca_rsa_size. Qed.
Theorem c11_ca_rsa_partial : forall e n, 0 < e -> 0 < n -> small (mpint_body e) -> small (mpint_body n) ->
  exists cal, parse_ca_blob (rsa_key_blob_of e n) = Ok ("ssh-rsa", cal) /\ adjust_key_size cal = measured (bitlen n).
Proof. exact ca_rsa_size_general. Qed.
Theorem c11_ca_ed25519 : forall pk, small pk -> parse_ca_blob (ed25519_key_blob pk) = Ok ("ssh-ed25519", 32) /\ adjust_key_size 32 = 256.
Proof. exact ca_ed25519_size. Qed.
Theorem c11_ca_ecdsa : forall curve x y cl, nist_curve curve -> zlen x = cl -> zlen y = cl -> cl < 1000000 ->
  parse_ca_blob (ecdsa_key_blob curve (x ++ y)) = Ok ("ecdsa-sha2-" +++ curve, cl).
Proof. exact ca_ecdsa_size. Qed.
Theorem c11_ca_ecdsa_sizes : adjust_key_size 32 = 256 /\ adjust_key_size 48 = 384 /\ adjust_key_size 66 = 528.
Proof. exact ecdsa_sizes. Qed.
(* recorded finding: a P-521 CA is reported as 528 bits *)
Theorem c11_ca_p521_size_refuted :
  exists x y cal, zlen x = 66 /\ zlen y = 66
    /\ parse_ca_blob (ecdsa_key_blob "nistp521" (x ++ y)) = Ok ("ecdsa-sha2-nistp521", cal) /\ adjust_key_size cal <> 521.
Proof. exact ca_p521_size_refuted. Qed.

(* ---------- thresholds, for all sizes ---------- *)
Theorem c11_rsa_thresholds_host : forall name s, mem name rsa_family = true -> 0 < s ->
  size_notes name false s "" 0 =
  (if s <? 2048 then [note_small "" s] else [], if (2048 <=? s) && (s <? 3072) then [hk_two2k_warning] else []).
Proof. exact rsa_thresholds_host. Qed.
Theorem c11_rsa_thresholds_cert : forall name hs cat cs, rsa_cert_type name -> mem cat rsa_family = true -> 0 < hs -> 0 < cs ->
  size_notes name true hs cat cs =
  ((if hs <? 2048 then [note_small "hostkey " hs] else []) ++ (if cs <? 2048 then [note_small "CA key " cs] else []),
   if ((2048 <=? hs) && (hs <? 3072)) || ((2048 <=? cs) && (cs <? 3072)) then [hk_two2k_warning] else []).
Proof. exact rsa_thresholds_cert. Qed.
Theorem c11_rsa_thresholds_ca_of_ed25519_cert : forall cat cs, mem cat rsa_family = true -> 0 < cs ->
  size_notes ed25519_cert_name true 256 cat cs =
  (if cs <? 2048 then [note_small "CA key " cs] else [], if (2048 <=? cs) && (cs <? 3072) then [hk_two2k_warning] else []).
Proof. exact rsa_thresholds_ca_of_ed25519_cert. Qed.
Theorem c11_ed25519_no_size_note : size_notes "ssh-ed25519" false 256 "" 0 = ([], []).
Proof. exact ed25519_no_size_note. Qed.
(* Ed448 (repaired by af30915): no size note for any size from 256 bits; end to end for every Ed448 key *)
Theorem c11_ed448_no_size_note : forall s, 256 <= s -> size_notes "ssh-ed448" false s "" 0 = ([], []).
Proof. exact ed448_no_size_note. Qed.
Theorem c11_ed448_end_to_end : forall pk f sig, small pk -> pk <> [] -> small (ed448_key_blob pk) -> small f -> small sig ->
  exists r, parse_reply (reply_payload (ed448_key_blob pk) f sig) = Ok r /\ hostkey_size r = 448
            /\ size_notes "ssh-ed448" false (hostkey_size r) (r_ca_type r) (ca_size r) = ([], []).
Proof. exact ed448_end_to_end. Qed.
(* recorded finding: a key below 2048 bits that is not failed (consequence of c11_rsa_size_refuted) *)
Theorem c11_rsa_below_2048_fails_refuted :
  exists e n f sig r, rsa_reply_ok e n f sig /\ bitlen n < 2048
    /\ parse_reply (reply_payload (rsa_key_blob_of e n) f sig) = Ok r
    /\ fst (size_notes "ssh-rsa" false (hostkey_size r) (r_ca_type r) (ca_size r)) = [].
Proof. exact rsa_below_2048_fails_refuted. Qed.

(* ---------- the rating never gets worse as a key grows ---------- *)
Theorem c11_rating_monotone_host : forall name s s', mem name rsa_family = true -> 0 < s -> s <= s' ->
  severity (size_notes name false s' "" 0) <= severity (size_notes name false s "" 0).
Proof. exact rating_monotone_host. Qed.
Theorem c11_rating_monotone_cert : forall name cat hs hs' cs cs', rsa_cert_type name -> mem cat rsa_family = true ->
  0 < hs -> hs <= hs' -> 0 < cs -> cs <= cs' ->
  severity (size_notes name true hs' cat cs') <= severity (size_notes name true hs cat cs).
Proof. exact rating_monotone_cert. Qed.
(* also through the (imprecise) measurement: more modulus bits, never a worse rating *)
Theorem c11_rating_monotone_bits : forall name k k', mem name rsa_family = true -> 16 <= k -> k <= k' ->
  severity (size_notes name false (measured k') "" 0) <= severity (size_notes name false (measured k) "" 0).
Proof. exact rating_monotone_bits. Qed.

(* ---------- fingerprints ---------- *)
(* one entry per fingerprint name, sorted; never for a *-cert-* type, never under rsa-sha2-256/512 (the family is one
   ssh-rsa entry); every entry hashes the blob recorded for a type that maps to it; every non-certificate type is covered *)
Theorem c11_fingerprints_select : forall hks,
  let es := fingerprint_entries hks in
  NoDup (map fst es) /\ Sorted.Sorted kv_le es
  /\ (forall t b, In (t, b) es ->
        has_cert_tag t = false /\ t <> "rsa-sha2-256" /\ t <> "rsa-sha2-512"
        /\ exists name v, In (name, v) hks /\ fp_name name = t /\ h_blob v = b)
  /\ (forall name v, In (name, v) hks -> has_cert_tag (fp_name name) = false -> exists b, In (fp_name name, b) es).
Proof. exact fingerprints_select. Qed.
(* SHA-256 and MD5 are arbitrary functions here: the printed hashes are those functions applied to the entry's blob *)
Theorem c11_fin_json_hashes : forall (sha256 md5 : list Z -> string) hks t alg h,
  In (t, alg, h) (fin_json sha256 md5 hks) ->
  exists b, In (t, b) (fingerprint_entries hks)
            /\ ((alg = "SHA256" /\ h = str_skip 7 (sha256 b)) \/ (alg = "MD5" /\ h = str_skip 4 (md5 b))).
Proof. exact fin_json_hashes. Qed.
Theorem c11_fin_json_complete : forall (sha256 md5 : list Z -> string) hks t b,
  In (t, b) (fingerprint_entries hks) ->
  In (t, "SHA256", str_skip 7 (sha256 b)) (fin_json sha256 md5 hks) /\ In (t, "MD5", str_skip 4 (md5 b)) (fin_json sha256 md5 hks).
Proof. exact fin_json_complete. Qed.
Theorem c11_fin_lines_hashes : forall (sha256 md5 : list Z -> string) verbose hks ln,
  In ln (fin_lines sha256 md5 verbose hks) ->
  exists t b, In (t, b) (fingerprint_entries hks)
    /\ (starts_with (t +++ ": " +++ sha256 b) ln = true \/ starts_with (t +++ ": " +++ md5 b) ln = true).
Proof. exact fin_lines_hashes. Qed.

(* ---------- the probe loop ---------- *)
(* no reply (or an unusable one): nothing is recorded - no size, no CA, no fingerprint input, no note *)
Theorem c11_no_reply_no_key : forall tbl l probe d, (forall n, unusable (probe n)) -> perform_test_on tbl l probe d = hk_init d.
Proof. exact no_reply_no_key. Qed.
Theorem c11_no_reply_no_key_for_type : forall tbl l probe d t,
  (forall name, feeds name t -> unusable (probe name)) ->
  let st := perform_test_on tbl l probe d in
  assoc t (st_hostkeys st) = None /\ db_get (st_db st) "key" t = db_get d "key" t.
Proof. exact no_reply_no_key_for_type. Qed.

(* RSA-family fan-out: any list advertising at least one family name - every subset, every order - gives every family
   name the presented key and the same size notes *)
Theorem c11_family_fanout : forall l probe r d,
  (forall t, mem t rsa_family = true -> probe t = Got r) ->
  (exists t, mem t rsa_family = true /\ mem t l = true) ->
  let st := perform_test l probe d in
  forall t, mem t rsa_family = true ->
    assoc t (st_hostkeys st) = Some (rec_of r)
    /\ db_get (st_db st) "key" t =
       option_map (extend_notes (fst (notes_of "ssh-rsa" false r)) (snd (notes_of "ssh-rsa" false r))) (db_get d "key" t).
Proof. exact family_fanout. Qed.
Theorem c11_family_fanout_lists : forall l1 l2 probe r d,
  (forall t, mem t rsa_family = true -> probe t = Got r) ->
  (exists t, mem t rsa_family = true /\ mem t l1 = true) -> (exists t, mem t rsa_family = true /\ mem t l2 = true) ->
  forall t, mem t rsa_family = true ->
    assoc t (st_hostkeys (perform_test l1 probe d)) = assoc t (st_hostkeys (perform_test l2 probe d))
    /\ db_get (st_db (perform_test l1 probe d)) "key" t = db_get (st_db (perform_test l2 probe d)) "key" t.
Proof. exact family_fanout_lists. Qed.
Theorem c11_extend_notes : forall fs ws e,
  fails (extend_notes fs ws e) = fails e ++ fs /\ warns (extend_notes fs ws e) = warns e ++ ws
  /\ infos (extend_notes fs ws e) = infos e /\ versions (extend_notes fs ws e) = versions e.
Proof. exact extend_notes_spec. Qed.
Theorem c11_host_key_types_in_db :
  forallb (fun e => match db_get ssh2_db "key" (fst (fst e)) with Some _ => true | None => false end) host_key_types = true.
Proof. exact host_key_types_in_db. Qed.

(* end to end for the quantifier's RSA sizes: measured, displayed, fanned out and rated by the statement's thresholds *)
Theorem c11_rsa_end_to_end : forall l probe d e n k f sig,
  rsa_reply_ok e n f sig -> bitlen n = k -> k mod 16 = 0 ->
  (forall t, mem t rsa_family = true -> probe t = probe_outcome (Some (reply_payload (rsa_key_blob_of e n) f sig))) ->
  (exists t, mem t rsa_family = true /\ mem t l = true) ->
  let st := perform_test l probe d in
  forall t e0, mem t rsa_family = true -> db_get d "key" t = Some e0 ->
  exists v e1,
    assoc t (st_hostkeys st) = Some v /\ h_blob v = rsa_key_blob_of e n
    /\ hk_size (h_info v) = k /\ hk_ca_type (h_info v) = "" /\ hk_ca_size (h_info v) = 0
    /\ shown_name "key" t (infos_of (st_hostkeys st)) [] = t +++ " (" +++ z_to_string k +++ "-bit)"
    /\ db_get (st_db st) "key" t = Some e1
    /\ fails e1 = fails e0 ++ (if k <? 2048 then [note_small "" k] else [])
    /\ warns e1 = warns e0 ++ (if (2048 <=? k) && (k <? 3072) then [hk_two2k_warning] else [])
    /\ infos e1 = infos e0 /\ versions e1 = versions e0.
Proof. exact rsa_end_to_end. Qed.
Theorem c11_shown_cert : forall name hks v,
  assoc name hks = Some v -> hk_ca_type (h_info v) <> "" -> 0 < hk_ca_size (h_info v) ->
  shown_name "key" name (infos_of hks) [] =
  name +++ " (" +++ z_to_string (hk_size (h_info v)) +++ "-bit cert/" +++ z_to_string (hk_ca_size (h_info v)) +++ "-bit "
       +++ (if mem (hk_ca_type (h_info v)) rsa_family then "RSA" else hk_ca_type (h_info v)) +++ " CA)".
Proof. exact shown_cert. Qed.

(* JSON (repaired by 13b23e2): keysize for the RSA family and all three RSA certificate names; none for fixed-size keys *)
Theorem c11_json_keysize_present : forall name hks v,
  mem name rsa_family = true \/ rsa_cert_type name -> assoc name hks = Some v ->
  fst (json_key_fields name hks) = Some (hk_size (h_info v)).
Proof. exact json_keysize_present. Qed.
Theorem c11_json_keysize_absent_fixed_size : forall name hks, mem name ["ssh-ed25519"; "ssh-ed448"; ed25519_cert_name] = true ->
  fst (json_key_fields name hks) = None.
Proof. exact json_keysize_absent_fixed_size. Qed.

(* non-vacuity: the hypotheses of the size theorems are met by concrete keys *)
Theorem c11_rsa_reply_ok_example : rsa_reply_ok 65537 (2 ^ 2047 + 1) [] [].
Proof. exact rsa_reply_ok_2048. Qed.

(* the size adjustment of the model is the function the translator derives, statement by statement, from the current kexdh.py *)
From VGen Require Import Tables.
From VProofs Require Import TieC11.
Theorem c11_tie_adjust_key_size : forall size, adjust_key_size size = src_adjust_key_size size.
Proof. exact tie_adjust_key_size. Qed.

(* the size-rating block of HostKeyTest.perform_test() as it reads now (T1c translation, gen/Tables.v) is the model's size_notes:
   the threshold theorems above are therefore about the statements of the current source, for every key type, size, CA type and CA size *)
Theorem c11_tie_hostkey_notes : forall name cert hs cat cs, size_notes name cert hs cat cs = src_hostkey_notes name cert hs cat cs.
Proof. exact tie_hostkey_notes. Qed.
(* ... and therefore the threshold and monotonicity statements hold of the rating block as it reads in the current source *)
Theorem c11_src_rsa_thresholds_host : forall name s, mem name rsa_family = true -> 0 < s ->
  src_hostkey_notes name false s "" 0 =
  (if s <? 2048 then [note_small "" s] else [], if (2048 <=? s) && (s <? 3072) then [hk_two2k_warning] else []).
Proof. exact src_rsa_thresholds_host. Qed.
Theorem c11_src_rsa_thresholds_cert : forall name hs cat cs, rsa_cert_type name -> mem cat rsa_family = true -> 0 < hs -> 0 < cs ->
  src_hostkey_notes name true hs cat cs =
  ((if hs <? 2048 then [note_small "hostkey " hs] else []) ++ (if cs <? 2048 then [note_small "CA key " cs] else []),
   if ((2048 <=? hs) && (hs <? 3072)) || ((2048 <=? cs) && (cs <? 3072)) then [hk_two2k_warning] else []).
Proof. exact src_rsa_thresholds_cert. Qed.
Theorem c11_src_rating_monotone_host : forall name s s', mem name rsa_family = true -> 0 < s -> s <= s' ->
  severity (src_hostkey_notes name false s' "" 0) <= severity (src_hostkey_notes name false s "" 0).
Proof. exact src_rating_monotone_host. Qed.
Theorem c11_src_rating_monotone_cert : forall name cat hs hs' cs cs', rsa_cert_type name -> mem cat rsa_family = true ->
  0 < hs -> hs <= hs' -> 0 < cs -> cs <= cs' ->
  severity (src_hostkey_notes name true hs' cat cs') <= severity (src_hostkey_notes name true hs cat cs).
Proof. exact src_rating_monotone_cert. Qed.
Theorem c11_tie_extract_ok_hostkey_probe_constants : extract_ok_hostkey_probe_constants = true.
Proof. exact tie_extract_ok_hostkey_probe_constants. Qed.
