(* C12 - group-exchange modulus size is measured and rated correctly.
   Statements only; proofs are `exact <lemma>` from proofs/GexProofs.v.  Model: model/Gex.v
   (probe_loop = gextest.GEXTest.run for one algorithm, for ANY server `oracle`, stateful or not). *)
From VModel Require Import Gex.
From VProofs Require Import GexProofs.
Open Scope string_scope. Open Scope list_scope. Open Scope Z_scope.

(* ---- any server whatsoever ---- *)
(* at most 9 probes per algorithm: first probe, seven exact sizes, OpenSSH second pass *)
Theorem c12_probes_le_9 : forall o openssh, (List.length (g_trace (probe_loop o openssh)) <= 9)%nat.
Proof. exact probes_le_9. Qed.

(* the recorded trace is what the server answered to the k-th probe *)
Theorem c12_trace_faithful : forall o openssh i r a,
  nth_error (g_trace (probe_loop o openssh)) i = Some (r, a) -> a = o (0 + i)%nat r.
Proof. exact trace_faithful. Qed.

(* a reported size is positive and was handed out by the server to a probe of this run *)
Theorem c12_reported_was_handed_out : forall o openssh s,
  g_size (probe_loop o openssh) = Some s ->
  0 < s /\ exists k r, nth_error (g_trace (probe_loop o openssh)) k = Some (r, Bits s) /\ o k r = Bits s.
Proof. exact reported_was_handed_out. Qed.

(* precisely: it is the answer to the LAST probe sent (every probe overwrites the variable) *)
Theorem c12_reported_is_last_answer : forall o openssh d,
  g_size (probe_loop o openssh) = pos_size (ans_val (snd (last (g_trace (probe_loop o openssh)) d))).
Proof. exact reported_is_last_answer. Qed.

(* refuse / stall / garbage / reconnect failure on every probe: no size *)
Theorem c12_no_answer_no_size : forall o openssh,
  (forall k r n, o k r <> Bits n) -> g_size (probe_loop o openssh) = None.
Proof. exact no_answer_no_size. Qed.

Theorem c12_no_bits_in_trace_no_size : forall o openssh,
  (forall r a, In (r, a) (g_trace (probe_loop o openssh)) -> forall n, a <> Bits n) -> g_size (probe_loop o openssh) = None.
Proof. exact no_bits_in_trace_no_size. Qed.

(* OpenSSH banner and first pass ending at 2048: the result is the answer to the 2048-4096 probe, with the
   note iff that answer is another positive size; otherwise (other size or other banner) no extra probe *)
Theorem c12_openssh_second_pass : forall o sm rf t,
  first_pass o = (sm, rf, t) ->
  (sm = 2048 ->
     let a := o (List.length t) gex_second_pass in
     g_trace (probe_loop o true) = t ++ [(gex_second_pass, a)]
     /\ g_size (probe_loop o true) = pos_size (ans_val a)
     /\ g_updated (probe_loop o true) = (0 <? ans_val a) && negb (ans_val a =? 2048))
  /\ (sm <> 2048 ->
     g_trace (probe_loop o true) = t /\ g_size (probe_loop o true) = pos_size sm /\ g_updated (probe_loop o true) = false)
  /\ (g_trace (probe_loop o false) = t /\ g_size (probe_loop o false) = pos_size sm /\ g_updated (probe_loop o false) = false).
Proof. exact openssh_second_pass. Qed.

Theorem c12_note_only_for_other_size : forall o openssh,
  g_updated (probe_loop o openssh) = true ->
  openssh = true /\ exists n, g_size (probe_loop o openssh) = Some n /\ n <> 2048 /\ fst (fst (first_pass o)) = 2048.
Proof. exact updated_implies_other_size. Qed.

Theorem c12_fallback_note_present : forall n e e',
  e <> [] -> db_edit n true e = Ok e' -> In (gex_fallback_text n) (infos e').
Proof. exact fallback_note_present. Qed.

(* a final 2048 behind an OpenSSH banner (the value the report's OpenSSH-2048 note is attached to) was confirmed
   by the 2048-4096 probe itself *)
Theorem c12_openssh_final_2048_confirmed : forall o,
  g_size (probe_loop o true) = Some 2048 ->
  g_updated (probe_loop o true) = false /\ exists t, g_trace (probe_loop o true) = t ++ [(gex_second_pass, Bits 2048)].
Proof. exact openssh_final_2048_confirmed. Qed.

(* ---- thresholds, for every size and every table entry ---- *)
Theorem c12_gex_thresholds : forall n upd e, e <> [] ->
  exists e', db_edit n upd e = Ok e'
    /\ versions e' = versions e
    /\ fails e' = (if n <? 2048 then [gex_small_text n] else fails e)
    /\ warns e' = (if (2048 <=? n) && (n <? 3072) && negb (mem gex_warn_text (warns e)) then warns e ++ [gex_warn_text] else warns e)
    /\ infos e' = (if upd && negb (mem (gex_fallback_text n) (infos e)) then infos e ++ [gex_fallback_text n] else infos e).
Proof. exact gex_thresholds. Qed.

Theorem c12_gex_level_spec : forall n,
  (gex_level n = 2 <-> n < 2048) /\ (gex_level n = 1 <-> 2048 <= n < 3072) /\ (gex_level n = 0 <-> 3072 <= n).
Proof. exact gex_level_spec. Qed.

Theorem c12_gex_level_edit : forall n upd e, e <> [] ->
  exists e', db_edit n upd e = Ok e'
    /\ (gex_level n = 2 -> fails e' = [gex_small_text n] /\ warns e' = warns e)
    /\ (gex_level n = 1 -> fails e' = fails e /\ In gex_warn_text (warns e'))
    /\ (gex_level n = 0 -> fails e' = fails e /\ warns e' = warns e).
Proof. exact gex_level_edit. Qed.

(* a larger modulus is never rated worse *)
Theorem c12_gex_rating_monotone : forall n m, n <= m -> gex_level m <= gex_level n.
Proof. exact gex_rating_monotone. Qed.

(* ---- the whole loop over the algorithms ---- *)
Theorem c12_run_sound : forall os openssh offered d d' dh ts,
  gex_run os openssh offered d = Ok (d', dh, ts) ->
  (forall a t, In (a, t) ts -> In a gex_algs /\ mem a offered = true /\ (List.length t <= 9)%nat)
  /\ (forall a n, In (a, n) dh -> 0 < n /\ exists t k r, In (a, t) ts /\ nth_error t k = Some (r, Bits n) /\ os a k r = Bits n).
Proof. exact gex_run_sound. Qed.

(* ---- the quantifier's family: every subset of the nine sizes x three styles x banner x {sha1, sha256} ---- *)
Theorem c12_family_is_all_subsets : forall s, subseq s nine_sizes <-> In s (subsets nine_sizes).
Proof. exact (subsets_spec nine_sizes). Qed.

(* the statement as written is refuted on the family ... *)
Theorem c12_gex_family_correct_refuted :
  exists st s b, subseq s nine_sizes /\ model_result st s b <> expected st s b
                 /\ model_result st s b = (Some 3072, true) /\ expected st s b = (Some 2048, false).
Proof. exact gex_family_correct_refuted. Qed.

(* ... exactly on the behaviours `deviates` names (OpenSSH banner, configured 2048 the smallest handed out,
   2048-4096 probe answered differently): outside them reported size and note are as the statement says *)
Theorem c12_gex_family_correct_partial : forall st s b,
  subseq s nine_sizes -> deviates st s b = false -> model_result st s b = expected st s b.
Proof. exact gex_family_correct_partial. Qed.

Theorem c12_gex_family_deviation_exact : forall st s b,
  subseq s nine_sizes -> deviates st s b = true -> model_result st s b <> expected st s b.
Proof. exact gex_family_deviation_exact. Qed.

Theorem c12_gex_family_correct_other_banner : forall st s,
  subseq s nine_sizes -> model_result st s false = expected st s false.
Proof. exact gex_family_correct_other_banner. Qed.

(* end to end on the shipped table for sha1 and sha256: size recorded, entry rated by the thresholds, note present
   exactly when claimed; nothing recorded when no size *)
Theorem c12_gex_family_rated : forall st s b alg,
  subseq s nine_sizes -> In alg gex_algs ->
  exists d dh ts, gex_run (fun _ _ => serve st s) b [alg] ssh2_db = Ok (d, dh, ts)
    /\ match fst (model_result st s b) with
       | Some n => dh = [(alg, n)] /\ rated_ok alg n d = true
                   /\ snd (model_result st s b)
                      = match db_get d "kex" alg with Some e => mem (gex_fallback_text n) (infos e) | None => false end
       | None => dh = []
       end.
Proof. exact gex_family_rated. Qed.

(* literals the model repeats from the source are the ones the translator extracts from the current source (gen/Tables.v) *)
From VGen Require Import Tables.
From VModel Require Import Gex.
From VProofs Require Import TieC12.
Theorem c12_tie_gex_names : In gex256 gex_algs /\ In gex256 rec_chg_names.
Proof. exact tie_gex_names. Qed.
Theorem c12_tie_2048_warning : gex_warn_text = k2_WARN_2048BIT_MODULUS /\ hk_two2k_warning = k2_WARN_2048BIT_MODULUS.
Proof. exact tie_2048_warning. Qed.

(* the decisions of GEXTest.run() as they read now (T1c translation of the current source): early break, follow-up request against peers calling
   themselves OpenSSH (any banner whose software part contains the word), openssh_test_updated *)
Theorem c12_tie_gex_break : forall b sm, ((sm <=? b) && (0 <? sm))%Z = src_gex_break b sm.
Proof. exact tie_gex_break. Qed.
Theorem c12_tie_gex_second_pass : forall sm sw,
  ((sm =? gex_openssh_trigger)%Z && is_openssh sw) =
  match sw with Some s => src_gex_second_pass sm true s | None => src_gex_second_pass sm false EmptyString end.
Proof. exact tie_gex_second_pass. Qed.
Theorem c12_tie_gex_updated : forall sm2, ((0 <? sm2) && negb (sm2 =? gex_openssh_trigger))%Z = src_gex_updated sm2.
Proof. exact tie_gex_updated. Qed.
Theorem c12_tie_extract_ok_gex_probe_constants : extract_ok_gex_probe_constants = true.
Proof. exact tie_extract_ok_gex_probe_constants. Qed.
