(* C14 - software versions are ordered numerically, component by component.
   Statements only; proofs are `exact <lemma>` from proofs/VersionProofs.v.
   wfv s        : s is dot-separated decimal numbers and nothing else (boolean wfvb s = true)
   ints s       : the numbers of s;  lex_cmp : Python list comparison (-1/0/1), lex_lt : its "older" relation
   patch_domain : "", p0..p9 for OpenSSH; "", test0..test9 for Dropbear SSH; "" for every other product
   patch_domain1: the same without OpenSSH p0 *)
From VModel Require Import Version.
From VProofs Require Import VersionProofs.
Open Scope string_scope. Open Scope list_scope. Open Scope Z_scope.

(* ---- what "numeric, component by component" means ---- *)
(* lex_cmp is -1 exactly when the first differing number is smaller or the list is a proper prefix *)
Theorem c14_lex_older_iff : forall a b, lex_cmp a b = -1 <-> lex_lt a b.
Proof. exact lex_cmp_lt. Qed.
Theorem c14_lex_newer_iff : forall a b, lex_cmp a b = 1 <-> lex_lt b a.
Proof. exact lex_cmp_gt. Qed.
Theorem c14_lex_same_iff : forall a b, lex_cmp a b = 0 <-> a = b.
Proof. exact lex_cmp_eq. Qed.
Theorem c14_lex_range : forall a b, lex_cmp a b = -1 \/ lex_cmp a b = 0 \/ lex_cmp a b = 1.
Proof. exact lex_cmp_range. Qed.

(* a version text is well-formed iff it is the "."-join of non-empty digit strings; reading it gives their values *)
Theorem c14_wfv_iff : forall s, wfv s <-> exists c, wf_comps c /\ s = vstr c.
Proof. exact wfv_iff. Qed.
Theorem c14_ints_decimal : forall c, wf_comps c -> wfv (vstr c) /\ ints (vstr c) = map int_of_digits c.
Proof. exact wfv_vstr. Qed.
(* positional decimal value (multi-digit components are numbers, not text) *)
Theorem c14_int_of_digits_snoc : forall s d, int_of_digits (s ++ String d "") = 10 * int_of_digits s + digit_val d.
Proof. exact int_of_digits_snoc. Qed.

(* ---- Utils.compare_versions ---- *)
Theorem c14_cmp_numeric : forall a b, wfv a -> wfv b -> compare_versions a b = lex_cmp (ints a) (ints b).
Proof. exact cmp_numeric. Qed.

(* ---- Software.compare_version (self = product, version a, patch; other = text b ++ patch) ---- *)
(* numbers decide whenever they differ: any patch on our side, any suffix on the other side that does not start
   with a digit or dot and is a single trimmed line.  The other version must be at least two characters long. *)
Theorem c14_compare_version_numeric : forall prod a pa b pb,
  wfv a -> wfv b -> (2 <= String.length b)%nat -> clean_patchb pb = true -> ints a <> ints b ->
  compare_version prod a pa (b ++ pb) = lex_cmp (ints a) (ints b).
Proof. exact cmp_version_numeric. Qed.
Theorem c14_domain_suffixes_clean : forall prod p, In p (patch_domain prod) -> clean_patchb p = true.
Proof. exact domain_clean. Qed.

(* antisymmetric on the whole suffix domain, including OpenSSH p0 *)
Theorem c14_compare_version_antisym : forall prod a pa b pb,
  wfv a -> wfv b -> (2 <= String.length a)%nat -> (2 <= String.length b)%nat ->
  In pa (patch_domain prod) -> In pb (patch_domain prod) ->
  compare_version prod b (popt pb) (a ++ pa) = - compare_version prod a (popt pa) (b ++ pb).
Proof. exact cmp_version_antisym. Qed.

(* without p0 the judgement is the lexicographic order of (numbers, suffix rank): a total preorder *)
Theorem c14_compare_version_key : forall prod a pa b pb,
  wfv a -> wfv b -> (2 <= String.length b)%nat ->
  In pa (patch_domain1 prod) -> In pb (patch_domain1 prod) ->
  compare_version prod a (popt pa) (b ++ pb) = key_cmp (ints a) (rank prod pa) (ints b) (rank prod pb).
Proof. exact cmp_version_key. Qed.
Theorem c14_compare_version_trans : forall prod a pa b pb c pc,
  wfv a -> wfv b -> wfv c -> (2 <= String.length b)%nat -> (2 <= String.length c)%nat ->
  In pa (patch_domain1 prod) -> In pb (patch_domain1 prod) -> In pc (patch_domain1 prod) ->
  compare_version prod a (popt pa) (b ++ pb) <= 0 -> compare_version prod b (popt pb) (c ++ pc) <= 0 ->
  compare_version prod a (popt pa) (c ++ pc) <= 0 /\
  (compare_version prod a (popt pa) (b ++ pb) < 0 \/ compare_version prod b (popt pb) (c ++ pc) < 0 ->
   compare_version prod a (popt pa) (c ++ pc) < 0).
Proof. exact cmp_version_trans. Qed.

(* recorded finding: with OpenSSH p0 transitivity fails (x < x p0 < x p1 but x = x p1) *)
Theorem c14_trans_p0_refuted : exists v,
  wfv v /\ compare_version P_OpenSSH v None (v ++ "p0") < 0 /\ compare_version P_OpenSSH v (Some "p0") (v ++ "p1") < 0
  /\ compare_version P_OpenSSH v None (v ++ "p1") = 0.
Proof. exact trans_p0_refuted. Qed.
(* recorded finding: a one-character version is not split from its suffix on the other side
   (10.0 judged older than 7p1; 7p1 and 7p2 each judged older than the other) *)
Theorem c14_single_digit_refuted : exists a b p q,
  wfv a /\ wfv b /\ In p (patch_domain P_OpenSSH) /\ In q (patch_domain P_OpenSSH) /\
  compare_version P_OpenSSH a None (b ++ p) <> lex_cmp (ints a) (ints b) /\ ints a <> ints b /\
  compare_version P_OpenSSH b (popt p) (b ++ q) = -1 /\ compare_version P_OpenSSH b (popt q) (b ++ p) = -1.
Proof. exact single_digit_refuted. Qed.

(* ---- availability: recommendations ---- *)
(* against a bare table version w of any length: older iff numerically older, for every patch except a
   Dropbear testN build *)
Theorem c14_available_iff_numeric_ge : forall prod a pa w,
  wfv a -> wfv w -> released prod (or_empty pa) = true ->
  (compare_version prod a pa w <? 0) = (lex_cmp (ints a) (ints w) <? 0).
Proof. exact available_iff_numeric_ge. Qed.
Theorem c14_rec_matches_spec : forall prod a pa fs toks,
  wfv a -> released prod (or_empty pa) = true -> Forall token_ok toks ->
  rec_matches_tokens prod a pa fs toks = existsb (token_available prod (ints a) fs) toks.
Proof. exact rec_matches_spec. Qed.
(* every version token of the generated rating tables is well-formed, so the text fallback is never taken *)
Theorem c14_table_tokens_wf : forall t, In t table_tokens -> token_ok t.
Proof. exact table_tokens_wf. Qed.
Theorem c14_rec_matches_table : forall prod a pa fs s,
  In s (first_seen_texts ssh2_db ++ first_seen_texts ssh1_db) -> wfv a -> released prod (or_empty pa) = true ->
  rec_matches prod a pa fs s = existsb (token_available prod (ints a) fs) (split_on "," s).
Proof. exact rec_matches_table. Qed.
Theorem c14_between_numeric : forall prod a f t, wfv a -> wfv f -> wfv t ->
  between prod a None f t = (0 <=? lex_cmp (ints a) (ints f)) && (lex_cmp (ints a) (ints t) <=? 0).
Proof. exact between_numeric. Qed.

(* ---- compatibility time frame: the slot decision of Timeframe._update ---- *)
Theorem c14_timeframe_from_is_numeric_max : forall pos vs, Nat.even pos = true -> vs <> [] -> Forall wfv vs ->
  exists m, fold_left (slot_step pos) vs None = Some m /\ In m vs /\ forall v, In v vs -> lex_cmp (ints v) (ints m) <= 0.
Proof. exact timeframe_from_max. Qed.
Theorem c14_timeframe_till_is_numeric_min : forall pos vs, Nat.even pos = false -> vs <> [] -> Forall wfv vs ->
  exists m, fold_left (slot_step pos) vs None = Some m /\ In m vs /\ forall v, In v vs -> lex_cmp (ints m) (ints v) <= 0.
Proof. exact timeframe_till_min. Qed.

(* literals the model repeats from the source are the ones the translator extracts from the current source (gen/Tables.v) *)
From VGen Require Import Tables.
From VModel Require Import Version.
From VProofs Require Import TieC14.
Theorem c14_tie_products : P_OpenSSH = product_OpenSSH /\ P_Dropbear = product_DropbearSSH /\ P_LibSSH = product_LibSSH.
Proof. exact tie_products. Qed.
(* the availability filter reads version tokens with Algorithm.get_ssh_version as it reads now (T1c translation) *)
Theorem c14_tie_get_ssh_version : forall v, get_ssh_version v = src_get_ssh_version v.
Proof. exact tie_get_ssh_version. Qed.
Theorem c14_tie_between : forall prod sver spatch vfrom vtill,
  between prod sver spatch vfrom vtill = src_between_versions vfrom vtill (compare_version prod sver spatch vfrom) (compare_version prod sver spatch vtill).
Proof. exact tie_between. Qed.
(* the patch-level comparison (Dropbear `test` builds, OpenSSH p-levels, the p1 = base rule, the final three-way result) is the block of
   Software.compare_version as it reads now; the four regular-expression matches stay modelled (is_test, p_digit: correspondence) *)
Theorem c14_tie_patch_cmp : forall prod spatch opatch,
  patch_cmp prod spatch opatch = src_patch_cmp prod spatch opatch (is_test opatch) (is_test spatch) (p_digit opatch) (p_digit spatch).
Proof. exact tie_patch_cmp. Qed.
(* Software.compare_version from the version comparison to its end is the source as it reads now: the version texts decide first *)
Theorem c14_tie_compare_tail : forall prod sver spatch other,
  compare_version prod sver spatch other =
  let (oversion, opatch) := split_other other in
  src_compare_tail (compare_versions sver oversion) prod (or_empty spatch) opatch
                   (is_test opatch) (is_test (or_empty spatch)) (p_digit opatch) (p_digit (or_empty spatch)).
Proof. exact tie_compare_tail. Qed.
(* source-level corollaries (about the translated lines only, for every outcome of the four matches) *)
Theorem c14_src_version_decides : forall vc prod s o a b c d, vc <> 0 -> src_compare_tail vc prod s o a b c d = vc.
Proof. exact src_version_decides. Qed.
Theorem c14_src_tail_range : forall vc prod s o a b c d, vc = -1 \/ vc = 0 \/ vc = 1 ->
  let r := src_compare_tail vc prod s o a b c d in r = -1 \/ r = 0 \/ r = 1.
Proof. exact src_tail_range. Qed.
