(* C08 - one bad target never costs the others their results. *)
From Coq Require Import Permutation.
From VModel Require Import Multi.
From VProofs Require Import MultiProofs.
Open Scope string_scope. Open Scope list_scope. Open Scope Z_scope.

(* the run's status ranks at least as high as every target's and is GOOD or one of the targets' statuses:
   it is the highest-ranked status (internal error > connection error > failure > warning > good) *)
Theorem c08_exit_is_max_rank : forall results : list (Z * string),
  (forall r, In r results -> (rank (fst r) <= rank (final_status results))%nat) /\
  (final_status results = exit_GOOD \/ In (final_status results) (map fst results)).
Proof. exact exit_is_max_rank. Qed.

Theorem c08_rank_order : map rank [exit_GOOD; exit_WARNING; exit_FAILURE; exit_CONNECTION_ERROR; exit_UNKNOWN_ERROR] = [0; 1; 2; 3; 4]%nat.
Proof. exact rank_order. Qed.

(* whatever order the workers complete in *)
Theorem c08_completion_order_irrelevant : forall r1 r2 : list (Z * string),
  Permutation r1 r2 -> (forall r, In r r1 -> In (fst r) ranked_return_codes) -> final_status r1 = final_status r2.
Proof. exact final_status_order_independent. Qed.

(* exactly one block per worker result; with JSON output stdout is "[" b1 ", " b2 ... "]" *)
Theorem c08_one_block_each : forall (json : bool) (results : list (Z * string)), List.length (map snd results) = List.length results.
Proof. exact one_block_each. Qed.
Theorem c08_json_array_shape : forall results : list (Z * string),
  multi_stdout true results = "[" +++ join ", " (map snd results) +++ "]" +++ nl.
Proof. exact json_array_shape. Qed.

(* literals the model repeats from the source are the ones the translator extracts from the current source (gen/Tables.v) *)
From VGen Require Import Tables.
From VModel Require Import Multi.
From VProofs Require Import TieC08.
Theorem c08_tie_multi_delimiter : delimiter = String.append (String.concat "" (repeat src_multi_delim_char src_multi_delim_count)) nl.
Proof. exact tie_multi_delimiter. Qed.
Theorem c08_tie_multi_json : multi_stdout true [(0%Z, "A"); (0%Z, "B")] = String.append src_multi_json_open (String.append "A" (String.append src_multi_json_sep (String.append "B" (String.append src_multi_json_close nl)))).
Proof. exact tie_multi_json. Qed.
(* the rank comparison of main() as it reads now (T1c translation) is the model's merge, for all statuses of the ranked list *)
Theorem c08_tie_rank_update : forall ret w, In ret ranked_return_codes -> In w ranked_return_codes -> merge ret w = src_rank_update ret w.
Proof. exact tie_rank_update. Qed.
From VModel Require Import Rating.
From VProofs Require Import RatingProofs.
(* no algorithm name shown in a report contains a line feed, carriage return or escape: a peer cannot forge the delimiter line or a `(gen) target:` line of another block *)
Theorem c08_shown_names_no_control : forall s, ~ In (ascii_of_nat 10) (chars (display s)) /\ ~ In (ascii_of_nat 13) (chars (display s)) /\ ~ In (ascii_of_nat 27) (chars (display s)).
Proof. exact display_no_newline. Qed.
(* the highest-rank theorem holds of the fold of the comparison as it reads in the current source *)
Theorem c08_src_final_status : forall results : list (Z * string),
  (forall r, In r results -> In (fst r) ranked_return_codes) ->
  final_status results = fold_left (fun ret r => src_rank_update ret (fst r)) results exit_GOOD.
Proof. exact src_final_status. Qed.
Theorem c08_tie_extract_ok_ranked_return_codes : extract_ok_ranked_return_codes = true.
Proof. exact tie_extract_ok_ranked_return_codes. Qed.
