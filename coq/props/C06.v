(* C06 - policy verdicts follow the documented matching rules.
   Statements only; proofs are `exact <lemma>` from proofs/PolicyProofs.v.
   Model: model/PolicyM.v (evaluate = Policy.evaluate on a fresh object; satisfies / error_for = the SPEC). *)
From VModel Require Import PolicyM.
From VProofs Require Import PolicyProofs.
Open Scope string_scope. Open Scope list_scope. Open Scope Z_scope.

(* the verdict is `passed` exactly when every field the policy specifies is satisfied - all policies, all peers *)
Theorem c06_evaluate_correct : forall p pr, fst (evaluate p pr) = true <-> satisfies p pr.
Proof. exact evaluate_correct. Qed.

(* passed iff the error list is empty (fresh Policy object) *)
Theorem c06_passed_iff_no_errors : forall p pr, fst (evaluate p pr) = true <-> snd (evaluate p pr) = [].
Proof. exact passed_iff_no_errors. Qed.

(* a re-used Policy object: same verdict, the earlier errors stay in front of the new ones (what C07 builds on) *)
Theorem c06_accumulator_only_grows : forall acc p pr,
  evaluate_from acc p pr = (fst (evaluate p pr), acc ++ snd (evaluate p pr)).
Proof. exact evaluate_from_acc. Qed.

(* evaluate(banner, None): only the banner is judged *)
Theorem c06_no_kex : forall p banner acc,
  let r := evaluate_nokex_from acc p banner in
  (fst r = true <-> match p_banner p with Some b => banner = b | None => True end) /\
  (fst r = true <-> snd r = acc).
Proof. exact evaluate_nokex. Qed.

(* every reported error names a specified, unsatisfied field with expected = the policy's value and
   actual = the peer's value (CA type judged before CA size) ... *)
Theorem c06_errors_name_fields : forall p pr e, In e (snd (evaluate p pr)) -> error_for p pr e.
Proof. exact errors_name_fields. Qed.

(* ... and every unsatisfied field is reported *)
Theorem c06_errors_complete : forall p pr e, error_for p pr e -> In e (snd (evaluate p pr)).
Proof. exact errors_complete. Qed.

(* shrinking (or reordering) a passing peer's lists under subset mode never fails it, the strict-kex markers it offers being kept *)
Theorem c06_subset_shrink_monotone : forall p pr pr',
  p_subset p = true -> shrinks pr pr' -> fst (evaluate p pr) = true -> fst (evaluate p pr') = true.
Proof. exact subset_shrink_monotone. Qed.

(* growing a passing peer's key / CA / modulus sizes under larger-keys mode never fails it *)
Theorem c06_larger_keys_grow_monotone : forall p pr pr',
  p_larger p = true -> grows pr pr' -> fst (evaluate p pr) = true -> fst (evaluate p pr') = true.
Proof. exact larger_keys_grow_monotone. Qed.

(* error text: one block per error, each block is the rendering of a reported error and starts by naming its field *)
Theorem c06_render_names_field : forall subset errs s,
  In s (error_list subset errs) ->
  exists e, In e errs /\ s = render_error subset e /\
            String.prefix (String.append "  * " (String.append (e_field e) (String.append " did not match." nl))) s = true.
Proof. exact render_names_field. Qed.

Theorem c06_render_count : forall subset errs, List.length (error_list subset errs) = List.length errs.
Proof. exact render_count. Qed.

(* recorded finding render/int-like-name-normalised: expected/actual values are not always shown verbatim ... *)
Theorem c06_render_verbatim_refuted : exists l, normalize_error_field l <> join ", " l.
Proof. exact render_verbatim_refuted. Qed.

(* ... they are, unless the value is a single name that int() accepts *)
Theorem c06_render_verbatim_partial : forall l,
  (forall x, l = [x] -> py_int x = None) -> normalize_error_field l = join ", " l.
Proof. exact render_verbatim_partial. Qed.

(* literals the model repeats from the source are the ones the translator extracts from the current source (gen/Tables.v) *)
From VGen Require Import Tables.
From VModel Require Import PolicyM.
From VProofs Require Import TieC06.
Theorem c06_tie_policy_markers : [kex_strict_c; kex_strict_s] = src_policy_markers.
Proof. exact tie_policy_markers. Qed.

(* every decision of Policy.evaluate() as it reads now (T1c translation of the current source): size comparisons, marker condition, exact comparisons, subset loops,
   pruning, CA-specified condition; and its error labels in source order *)
Theorem c06_tie_size_bad : forall larger a e,
  size_bad larger a e = src_policy_size_bad_0 larger a e /\ size_bad larger a e = src_policy_size_bad_1 larger a e /\ size_bad larger a e = src_policy_size_bad_2 larger a e.
Proof. exact tie_size_bad. Qed.
Theorem c06_tie_marker_missing : forall k peer,
  ((mem kex_strict_s k && negb (mem kex_strict_s peer)) || (mem kex_strict_c k && negb (mem kex_strict_c peer))) = src_policy_marker_missing k peer.
Proof. exact tie_marker_missing. Qed.
Theorem c06_tie_exact_differs : forall a l,
  negb (strs_eqb a l) = src_policy_exact_differs_0 a l /\ negb (strs_eqb a l) = src_policy_exact_differs_1 a l /\ negb (strs_eqb a l) = src_policy_exact_differs_2 a l
  /\ negb (strs_eqb a l) = src_policy_exact_differs_3 a l /\ negb (strs_eqb a l) = src_policy_exact_differs_4 a l.
Proof. exact tie_exact_differs. Qed.
Theorem c06_tie_not_all_in : forall a l, not_all_in a l = src_policy_not_all_in a l.
Proof. exact tie_not_all_in. Qed.
Theorem c06_tie_pruned : forall p pr o, p_optional_host_keys p = Some o -> pruned_host_keys p pr = src_policy_pruned (pr_key pr) o.
Proof. exact tie_pruned. Qed.
Theorem c06_tie_ca_specified : forall t sz, (negb (String.eqb t "") && (0 <? sz))%Z = src_policy_ca_specified t sz.
Proof. exact tie_ca_specified. Qed.
Theorem c06_tie_error_labels :
  map label_template (map e_field (snd (evaluate all_wrong_policy all_wrong_peer))) = dedup_adj src_policy_error_labels.
Proof. exact tie_error_labels. Qed.
